#!/usr/bin/env python3
"""Regenerate seeded/results.json and the table of DESIGN.md §10.2 from a `tools/seeded.py check` log.

usage: tools/seeded_table.py <check-log>      (the log may hold several runs; the last line per id wins)

seeded/first_run.json (committed, edited by hand when a round is added) says what the checks did the FIRST time they met a change:
"caught as built" or "missed, check strengthened (§10.x)".  The table sits between the two marker lines in DESIGN.md.
"""

from __future__ import annotations

import json
import sys
from pathlib import Path

ROOT = Path(__file__).resolve().parent.parent
BEGIN, END = "<!-- seeded-table-begin -->", "<!-- seeded-table-end -->"


def clip(s: str, n: int) -> str:
    s = " ".join(str(s).split()).replace("|", "/")
    return s if len(s) <= n else s[: n - 1] + "…"


def main() -> int:
    rows: dict[str, dict] = {}
    for ln in Path(sys.argv[1]).read_text().splitlines():
        if ln.startswith(("CAUGHT ", "MISSED ")):
            r = json.loads(ln.split(" ", 1)[1])
            rows[r["id"]] = r
    res_file = ROOT / "seeded" / "results.json"
    old = json.loads(res_file.read_text()) if res_file.exists() else {}
    old.update(rows)
    kept = sorted(p.name for p in (ROOT / "seeded").iterdir() if p.is_dir() and (p / "meta.json").exists())
    old = {k: old[k] for k in kept if k in old}
    res_file.write_text(json.dumps(old, indent=1, sort_keys=True) + "\n")
    first = json.loads((ROOT / "seeded" / "first_run.json").read_text())
    out = ["| id | what the change does (from the sub-agent's meta.json) | needs | caught by | first-run result |", "|---|---|---|---|---|"]
    missed = []
    for sid in kept:
        meta = json.loads((ROOT / "seeded" / sid / "meta.json").read_text())
        r = old.get(sid)
        by = "not run"
        if r:
            hit = [(k, v) for k, v in r["checks"].items() if v["exit"] == 1]
            by = f"{hit[0][0]} {hit[0][1]['keys'][0] if hit[0][1]['keys'] else ''}" if hit else "MISSED"
            if not hit:
                missed.append(sid)
        out.append(f"| {sid} | {clip(meta.get('summary', ''), 160)} | {clip(meta.get('needs_to_manifest', ''), 140)} | {clip(by, 90)} | {first.get(sid, '?')} |")
    d = (ROOT / "DESIGN.md").read_text()
    a, b = d.index(BEGIN), d.index(END)
    (ROOT / "DESIGN.md").write_text(d[: a + len(BEGIN)] + "\n" + "\n".join(out) + "\n" + d[b:])
    n_quick = sum(1 for sid in kept if sid in old and any(k.endswith("/quick") and v["exit"] == 1 for k, v in old[sid]["checks"].items()))
    print(f"{len(kept)} kept, {len(kept) - len(missed)} caught ({n_quick} by the quick tier), missed: {missed}")
    return 1 if missed else 0


if __name__ == "__main__":
    sys.exit(main())

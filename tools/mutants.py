#!/usr/bin/env python3
"""Self-validation of the monitors: apply deliberate property-breaking edits to a scratch copy of the
package (outside /repo and /verif), run the property's quick check against it (must exit 1) and
optionally the repository's own suite (should still pass), then remove the scratch copy.

usage: tools/mutants.py [--only NAME_SUBSTRING] [--prop Cxx] [--tests] [--list]
"""

from __future__ import annotations

import argparse
import json
import os
import shutil
import subprocess
import sys
import tempfile
import time
from pathlib import Path

ROOT = Path(__file__).resolve().parent.parent
REPO = Path("/repo")


def load() -> list[dict]:
    return json.loads((ROOT / "mutants" / "mutants.json").read_text())


def apply(m: dict, scratch: Path) -> None:
    edits = m.get("edits") or [{"file": m["file"], "find": m["find"], "replace": m["replace"]}]
    for e in edits:
        f = scratch / e.get("file", m.get("file"))
        s = f.read_text()
        if e["find"] not in s:
            raise SystemExit(f"mutant {m['name']}: pattern not found in {f}")
        s = s.replace(e["find"], e["replace"], 1)
        f.write_text(s)


def main() -> int:
    ap = argparse.ArgumentParser()
    ap.add_argument("--only")
    ap.add_argument("--prop")
    ap.add_argument("--tests", action="store_true")
    ap.add_argument("--list", action="store_true")
    a = ap.parse_args()
    muts = load()
    if a.only:
        muts = [m for m in muts if a.only in m["name"]]
    if a.prop:
        muts = [m for m in muts if a.prop in m["props"]]
    if a.list:
        for m in muts:
            print(m["name"], m["props"])
        return 0
    results = []
    for m in muts:
        scratch = Path(tempfile.mkdtemp(prefix="vfmut-"))
        try:
            shutil.copytree(REPO / "aioesphomeapi", scratch / "aioesphomeapi", ignore=shutil.ignore_patterns("__pycache__"))
            apply(m, scratch)
            row = {"name": m["name"], "props": {}}
            if a.tests:
                shutil.copytree(REPO / "tests", scratch / "tests", ignore=shutil.ignore_patterns("__pycache__"))
                for extra in ("pyproject.toml", "setup.cfg"):
                    if (REPO / extra).exists():
                        shutil.copy(REPO / extra, scratch / extra)
                r = subprocess.run(["/venv/bin/python", "-m", "pytest", "-q", "-p", "no:cacheprovider", "-x", "--timeout=300", "tests",
                                    "--deselect", "tests/test_util.py::test_create_eager_task_312"],
                                   cwd=scratch, capture_output=True, text=True, env={**os.environ, "PYTHONPATH": str(scratch), "PYTHONDONTWRITEBYTECODE": "1"})
                row["suite"] = "pass" if r.returncode == 0 else "FAIL: " + r.stdout.strip().splitlines()[-1][:100]
            for prop in m["props"]:
                t0 = time.time()
                r = subprocess.run([str(ROOT / "check"), prop, "--tier", "quick"], capture_output=True, text=True,
                                   env={**os.environ, "VERIF_REPO": str(scratch)})
                keys = sorted({l.split("key=")[1].split(":")[0] for l in r.stdout.splitlines() if "key=" in l})
                rc = r.returncode if not (r.returncode == 1 and "VIOLATION property=" not in r.stdout) else 2   # exit 1 without a VIOLATION line = crash
                row["props"][prop] = {"exit": rc, "keys": keys[:4], "s": round(time.time() - t0, 1)}
            results.append(row)
            caught = all(v["exit"] == 1 for v in row["props"].values())
            print(("CAUGHT " if caught else "MISSED ") + json.dumps(row), flush=True)
        finally:
            shutil.rmtree(scratch, ignore_errors=True)
    missed = [r for r in results if any(v["exit"] != 1 for v in r["props"].values())]
    print(f"{len(results) - len(missed)}/{len(results)} mutants caught")
    return 1 if missed else 0


if __name__ == "__main__":
    sys.exit(main())

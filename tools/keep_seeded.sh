#!/bin/bash
# keep_seeded.sh <Cxx> <variant>: after tools/seeded.py verify succeeded, copy the candidate into /verif/seeded/<Cxx>-<variant>/ and record what was run
set -e
cd "$(dirname "$0")/.."
src=${SEED_OUT:-/tmp/seed/out}/$1/$2
dst=seeded/$1-$2
mkdir -p $dst
cp $src/patch.diff $src/demo.py $dst/
python3 tools/seeded.py verify $src > /tmp/verify_$1_$2.json || { echo "verify failed"; cat /tmp/verify_$1_$2.json; rm -rf $dst; exit 1; }
/venv/bin/python - "$src/meta.json" "$dst/meta.json" /tmp/verify_$1_$2.json <<'PY'
import json,sys
m=json.load(open(sys.argv[1])); v=json.load(open(sys.argv[3]))
m["confirmed_by_verifier"]={"ran":"tools/seeded.py verify (scratch copy of /repo HEAD: demo.py on clean tree, git apply patch.diff, repository suite, demo.py again)",
  "demo_clean_exit":v["demo_clean"],"suite_exit":v["suite"],"suite_tail":v["suite_tail"],"demo_patched_exit":v["demo_patched"]}
json.dump(m,open(sys.argv[2],"w"),indent=1)
PY
echo kept $dst

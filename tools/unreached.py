#!/usr/bin/env python3
"""tools/unreached.py <Cxx>: after a check ran, list the executable lines of the property's anchored functions that no execution reached
(needs the per-line set, so it re-runs the check's shards in-process at quick tier, single shard)."""
import json, sys, os
sys.path.insert(0, "/verif"); os.environ.setdefault("VERIF_REPO", "/repo")
from vf import common, linereach
common.setup_path()
import importlib
prop = sys.argv[1]
mod = importlib.import_module(f"vf.props.{prop.lower()}")
import logging; logging.disable(logging.CRITICAL)
linereach.start(common.REPO)
ctx = common.Ctx(prop, 0, 1, sys.argv[2] if len(sys.argv) > 2 else "quick", 0)
mod.shard(ctx)
reached = set(linereach.stop())
rec = [json.loads(l) for l in open("/verif/properties.jsonl") if l.strip() and json.loads(l)["id"] == prop][0]
for a in rec["anchors"].get("mechanism", []):
    rel, spans = linereach.parse_where(a["where"])
    path = common.REPO / "aioesphomeapi" / rel
    funcs = linereach.functions_overlapping(path, spans)
    exe = linereach.executable_lines(path)
    src = path.read_text().splitlines()
    print(f"== {a['name']} [{a['where']}] -> {[f[0] for f in funcs]}")
    for name, fa, fb in funcs:
        for ln in sorted(exe):
            if fa < ln <= fb and f"{rel}:{ln}" not in reached:
                print(f"   {rel}:{ln}: {src[ln-1].strip()[:110]}")

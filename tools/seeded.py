#!/usr/bin/env python3
"""Seeded property-breaking changes (written by independent sub-agents that saw only the property text).

usage: tools/seeded.py verify <dir>            confirm a candidate: demo passes on the clean tree, patch applies, the repository's own
                                               suite still passes with it, demo fails with it
       tools/seeded.py check [<id> ...]        run the property's check (quick, then thorough if quick misses) against every kept change
                                               under seeded/ (or the given ids) and print which checks catch which changes
Everything runs on a scratch copy of /repo outside /repo and /verif (removed afterwards); /repo itself is never modified.
"""

from __future__ import annotations

import json
import os
import shutil
import subprocess
import sys
import tempfile
import time
from pathlib import Path

ROOT = Path(__file__).resolve().parent.parent
REPO = Path("/repo")
PY = "/venv/bin/python"


def scratch_copy() -> Path:
    d = Path(tempfile.mkdtemp(prefix="vfseed-"))
    for name in ("aioesphomeapi", "tests", "pyproject.toml", "setup.cfg", "setup.py", "requirements.txt", "requirements_test.txt", "README.rst"):
        src = REPO / name
        if src.is_dir():
            shutil.copytree(src, d / name, ignore=shutil.ignore_patterns("__pycache__"))
        elif src.exists():
            shutil.copy(src, d / name)
    return d


def run(cmd: list[str], cwd: Path, timeout: int = 900, env: dict[str, str] | None = None) -> tuple[int, str]:
    e = {**os.environ, "PYTHONPATH": str(cwd), "PYTHONDONTWRITEBYTECODE": "1"}
    if env:
        e.update(env)
    try:
        r = subprocess.run(cmd, cwd=cwd, capture_output=True, text=True, timeout=timeout, env=e)
        return r.returncode, (r.stdout + r.stderr)[-3000:]
    except subprocess.TimeoutExpired:
        return -9, "timeout"


def suite(d: Path) -> tuple[int, str]:
    return run([PY, "-m", "pytest", "-q", "-p", "no:cacheprovider", "--timeout=900", "tests",
                "--deselect", "tests/test_util.py::test_create_eager_task_312"], d)


def verify(src: Path) -> dict:
    d = scratch_copy()
    row: dict = {"dir": str(src)}
    try:
        shutil.copy(src / "demo.py", d / "demo.py")
        rc, out = run([PY, "demo.py"], d, 120)
        row["demo_clean"] = rc
        rc, out = run(["git", "apply", "--whitespace=nowarn", str((src / "patch.diff").resolve())], d)
        row["apply"] = rc
        if rc != 0:
            row["apply_out"] = out[-400:]
            return row
        rc, out = suite(d)
        row["suite"] = rc
        row["suite_tail"] = out.strip().splitlines()[-1][:160] if out.strip() else ""
        rc, out = run([PY, "demo.py"], d, 120)
        row["demo_patched"] = rc
        row["demo_tail"] = out.strip().splitlines()[-3:]
        row["ok"] = row["demo_clean"] == 0 and row["suite"] == 0 and row["demo_patched"] not in (0, -9)
    finally:
        shutil.rmtree(d, ignore_errors=True)
    return row


def check(sd: Path, tiers: tuple[str, ...] = ("quick", "thorough"), props: list[str] | None = None) -> dict:
    meta = json.loads((sd / "meta.json").read_text())
    d = scratch_copy()
    row: dict = {"id": sd.name, "property": meta["property"], "checks": {}}
    try:
        rc, out = run(["git", "apply", "--whitespace=nowarn", str((sd / "patch.diff").resolve())], d)
        if rc != 0:
            row["error"] = "patch does not apply: " + out[-300:]
            return row
        # "judged_under" in meta.json: the change was written against property X but, read against the statements, it is a violation of
        # property Y only (the reason is recorded next to it); it is then Y's check that has to catch it
        for prop in props or meta.get("judged_under") or [meta["property"]]:
            for tier in tiers:
                t0 = time.time()
                r = subprocess.run([str(ROOT / "check"), prop, "--tier", tier], capture_output=True, text=True,
                                   env={**os.environ, "VERIF_REPO": str(d)}, cwd=ROOT)
                keys = sorted({ln.split("key=")[1].split(":")[0] for ln in r.stdout.splitlines() if "key=" in ln})
                rc = r.returncode
                if rc == 1 and "VIOLATION property=" not in r.stdout:
                    rc = 2      # exit status 1 without a VIOLATION line is a crash of the machinery, not a catch
                row["checks"][f"{prop}/{tier}"] = {"exit": rc, "keys": keys[:5], "s": round(time.time() - t0, 1)}
                if rc == 1:
                    break
    finally:
        shutil.rmtree(d, ignore_errors=True)
    return row


def main() -> int:
    if len(sys.argv) < 2:
        print(__doc__)
        return 2
    if sys.argv[1] == "verify":
        row = verify(Path(sys.argv[2]))
        print(json.dumps(row, indent=1))
        return 0 if row.get("ok") else 1
    if sys.argv[1] == "check":
        ids = sys.argv[2:]
        dirs = sorted(p for p in (ROOT / "seeded").iterdir() if p.is_dir() and (p / "meta.json").exists() and (not ids or p.name in ids))
        missed = 0
        for sd in dirs:
            row = check(sd)
            caught = any(v["exit"] == 1 for v in row["checks"].values())
            missed += not caught
            print(("CAUGHT " if caught else "MISSED ") + json.dumps(row), flush=True)
        print(f"{len(dirs) - missed}/{len(dirs)} seeded changes caught")
        return 1 if missed else 0
    print(__doc__)
    return 2


if __name__ == "__main__":
    sys.exit(main())

#!/usr/bin/env python3
"""Regenerate MANIFEST.json from the table below (keeps it schema-valid at all times)."""

from __future__ import annotations

import json
from pathlib import Path

ROOT = Path(__file__).resolve().parent.parent

TRUST = ("Trusted: CPython 3.12 + asyncio, protobuf runtime, cryptography primitives, the harness (engine S rotates, per scenario and recorded in every witness: client debug flag, clock start incl. a month of uptime, address family, errno of a dying link, loop debug mode, the Python form of the stop callback, chunking of the device's stream, firmware flavour of default devices (hello without a name / API 1.2, 1.8, 1.12 / deep sleep), display and log names with formatting-special characters, module loggers disagreeing about DEBUG, harness calls made from inside an exception handler (one scenario in four); process monotonic clocks follow the simulated clock; a quarter of each check's worker processes runs under python -O, a quarter with DeprecationWarnings as errors, and for C04/C08/C12 a quarter on the pure-Python protobuf back end). "
         "Oracles use an independent codec / Noise responder / api.proto text parser / executable models, never the code under test.")

# id -> (engine, category, level text, technique, design_ref)
CHECKS: dict[str, tuple[str, str, str, str, str]] = {
    "C01": ("W", "exploration",
            "Runtime monitor on the real APIPlaintextFrameHelper: every process_packet call is recorded with the index of the "
            "data_received call that produced it and compared with an independent decoder's byte-offset bookkeeping, over "
            "~200k (quick) generated stream x segmentation x buffer-type cases, incl. ALL segmentations of short streams. "
            "Held = held on these executions. Chunk objects include bytes-like types whose items are wider than one byte or that are two-dimensional; bursts of 129-6000 complete small frames in one chunk; several helpers alive at once fed alternately; library logger at DEBUG for every third helper. Part S: the real helper under the real selector transport and connection - frames of unknown type between known ones under five segmentations, and the client answering from inside the read loop with its write buffer at the transport's high-water mark. Also: the reply's send() failing (EPIPE / ECONNRESET) with frames still pending in the chunk. KeyboardInterrupt / SystemExit inside a callback with the loop resumed afterwards.",
            "runtime monitoring: recorded delivery trace vs independent reference decoder (offset oracle), exhaustive small segmentations",
            "DESIGN.md §4 C01"),
    "C02": ("W+S", "exploration",
            "Runtime monitor on transport.write: every write issued through the real helpers is decoded by an independent strict decoder "
            "(plaintext) or decrypted by an independent Noise responder whose receive nonce is a plain counter (so every successful decrypt "
            "is a nonce-continuity observation), and compared with the batch given; one write per batch. Every id in api.proto x boundary "
            "sizes, batches, sessions of thousands of consecutive writes. Held = held on these executions. Every other batch is written with the debug flag on; large and small frames of one type in one process in both orders; in-domain Noise packets after an unrepresentable one continue the nonce sequence; part S decodes every write of an API sweep at the independent device, for debug logging on/off x API password set/unset/long/empty. Plaintext and Noise helpers (and two Noise sessions) writing the same (type, length) pairs alternately; consecutive batches on one plaintext helper; the objects handed to transport.write() must keep their content after later writes (a transport under back-pressure still holds them). Part S back-pressure: the device stops reading with up to > 1 MiB queued, then reads at once or a few KiB per loop iteration while the application keeps sending; everything accepted decodes in order. A refusal (exception) of a batch the documented format can carry is a violation; Noise payloads up to the 65515-byte limit.",
            "runtime monitoring: wire monitor on transport.write vs independent codec / spec-derived Noise responder (nonce = counter)",
            "DESIGN.md §4 C02"),
    "C03": ("W+S", "exploration",
            "Real APINoiseFrameHelper run against an independent spec-derived NNpsk0 responder for ~16k (quick) fresh handshakes over name / "
            "expected-name variants, message sets and segmentations (every single cut, pairs, bytewise, random); the monitor records the "
            "data_received call in which readiness and each delivery happen and compares with byte-offset bookkeeping. Long sessions (thousands to 70k frames) under four chunk plans; part S runs connect() end to end with the device's first chunk cut at every offset, login batch decrypted at the device, name rule and send-before-ready. Server hellos with further NUL-terminated fields behind the name (current firmware), several Noise sessions fed alternately, logger at DEBUG with and without a name in the hello. The expected name in force when the hello is evaluated (constructor / setter before the connect / between its phases / during the resolve; set or cleared); reads of up to 256 KiB; part S reassembly scenarios of C01 on Noise sessions. Key texts spelled with white space that decode to the same 32 bytes; IPv6 sessions in rotation.",
            "runtime monitoring: readiness/delivery trace vs independent Noise responder + offset oracle over enumerated segmentations",
            "DESIGN.md §4 C03"),
    "C04": ("W+S", "fault_enumeration",
            "Enumerates one deviation per session - every byte position of every frame (bit flip, replacement), every truncation length, "
            "replay/swap/drop, every handshake-phase deviation, framing mismatches both ways, key strings of every decoded length - each in 4 "
            "chunk placements, and judges the recorded deliveries (byte-exact prefix, nothing at/after the deviation), close, error class and "
            "readiness outcome. Held = held on the enumerated faults. 'Nothing following the deviation is delivered' is judged for every deviation except a changed unauthenticated hello name; every bit of every header byte; non-ASCII key strings; part S repeats seven deviation kinds on live sessions at the APIClient boundary, the same malformed key configured repeatedly (two clients), and a device that has the key but another name (name in the ServerHello, with a MAC field behind it, or only in the API hello): BadNameAPIError, nothing written to it after the ServerHello, nothing of it delivered. A deviating answer and the 30 s handshake deadline in one loop iteration (exact tie / process stopped across it): the pending wait gets the specific error. Expected name a prefix of / extended by the announced one; log names with formatting-special characters.",
            "runtime monitoring with fault injection: enumerated single-frame corruptions judged by prefix/closed/error-class oracle",
            "DESIGN.md §4 C04"),
    "C05": ("S", "fault_enumeration",
            "Online transition monitor (descriptor on APIConnection.connection_state logs every write with its predecessor) over the real "
            "library on a stepped asyncio loop: every close cause x every injection point (loop iteration x ready-queue index / zero-delay timer / "
            "before-select network event / mid-wait instant) of 11 (quick) lifecycle baselines, closing bytes in the phase-completing chunk, "
            "sampled fault pairs, plus reuse probes and is_connected == (state is CONNECTED) at every iteration boundary. Further clauses: a disconnect()/force disconnect that returned leaves the object CLOSED for good, a failed or cancelled connect phase leaves its object CLOSED; extra sweeps: resolver/TCP/setsockopt/rejection worlds, same-turn pairs (both orders), stalled-connect and abandoned-disconnect histories, sessions opened from inside the previous session's stop callback; a fatal error reported to the connection has taken effect (state CLOSED) when the report returns. Close causes include ETIMEDOUT (builtin TimeoutError from recv). High-water sweep: the write that pushes the transport over its high-water mark is an awaited request / disconnect / ping / command. Answer-at-the-deadline sweep (tie, stopped process); keep-alive 0 / int / 1e6 with closing tails; TCP accept-then-reset. Hello-content sweep (no name / API minors / deep sleep x endings, incl. a device-info answer and a hang-up in one chunk).",
            "runtime monitoring: online state-transition checker on hooked slot writes under enumerated fault x loop-step injection",
            "DESIGN.md §4 C05"),
    "C07": ("S", "fault_enumeration",
            "Per-connection on_stop counter (wrapper installed at APIConnection construction) + graceful-initiation event log, judged by an "
            "exactly-once / right-argument oracle over the same fault x injection-point enumeration plus ordered pairs of close causes. 'Before the connection closed' is the CLOSED write; same-turn pairs in both orders, stalled-connect and abandoned-disconnect histories; a lost transport or a peer silent for more than 8 keep-alive periods on an established session must have fired the callback. The application's callback is a distinct object per session and is attributed to its session, incl. sessions opened on the same client from inside the previous stop callback; sockets answer shutdown() with ENOTCONN after a peer reset as the kernel does (calibrated). Also with the client object built outside the running loop, and with no reference to the client object kept after connecting (garbage collected). A socket-boundary oracle knows a device's DisconnectRequest from the bytes the client's socket handed out (not from the library's dispatch); last-words chunks [request, DisconnectRequest] on a socket that no longer takes data; high-water sweep. The stop callback's Python form rotates (coroutine function / bound method of a temporary / partial / callable object); answer-at-the-deadline and keep-alive-value sweeps. Hello-content sweep (a deep-sleeping device that is asked for its info and then falls silent; API < 1.3 devices saying goodbye).",
            "runtime monitoring: exactly-once counter + event-order oracle under enumerated single and paired close causes",
            "DESIGN.md §4 C07"),
    "C08": ("S", "fault_enumeration",
            "Resource auditor run at the first end-of-instant after every CLOSED write and at scenario end (live TimerHandles, pending tasks and "
            "calls, unclosed FakeSockets/transports, bytes accepted by the socket after close, subscriber invocations after close) over the "
            "fault x injection-point enumeration incl. steady-state baselines and 'closing frame + trailing frames in one chunk'. Also under the auditor: resolver/TCP/setsockopt/silent-peer failures before a transport exists, same-turn pairs, stalled-connect and abandoned-disconnect histories, an application stop callback that raises; a delivered connection_lost must leave the connection CLOSED in that instant; a force_disconnect() entered in any state (also while resolving / connecting) must have closed the connection by the end of the run; overlapping sessions of one client are audited with per-connection attribution; clients built outside the loop or left unreferenced after connecting. High-water sweep (awaited request / ping / command crossing the transport's high-water mark while the device does not read) and expected closes (force, peer DisconnectRequest, FIN) with unsent bytes still queued. A subscriber closing the connection (directly / through an eager task) with further frames in the chunk; TCP accept-then-reset (getpeername / shutdown answer ENOTCONN as calibrated).",
            "runtime monitoring: quiescent-point resource audit (timer heap, task set, sockets, post-close writes/deliveries) at injected crash points",
            "DESIGN.md §4 C08"),
    "C09": ("S", "fault_enumeration",
            "Call recorder in virtual time + fatal-cause recorder: every awaited call must return within its documented bound (none pending at the "
            "400 s horizon or when the world is idle forever), raise only APIConnectionError subclasses (CancelledError only when the harness "
            "cancelled that task), and carry the first fatal cause; faults incl. resolver/TCP errors and hangs, at every injection point, singly "
            "and in pairs. Also: duplicate answers / answer + closing event in one chunk, rejection worlds x user actions, rejection + hang-up in one chunk (first cause), every write to the recorded fatal cause (never overwritten), Bluetooth calls against a silent proxy end exactly at their bound, and a peripheral drop reported with any reason code ends them at once with a library error; a first cause recorded without a fatal report (disconnect() giving up on a stalled connect, incl. a stalled Noise handshake) is carried by the connect waiter the following close ends. High-water sweep; sessions reopened from inside the stop callback; a peer answering 1-3 bytes of a reject and hanging up. Answer-at-the-deadline sweep with a timer-fire log deciding ties (a same-instant timeout excuses a waiter only if a timer actually ran before the fatal report; a cause recorded earlier than the first report is the first cause); sockets that answer ENOTCONN after a reset. BLE status update in front of the answer; two rejections in order (hello, then login); hello-content sweep.",
            "runtime monitoring: virtual-time call recorder with bound table, error-class check, first-cause oracle and deadlock detector",
            "DESIGN.md §4 C09"),
    "C06": ("S", "exploration",
            "End-to-end APIClient.connect against the simulated device over the finite matrix of versions x names (API hello and Noise hello) x "
            "password verdicts x login x expected-name x framing x response packaging; outcome, error class (with received_name), final state and "
            "stop-callback count judged by a decision function written from the statement. The matrix is enumerated completely at thorough. Also: hang-up (DisconnectRequest / garbage) right behind the last answer in the same chunk, and the expected name configured through the setter before the attempt or between its two phases; expected names in mixed / upper case and non-ASCII spellings against devices answering the same, the case-folded and a prefix spelling. Rejections answered exactly at the phase deadline or with the process stopped across it; an RST right behind the last answer; IPv6 sessions in rotation. Announced names that extend the expected one (MAC-style / numeric suffix).",
            "runtime monitoring: outcome of real connect() per enumerated configuration row vs decision-function oracle",
            "DESIGN.md §4 C06"),
    "C10": ("S", "exploration",
            "Device-side virtual timestamps of every PingRequest and the time/cause of the close are compared (1 us) with an executable keepalive "
            "model written from the statement, over arrival bitmask schedules (seeded 24-slot; ALL 2^16 16-slot masks for two K at thorough), "
            "five keepalive values, both framings and structured patterns incl. the (5.5K, 6.5K] detection window. The client's own traffic and write back-pressure (pings observed at transport.write) are part of the workloads: only messages from the peer count as signs of life; a fragment of a frame followed by silence is bytes but no message. Keep-alive given as int / Fraction; the process stopped across one or more ticks (silent peer still declared dead by 4.5K after the first unanswered ping or at wake-up; live peer never); runs judged up to K/1000 before their end.",
            "runtime monitoring: timestamped wire trace vs executable reference model (keepalive), exhaustive small schedules",
            "DESIGN.md §4 C10"),
    "C11": ("S", "exploration",
            "Recorded histories (request entry, process_packet arrivals, predicate invocations, completions, cancels, closes) of 1-3 concurrent "
            "request-response calls are judged call by call against a sequential model; after every ending a leftover audit counts handle_timeout "
            "timers, response-handler registrations and waiters against the calls still pending. Arrivals and closing events can share one chunk, instant replies can be coalesced, the debug flag can be toggled while calls are outstanding, passive subscribers on a response type can be added and removed repeatedly; calls outstanding on a stalled connect (with disconnect() on top) must all end in the instant the link is lost. Zero and negative timeouts; a request whose own write fails (transport raises / socket refuses); ETIMEDOUT as close cause. Close causes ping-timeout and the application's own late-acknowledged disconnect(); calls started eagerly from inside a callback for a type they listen to (the message being dispatched is not theirs); the high-water sweep's crossing request must fail when the connection closes. Public wrappers over histories (unanswered then answered, cancelled sibling, slow answer on a live session, exact instants of 10 / 60 s timeouts at three clock offsets); identical concurrent requests with a request count at the device; None predicates; calls created and cancelled before they start.",
            "runtime monitoring: recorded call/arrival history vs per-call sequential model + leftover audit at quiescent points",
            "DESIGN.md §4 C11"),
    "C12": ("S", "exploration",
            "Every type id 0..300 and large ids x payload classes are sent to a live session that has a recording subscriber for every known "
            "type; effects (callbacks, client writes, state, fatal cause) are compared with expectations derived from the api.proto text and the "
            "protobuf runtime; re-entrant subscribe/unsubscribe histories are judged by a snapshot-semantics reference dispatcher. Also: peer requests while the session is being established and while the client's own disconnect() is pending; undefined-type frames between unanswered pings vs a silent control (keep-alive bookkeeping untouched); rejected payloads with and without a subscriber, debug on and off; histories where a type has exactly one subscriber; type numbers equal to a defined id modulo 2^8 ... 2^64; the connection closed from inside the delivery of a message with 1-40 subscribers on that type. A defined message and a PingRequest after every undefined-id probe; ping / time requests answered while the client's transport holds a backlog (device reading slowly), replies in request order behind it. Also with the protocol told to pause (queue past the high-water mark); the same subscriber registered twice; subscribers that take 0.25-3 s of loop time inside the callback.",
            "runtime monitoring: dispatch trace vs reference dispatcher; exhaustive id sweep with payload classes",
            "DESIGN.md §4 C12"),
    "C13": ("T+S", "exploration",
            "Structural invariant check of the live module tables and compiled descriptors against the api.proto TEXT (independent parser): every "
            "declared message x every obligation, enumerated completely; plus direction monitors on the wire (device-side decode) and on "
            "_add_message_callback during a sweep of every public APIClient method. The direction monitor also harvests the workloads of C12, C16, C17, C18, C19 and an API sweep against a device that never answers; a frame of every declared id is pushed through the receive path and must arrive as the class api.proto names, and frames with undeclared type numbers (incl. values equal to a declared id in their low byte / low 16 bits) select no class, are not answered and do not end the session, on both framings; effective packedness of every repeated field vs the [packed=...] option in the text. Public methods unknown to the recipe table are called with guessed arguments; every non-awaiting public method is also called with the device not reading and the (id, payload) sequence the slow device finally decodes is compared with a device that reads at once. Five public methods with arguments sized around 2^7 ... 2^21 serialized bytes (and the Noise limit): the device decodes the declared id and length; the structural walk runs first, so that a table lagging behind api.proto is reported rather than crashing the session workloads. All ids consecutively with one identical payload.",
            "runtime monitoring: invariant walk of live tables/descriptors vs independent .proto text parser + direction monitors during API sweep",
            "DESIGN.md §4 C13"),
    "C14": ("T+S", "exploration",
            "The real conversion code is run on descriptor-generated valid wire messages (each field at each boundary value, all declared and "
            "undeclared enum numbers, float32 specials + 200k/5M random bit patterns) and compared field by field with a descriptor-driven "
            "expected value; enum member tables (incl. aliases) are compared with the wire enums; to_dict/from_dict round trips. Odd shards instantiate the model base classes first (process history); aliasing probes modify every mutable container of a result in place and convert again. Part S: models as returned by the public API on real sessions - 2-4 sessions answering device_info in one loop iteration, 2-5 same-type answers in one segment, concurrent entity lists, a camera frame after an unexpected session loss - compared field by field with the message that session's device sent. Messages carrying unknown fields; dictionary forms read back through dict subclasses; nested models judged under converters unknown by name. Repeated scalar fields likewise (shared containers show in the aliasing probe).",
            "runtime monitoring: differential check of real conversions vs descriptor-derived reference over generated inputs",
            "DESIGN.md §4 C14"),
    "C15": ("S", "exploration",
            "Every command method x every subset of optional arguments x falsy/typical/extreme values x API versions around each threshold is "
            "called on a live simulated session; the request decoded independently at the device is compared with the request predicted by a "
            "declarative table written from api.proto (presence flags read from the .proto text) and the statement. One client over several sessions with different negotiated API versions (same service and entity keys) must encode per current session; two clients with different API versions alive at once; the same entity key called repeatedly with different argument subsets; arguments passed positionally in the published parameter order. All commands issued while the device is not reading and while the queue drains slowly (both framings) reach it as described, in call order. Identical commands repeated; every typical value in another legal Python form; sessions opened by connect() or start+finish, ended by disconnect() or by the device. Old API versions with the name left out of the hello.",
            "runtime monitoring: wire monitor (independent decode at the simulated device) vs table-driven expected request, exhaustive argument subsets",
            "DESIGN.md §4 C15"),
    "C16": ("S", "exploration",
            "1-4 concurrent Bluetooth operations on a live simulated session with scripted reply orders; recorded arrival/completion history is "
            "judged per operation by a matching model (address, handle, type), with exact completion and timeout instants, the DISCONNECT-before-"
            "timeout rule, and leftover probes (matching traffic after the end must reach no callback; handler table holds only documented survivors). Also: caller cancellation in the loop iteration in which the deciding answer arrives (ahead of it and behind it) and the documented clean-up (unsub + notify remove) executed from inside the connection-state callback; several replies in one chunk (answer followed by duplicate / GATT error / connection change); peripheral drops with every reason code; boundary addresses and handles; 24-150 operations outstanding at once. Operations started eagerly from inside the connection-state callback (same / other peripheral, reconnect after a drop) complete with their own answer only. Retry after an unanswered operation; every GATT error code of a list spanning the status byte, -1 and the int32 ends; replies seconds apart; replies from newer firmware (unknown fields). Cases with a connections-free subscription; firmware API 1.8 and older (rotation).",
            "runtime monitoring: recorded BLE operation history vs per-operation matching model + post-completion leftover probes",
            "DESIGN.md §4 C16"),
    "C17": ("S", "exploration",
            "User callbacks of every subscribe_* method are recorded on live simulated sessions and compared with a one-callback-per-message model "
            "(value = C14 descriptor-driven expected model), a per-key camera reassembly model over ALL order-preserving interleavings up to 9 "
            "chunks, and exact reply frames at the device for voice-assistant sequences; unsubscribe at every position of a stream. Also: optional handlers omitted, one-shot subscriptions unsubscribing inside their own callback, camera reassembly across sessions of one client and across two subscribers; advertisement names that are not valid UTF-8; client objects constructed outside the running loop (work parked on an idle loop is reported); overlapping voice-assistant starts; client requests while camera images are in flight; streams of 150-1200 state messages. Unsubscribe functions called while a graceful disconnect() is waiting for the device stop deliveries at once. Identical consecutive messages each produce their callback; camera chunks 0.4-400 s apart; state messages carrying unknown fields.",
            "runtime monitoring: callback trace vs one-callback-per-message / camera reassembly models, exhaustive small interleavings",
            "DESIGN.md §4 C17"),
    "C18": ("S", "exploration",
            "The real ReconnectLogic drives the real APIClient against the simulated device/network/mDNS over histories of start/stop/"
            "stop_callback, ten attempt outcomes (incl. auth/encryption-class errors and a synchronous connect failure), session endings "
            "(expected/unexpected, peer or user), matching / non-matching mDNS batches and waits (incl. exactly the armed retry timer -1 ms/+0/+1 ms): "
            "all histories up to 3/4 symbols of a 10-symbol alphabet, backoff ladders per failure kind, seeded random up to 25 steps, 12 client "
            "variants. An offline trace checker over the class-boundary log of every start_connection/finish_connection, the user callbacks, the "
            "harness calls, mDNS deliveries and fake-zeroconf listener/close logs judges: no overlapping attempts or connection objects, every "
            "attempt instant justified, exact due instant after each trigger (bounded progress in virtual time), callback alternation and counts, "
            "and silence / no listener / zeroconf closed after stop(). Includes outages of > 1200 consecutive failed attempts (73 000-80 000 s), the device name assigned after construction or changed after a first listening period, a raising on_connect hook, a stale retry timer firing during a slow on_connect_error hook. Name given as ''; a matching record broadcast while the manager waits to retry must find a listener registered (boundary oracle, independent of delivery); the fake zeroconf caches records and replays them to a listener registered with a question, as python-zeroconf does. Node names with an underscore; firmware API 1.12 / 1.2.",
            "runtime monitoring: offline trace checker (justified attempt instants, bounded progress, alternation, stop) over recorded manager histories",
            "DESIGN.md §4 C18"),
    "C19": ("S", "exploration",
            "Multi-session histories on one APIClient (all histories up to length 3/4 over a 12-symbol alphabet + seeded random up to 30 steps: "
            "start/finish/connect awaited or left pending against seven device/network behaviours, disconnect, force, cancel, device EOF/RST/"
            "DisconnectRequest/garbage, every public API method). A class-boundary log of every start_connection / finish_connection / disconnect "
            "invocation plus the connection stop-hook monitor is judged offline by a two-bit model (attempt in progress / session alive): refusal "
            "only if attempt or alive, mandatory refusal while alive or an un-closed attempt is pending, API calls while not alive raise "
            "APIConnectionError synchronously with zero send_messages calls and zero transport writes inside them. A login the device rejected never makes a session alive (clients with password set / none / empty / other); sockets answer shutdown() as the kernel does. Histories in which the device stops reading with 30 KiB-1.5 MiB queued before the session ends; a forced disconnect ends the session in the model whatever it raises. Worlds: goodbye in the chunk completing the connect phase (API calls in the same step as connect returns), accept-then-reset; two addresses as list / tuple; a finish that returns ok on an already closed connection starts no session.",
            "runtime monitoring: class-boundary call log + stop-hook monitor vs two-bit executable model, exhaustive short histories",
            "DESIGN.md §4 C19"),
    "C20": ("R", "exploration",
            "The real host_resolver / ZeroconfManager / APIClient.start_connection run on a simulated loop with logging doubles for mDNS and "
            "getaddrinfo; returned addresses (or the addresses handed to the connect step and the TCP attempts made), the exact lookup-call trace "
            "and the close count of every zeroconf instance (supplied vs library-created) are compared with a reference resolver written from the "
            "statement: complete for <= 2 hosts over 8 host forms x mDNS x OS outcomes x 5 provisions, sampled for 3, cancellation / resolve timeout "
            "mid-lookup, all ZeroconfManager operation sequences up to length 4 (quick) / 5 (thorough). Host forms include names below a sub-domain of .local and FQDNs containing .local.; OS answers include link-local addresses with a numeric scope and non-zero flowinfo; the same link-local text under two scopes (two literals / one mDNS answer). Scoped literals outside fe80::/10; a supplied zeroconf instance the application already shut down. Earlier resolutions of the same hosts through the same manager in another world (0-61 s before); mDNS answers as python-zeroconf's own address classes. Node names with an underscore (bare and .local).",
            "runtime monitoring: result + lookup-call trace + per-instance close counters vs reference resolver, exhaustive small matrix",
            "DESIGN.md §4 C20"),
}

NOT_YET = {
}


ROUND14 = {
    "C01": " Part S also: a subscriber that takes 0.5-30 ms of the process clock per state, 8 / 40 states in one chunk, device then staying / EOF / goodbye / reset - all handed over in the loop iteration that read the chunk.",
    "C05": " A second start_connection() / finish_connection() on the same object entered at every loop step while the first is still in flight (task and eager task): refused, first attempt undisturbed, one socket, monotone states. Traffic of the device's own crossing a local disconnect; client objects built inside an earlier, closed event loop.",
    "C07": " Requests and traffic of the device's own (ping, time request, states, log lines) crossing a local disconnect() before the answer / EOF / reset / deadline: still once, still True. Client objects built inside an earlier, closed event loop.",
    "C08": " A subscriber raising eight exception classes (incl. the library's own APIConnectionError family) mid-chunk: once the socket is gone the connection is CLOSED, stop hook run, no timer armed, outstanding request ended. Traffic crossing a local disconnect; clients built in an earlier, closed loop.",
    "C09": " connect / two-phase connect / device_info / disconnect awaited from inside an `except` body of five exception classes (sys.exc_info() non-empty in the await chain) against healthy, refusing and hanging-up devices. Traffic crossing a local disconnect; clients built in an earlier, closed loop.",
    "C11": " One script in four awaits a call from inside an exception handler (TimeoutError / CancelledError / KeyError / TimeoutAPIError being handled by the caller); leftover audit unchanged.",
    "C13": " Process-wide device-side monitor: every frame any simulated device decoded in the worker (both framings, many sessions) carried a declared type number.",
    "C16": " Unsolicited GATT notifications for the operation's own (or a neighbouring) address and handle ahead of and between the answers, in the exhaustive reply alphabet and the random replies.",
    "C18": " mDNS batches with other record types (SRV, TXT, AAAA, NSEC) around the matching record; a back-off instant justifies an attempt only until a newer failure has been reported (stale retry timer firing while a slow error hook runs: window reached 66x in the quick tier).",
    "C19": " Client objects built in synchronous set-up code or inside an earlier asyncio.run() whose loop is closed, in random and dedicated histories.",
}


def main() -> None:
    props = [json.loads(l)["id"] for l in (ROOT / "properties.jsonl").read_text().splitlines() if l.strip()]
    checks = []
    for pid in props:
        if pid not in CHECKS:
            continue
        engine, cat, text, tech, ref = CHECKS[pid]
        text = text + ROUND14.get(pid, "")
        checks.append({
            "property_id": pid,
            "quick_cmd": f"./check {pid} --tier quick",
            "thorough_cmd": f"./check {pid} --tier thorough",
            "evidence_file": f"/verif/evidence/{pid}.json",
            "replay_cmd_template": f"./check {pid} --replay {{path}}",
            "engine": engine,
            "level_claimed": {"category": cat, "text": text, "design_ref": ref},
            "level_note": TRUST,
            "technique": tech,
        })
    na = [{"property_id": pid, "reason": NOT_YET.get(pid, "check not built yet (work in progress; see DESIGN.md §7 build order)")}
          for pid in props if pid not in CHECKS]
    man = {
        "version": 1,
        "setup_cmd": "./setup.sh",
        "hooks": {
            "guard": "AIOESPHOMEAPI_VERIF",
            "enable": "no source hooks are needed: monitors are attached from the harness (descriptor replacement on APIConnection slots, "
                      "class-level wrappers, owning the event loop / sockets / peer); checks import /repo live",
            "baseline_off_cmd": "cd /repo && /venv/bin/python -m pytest -q -p no:cacheprovider --timeout=900 tests",
            "source_commits": [],
            "add_only": True,
        },
        "engines": [
            {"name": "W", "path": "vf/wire.py", "serves_properties": ["C01", "C02", "C03", "C04"],
             "kind_free_text": "real frame helpers driven directly against recording connection/transport doubles"},
            {"name": "S", "path": "vf/sim/", "serves_properties": ["C01", "C02", "C03", "C04", "C05", "C06", "C07", "C08", "C09", "C10", "C11", "C12", "C13", "C14", "C15", "C16", "C17", "C18", "C19"],
             "kind_free_text": "real APIClient/APIConnection/ReconnectLogic on a real asyncio selector loop with fake selector, sockets, clock and an independent simulated device"},
            {"name": "T", "path": "vf/props/c13.py", "serves_properties": ["C13", "C14"],
             "kind_free_text": "live tables and descriptors vs own api.proto text parser"},
            {"name": "R", "path": "vf/props/c20.py", "serves_properties": ["C20"],
             "kind_free_text": "real host_resolver / ZeroconfManager with fake mDNS and getaddrinfo"},
        ],
        "checks": checks,
        "not_applicable": na,
        "notes": "Technique family: runtime monitoring. Exit 0 held / 1 VIOLATION / 2 INCONCLUSIVE. known_findings.json lists recorded findings.",
    }
    (ROOT / "MANIFEST.json").write_text(json.dumps(man, indent=1) + "\n")
    print(f"MANIFEST.json: {len(checks)} checks, {len(na)} not_applicable")


if __name__ == "__main__":
    main()

"""API-surface sweep: every public APIClient method, found by introspection, called once (or a few times)
on a live simulated session against a reactive full-featured device.  Feeds C02 (wire conformance of
send_messages), C13 (direction of sent / subscribed types) and C14 (wire->model pairs observed at run time).
"""

from __future__ import annotations

import base64
import inspect
from typing import Any, Callable

from vf.sim.device import DeviceConfig, DeviceConn
from vf.sim.scenario import Sim

PSK = bytes(range(5, 37))
ADDR = 0xAABBCCDDEEFF


def full_device_config(noise: bool, api: tuple[int, int] = (1, 10)) -> DeviceConfig:
    from aioesphomeapi import api_pb2 as pb

    cfg = DeviceConfig(api_major=api[0], api_minor=api[1])
    if noise:
        cfg.noise_psk = PSK
    cfg.entities = [
        pb.ListEntitiesSensorResponse(key=1, object_id="s", name="S"),
        pb.ListEntitiesLightResponse(key=2, object_id="l", name="L"),
        pb.ListEntitiesServicesResponse(key=3, name="svc", args=[pb.ListEntitiesServicesArgument(name="a", type=1)]),
    ]
    h = cfg.handlers

    def ble_device(c: DeviceConn, m: Any) -> None:
        rt = m.request_type
        if rt in (0, 4, 5):
            c.send("BluetoothDeviceConnectionResponse", address=m.address, connected=True, mtu=23)
        elif rt == 1:
            c.send("BluetoothDeviceConnectionResponse", address=m.address, connected=False)
        elif rt == 2:
            c.send("BluetoothDevicePairingResponse", address=m.address, paired=True)
        elif rt == 3:
            c.send("BluetoothDeviceUnpairingResponse", address=m.address, success=True)
        elif rt == 6:
            c.send("BluetoothDeviceClearCacheResponse", address=m.address, success=True)

    h["BluetoothDeviceRequest"] = ble_device

    def services(c: DeviceConn, m: Any) -> None:
        svc = pb.BluetoothGATTService(uuid=[1, 2], handle=1, characteristics=[
            pb.BluetoothGATTCharacteristic(uuid=[3, 4], handle=2, properties=2, descriptors=[pb.BluetoothGATTDescriptor(uuid=[5, 6], handle=3)])])
        c.send_msg(pb.BluetoothGATTGetServicesResponse(address=m.address, services=[svc]))
        c.send("BluetoothGATTGetServicesDoneResponse", address=m.address)

    h["BluetoothGATTGetServicesRequest"] = services
    h["BluetoothGATTReadRequest"] = lambda c, m: c.send("BluetoothGATTReadResponse", address=m.address, handle=m.handle, data=b"\x01\x02")
    h["BluetoothGATTReadDescriptorRequest"] = lambda c, m: c.send("BluetoothGATTReadResponse", address=m.address, handle=m.handle, data=b"\x03")
    h["BluetoothGATTWriteRequest"] = lambda c, m: m.response and c.send("BluetoothGATTWriteResponse", address=m.address, handle=m.handle)
    h["BluetoothGATTWriteDescriptorRequest"] = lambda c, m: c.send("BluetoothGATTWriteResponse", address=m.address, handle=m.handle)
    h["BluetoothGATTNotifyRequest"] = lambda c, m: m.enable and c.send("BluetoothGATTNotifyResponse", address=m.address, handle=m.handle)
    h["VoiceAssistantAnnounceRequest"] = lambda c, m: c.send("VoiceAssistantAnnounceFinished", success=True)
    h["VoiceAssistantConfigurationRequest"] = lambda c, m: c.send_msg(pb.VoiceAssistantConfigurationResponse(
        available_wake_words=[pb.VoiceAssistantWakeWord(id="w", wake_word="ok", trained_languages=["en"])], active_wake_words=["w"], max_active_wake_words=1))
    h["CameraImageRequest"] = lambda c, m: c.send("CameraImageResponse", key=9, data=b"img", done=True)
    h["SubscribeStatesRequest"] = lambda c, m: (c.send("SensorStateResponse", key=1, state=1.25), c.send("LightStateResponse", key=2, state=True, brightness=0.5))
    h["SubscribeLogsRequest"] = lambda c, m: c.send("SubscribeLogsResponse", level=3, message=b"hello")
    h["SubscribeHomeassistantServicesRequest"] = lambda c, m: c.send_msg(pb.HomeassistantServiceResponse(
        service="light.turn_on", data=[pb.HomeassistantServiceMap(key="k", value="v")]))
    h["SubscribeHomeAssistantStatesRequest"] = lambda c, m: (c.send("SubscribeHomeAssistantStateResponse", entity_id="sensor.x", attribute="a"),
                                                              c.send("SubscribeHomeAssistantStateResponse", entity_id="sensor.y", once=True))

    def ble_sub(c: DeviceConn, m: Any) -> None:
        if m.flags & 1:
            c.send_msg(pb.BluetoothLERawAdvertisementsResponse(advertisements=[pb.BluetoothLERawAdvertisement(address=1, rssi=-50, address_type=1, data=b"\x02\x01\x06")]))
        else:
            c.send_msg(pb.BluetoothLEAdvertisementResponse(address=1, name=b"n", rssi=-40, service_uuids=["0x180F"]))

    h["SubscribeBluetoothLEAdvertisementsRequest"] = ble_sub
    h["SubscribeBluetoothConnectionsFreeRequest"] = lambda c, m: c.send("BluetoothConnectionsFreeResponse", free=2, limit=3)
    h["SubscribeVoiceAssistantRequest"] = lambda c, m: m.subscribe and (c.send("VoiceAssistantRequest", start=True, conversation_id="c1"),
                                                                          c.send("VoiceAssistantAudio", data=b"\x00\x01"),
                                                                          c.send("VoiceAssistantAudio", end=True),
                                                                          c.send("VoiceAssistantAnnounceFinished", success=True),
                                                                          c.send("VoiceAssistantRequest", start=False))
    return cfg


def recipes() -> dict[str, Callable[[Any, Sim, Any], Any]]:
    """method name -> recipe(cli, sim, rec) returning None (sync) or a coroutine to await."""
    from aioesphomeapi import model as M

    svc = M.UserService(name="svc", key=3, args=[M.UserServiceArg(name="i", type=M.UserServiceArgType.INT),
                                                 M.UserServiceArg(name="s", type=M.UserServiceArgType.STRING),
                                                 M.UserServiceArg(name="fa", type=M.UserServiceArgType.FLOAT_ARRAY)])

    async def va_start(conv: str, flags: int, settings: Any, wake: Any) -> int:
        return 1234

    async def va_stop(abort: bool) -> None:
        return None

    async def va_audio(data: bytes) -> None:
        return None

    async def va_ann(fin: Any) -> None:
        return None

    async def notify(cli: Any, sim: Sim, rec: Any) -> None:
        stop, remove = await cli.bluetooth_gatt_start_notify(ADDR, 7, lambda h, d: rec("notify", h, d))
        await stop()

    async def ble_connect(cli: Any, sim: Sim, rec: Any) -> None:
        unsub = await cli.bluetooth_device_connect(ADDR, lambda *a: rec("ble_state", *a), timeout=5, feature_flags=4, address_type=1)
        unsub()

    R: dict[str, Callable[[Any, Sim, Any], Any]] = {
        "device_info": lambda c, s, r: c.device_info(),
        "list_entities_services": lambda c, s, r: c.list_entities_services(),
        "subscribe_states": lambda c, s, r: c.subscribe_states(lambda st: r("state", st)),
        "subscribe_logs": lambda c, s, r: c.subscribe_logs(lambda m: r("log", m), log_level=M.LogLevel.LOG_LEVEL_DEBUG, dump_config=True),
        "subscribe_service_calls": lambda c, s, r: c.subscribe_service_calls(lambda m: r("svc", m)),
        "subscribe_home_assistant_states": lambda c, s, r: c.subscribe_home_assistant_states(lambda *a: r("ha", *a), lambda *a: r("ha_once", *a)),
        "send_home_assistant_state": lambda c, s, r: c.send_home_assistant_state("sensor.x", "attr", "on"),
        "subscribe_bluetooth_le_advertisements": lambda c, s, r: c.subscribe_bluetooth_le_advertisements(lambda a: r("adv", a))(),
        "subscribe_bluetooth_le_raw_advertisements": lambda c, s, r: c.subscribe_bluetooth_le_raw_advertisements(lambda a: r("raw", a))(),
        "subscribe_bluetooth_connections_free": lambda c, s, r: c.subscribe_bluetooth_connections_free(lambda *a: r("free", *a))(),
        "bluetooth_device_connect": ble_connect,
        "bluetooth_device_disconnect": lambda c, s, r: c.bluetooth_device_disconnect(ADDR, timeout=5),
        "bluetooth_device_pair": lambda c, s, r: c.bluetooth_device_pair(ADDR, timeout=5),
        "bluetooth_device_unpair": lambda c, s, r: c.bluetooth_device_unpair(ADDR, timeout=5),
        "bluetooth_device_clear_cache": lambda c, s, r: c.bluetooth_device_clear_cache(ADDR, timeout=5),
        "bluetooth_gatt_get_services": lambda c, s, r: c.bluetooth_gatt_get_services(ADDR),
        "bluetooth_gatt_read": lambda c, s, r: c.bluetooth_gatt_read(ADDR, 5, timeout=5),
        "bluetooth_gatt_read_descriptor": lambda c, s, r: c.bluetooth_gatt_read_descriptor(ADDR, 6, timeout=5),
        "bluetooth_gatt_write": lambda c, s, r: c.bluetooth_gatt_write(ADDR, 5, b"\x01", True, timeout=5),
        "bluetooth_gatt_write_descriptor": lambda c, s, r: c.bluetooth_gatt_write_descriptor(ADDR, 6, b"\x02", timeout=5),
        "bluetooth_gatt_start_notify": notify,
        "cover_command": lambda c, s, r: c.cover_command(1, position=0.5, tilt=0.25),
        "fan_command": lambda c, s, r: c.fan_command(1, state=True, speed_level=3, oscillating=False, direction=M.FanDirection.REVERSE, preset_mode="p"),
        "light_command": lambda c, s, r: c.light_command(2, state=True, brightness=0.5, rgb=(1.0, 0.5, 0.0), transition_length=1.5, effect="e"),
        "switch_command": lambda c, s, r: c.switch_command(1, True),
        "climate_command": lambda c, s, r: c.climate_command(1, mode=M.ClimateMode.HEAT, target_temperature=21.5, preset=M.ClimatePreset.AWAY),
        "number_command": lambda c, s, r: c.number_command(1, 4.5),
        "date_command": lambda c, s, r: c.date_command(1, 2024, 2, 29),
        "time_command": lambda c, s, r: c.time_command(1, 23, 59, 58),
        "datetime_command": lambda c, s, r: c.datetime_command(1, 1700000000),
        "select_command": lambda c, s, r: c.select_command(1, "opt"),
        "siren_command": lambda c, s, r: c.siren_command(1, state=True, tone="t", volume=0.5, duration=3),
        "button_command": lambda c, s, r: c.button_command(1),
        "lock_command": lambda c, s, r: c.lock_command(1, M.LockCommand.LOCK, code="1234"),
        "valve_command": lambda c, s, r: c.valve_command(1, position=0.5),
        "media_player_command": lambda c, s, r: c.media_player_command(1, command=M.MediaPlayerCommand.PLAY, volume=0.5, media_url="u", announcement=True),
        "text_command": lambda c, s, r: c.text_command(1, "txt"),
        "update_command": lambda c, s, r: c.update_command(1, M.UpdateCommand.INSTALL),
        "alarm_control_panel_command": lambda c, s, r: c.alarm_control_panel_command(1, M.AlarmControlPanelCommand.ARM_AWAY, code="1"),
        "execute_service": lambda c, s, r: c.execute_service(svc, {"i": 5, "s": "x", "fa": [1.0, 2.5]}),
        "request_single_image": lambda c, s, r: c.request_single_image(),
        "request_image_stream": lambda c, s, r: c.request_image_stream(),
        "subscribe_voice_assistant": lambda c, s, r: c.subscribe_voice_assistant(handle_start=va_start, handle_stop=va_stop, handle_audio=va_audio,
                                                                                   handle_announcement_finished=va_ann),
        "send_voice_assistant_event": lambda c, s, r: c.send_voice_assistant_event(M.VoiceAssistantEventType.VOICE_ASSISTANT_RUN_START, {"k": "v"}),
        "send_voice_assistant_audio": lambda c, s, r: c.send_voice_assistant_audio(b"\x00\x01\x02"),
        "send_voice_assistant_timer_event": lambda c, s, r: c.send_voice_assistant_timer_event(
            M.VoiceAssistantTimerEventType.VOICE_ASSISTANT_TIMER_STARTED, "t1", "timer", 60, 30, True),
        "send_voice_assistant_announcement_await_response": lambda c, s, r: c.send_voice_assistant_announcement_await_response("m", 5.0, "text"),
        "get_voice_assistant_configuration": lambda c, s, r: c.get_voice_assistant_configuration(5.0),
        "set_voice_assistant_configuration": lambda c, s, r: c.set_voice_assistant_configuration(["w"]),
    }
    return R


NOT_SENDING = {"address", "api_version", "cached_name", "expected_name", "log_name", "zeroconf_manager", "set_debug", "set_cached_name_if_unset",
               "connect", "start_connection", "finish_connection", "disconnect"}


def auto_recipe(name: str) -> Callable[[Any, Any, Any], Any] | None:
    """A public method the recipe table does not know (added after the table was written): called with arguments guessed from its signature -
    a recording callable for every callback-like parameter, neutral values otherwise - so that what it writes and subscribes to is still seen."""
    from aioesphomeapi import APIClient

    fn = getattr(APIClient, name, None)
    if fn is None or not callable(fn) or isinstance(inspect.getattr_static(APIClient, name), property):
        return None
    try:
        sig = inspect.signature(fn)
    except (TypeError, ValueError):
        return None

    def recipe(cli: Any, sim: Any, rec: Any) -> Any:
        args: list[Any] = []
        kwargs: dict[str, Any] = {}
        for pname, prm in list(sig.parameters.items())[1:]:
            if prm.kind in (prm.VAR_POSITIONAL, prm.VAR_KEYWORD) or prm.default is not prm.empty:
                continue
            ann = str(prm.annotation)
            if pname.startswith(("on_", "handle", "callback")) or "Callable" in ann:
                if "Coroutine" in ann or "Awaitable" in ann:
                    async def acb(*a: Any, **k: Any) -> Any:
                        rec(name, *a)
                        return None
                    val: Any = acb
                else:
                    val = lambda *a, **k: rec(name, *a)  # noqa: E731
            elif "int" in ann:
                val = 1
            elif "float" in ann:
                val = 1.0
            elif "bool" in ann:
                val = True
            elif "bytes" in ann:
                val = b"x"
            elif "str" in ann:
                val = "x"
            elif "list" in ann or "Iterable" in ann:
                val = []
            elif "dict" in ann:
                val = {}
            else:
                val = None
            if prm.kind is prm.KEYWORD_ONLY:
                kwargs[pname] = val
            else:
                args.append(val)
        return getattr(cli, name)(*args, **kwargs)

    return recipe


def run_backlog(framing: str, blocked: bool, first: Any = ("partial", 1000), drain: Any = ("rate", 7)) -> dict[str, Any]:
    """Every public method that writes without awaiting anything, called one after the other on one live session.  blocked=False: the device reads
    normally and what it received is attributed per method (the reference).  blocked=True: the device's window is closed for all the calls (the first
    write of the stall is taken partially or not at all, per `first`), then it reads again slowly (`drain`); returns the whole received sequence."""
    from aioesphomeapi import APIClient

    noise = framing == "noise"
    out: dict[str, Any] = {"framing": framing, "blocked": blocked, "calls": [], "received": [], "raised": []}
    R = recipes()
    R["subscribe_logs/defaults"] = lambda c, s, r: c.subscribe_logs(lambda m: r("log", m))
    names = [n for n in sorted(R) if not inspect.iscoroutinefunction(R[n]) and not inspect.iscoroutinefunction(getattr(APIClient, n.split("/")[0], None))
             and n.split("/")[0] not in NOT_SENDING]
    with Sim() as sim:
        # (a passive device: it answers nothing but the session set-up, so what the client sends does not depend on when the device got to read)
        dev = sim.device(DeviceConfig(noise_psk=PSK if noise else None))
        kw = {"noise_psk": base64.b64encode(PSK).decode()} if noise else {}
        cli = sim.client(password=None, keepalive=1e5, **kw)
        c0 = sim.call("connect", lambda: cli.connect(on_stop=sim.on_stop_cb(), login=False))
        sim.run(until=lambda: c0.done, max_time=sim.clock + 50)
        if c0.outcome != "ok":
            out["error"] = f"connect failed: {c0.exc!r}"
            return out
        dconn = dev.conn
        events: list[Any] = []
        n0 = len(dconn.received)
        if blocked:
            dconn.sock.send_fault = first
            cli.send_voice_assistant_audio(b"\x05" * 3000)
            dconn.sock.send_fault = "block"
            n0 += 1        # (the filler is not part of the comparison)
        for rnd in range(2):
            for name in (names if rnd == 0 else names[::-1]):
                n_rx = len(dconn.received)
                try:
                    r = R[name](cli, sim, lambda *a: events.append(a))
                    if inspect.iscoroutine(r):
                        r.close()
                        continue
                except Exception as e:  # noqa: BLE001
                    out["raised"].append((name, repr(e)))
                    continue
                if not blocked:
                    sim.run_for(0.01)
                    out["calls"].append((name, [(x["name"], x["id"], x["payload"]) for x in dconn.received[n_rx:]]))
                else:
                    out["calls"].append((name, None))
        if blocked:
            out["queued_bytes"] = sim.transports[-1].get_write_buffer_size()
            dconn.sock.send_fault = drain
            for _ in range(3000):
                sim.small_step()
                if sim.transports[-1].get_write_buffer_size() == 0:
                    break
            dconn.sock.send_fault = None
        sim.run_for(0.5)
        out["received"] = [(x["name"], x["id"], x["payload"]) for x in dconn.received[n0:]]
        out["decode_errors"] = list(dconn.decode_errors)
        out["stopped"] = list(sim.on_stop_calls) if hasattr(sim, "on_stop_calls") else []
        out["connected"] = bool(cli._connection is not None and cli._connection.is_connected)  # noqa: SLF001
        out["harness_errors"] = list(sim.harness_errors)
    return out


def public_methods() -> list[str]:
    from aioesphomeapi import APIClient

    return sorted(n for n, _ in inspect.getmembers(APIClient) if not n.startswith("_"))


def run(framing: str, api: tuple[int, int] = (1, 10), on_from_pb: Callable[[Any, Any, Any], None] | None = None, silent: bool = False,
        debug: bool | None = None, password: str | None = "pw") -> dict[str, Any]:
    """Run the sweep. Returns per-method outcomes, device-side received names per method, monitor data."""
    from aioesphomeapi import model as M

    noise = framing == "noise"
    out: dict[str, Any] = {"methods": {}, "unswept": [], "framing": framing, "api": api}
    R = recipes()
    orig_from_pb = None
    if on_from_pb is not None:
        orig_from_pb = M.APIModelBase.__dict__["from_pb"]

        def spy(cls: Any, data: Any) -> Any:
            r = orig_from_pb.__func__(cls, data)
            on_from_pb(cls, data, r)
            return r

        M.APIModelBase.from_pb = classmethod(spy)  # type: ignore[method-assign]
    try:
        with Sim() as sim:
            dcfg = full_device_config(noise, api)
            if silent:
                # the device completes the session set-up and keeps the link alive but never answers a request: every awaiting method runs
                # into its timeout path
                dcfg.handlers = {n: (lambda c, m: None) for n in list(dcfg.handlers) + ["DeviceInfoRequest", "ListEntitiesRequest"]}
            dev = sim.device(dcfg)
            kw = {"noise_psk": base64.b64encode(PSK).decode()} if noise else {}
            cli = sim.client(password=password, keepalive=1e5, debug=debug, **kw)
            c0 = sim.call("connect", lambda: cli.connect(on_stop=sim.on_stop_cb(), login=True))
            sim.run(until=lambda: c0.done, max_time=sim.clock + 50)
            if c0.outcome != "ok":
                out["error"] = f"connect failed: {c0.exc!r}"
                return out
            dconn = dev.conn
            events: list[tuple[Any, ...]] = []

            def rec(*a: Any) -> None:
                events.append(a)

            for name in public_methods():
                if name in NOT_SENDING:
                    continue
                if name not in R:
                    auto = auto_recipe(name)
                    if auto is None:
                        out["unswept"].append(name)
                        continue
                    out.setdefault("auto_swept", []).append(name)
                    R[name] = auto
                n_rx = len(dconn.received)
                n_batches = len(sim.send_batches)
                n_sub = len(sim.conns[0].subscribed)
                try:
                    r = R[name](cli, sim, rec)
                    if inspect.iscoroutine(r):
                        call = sim.call(name, lambda r=r: r)
                        sim.run(until=lambda: call.done, max_time=sim.clock + 150)
                        outcome = call.outcome if call.outcome != "raised" else f"raised {call.exc!r}"
                    else:
                        outcome = "ok"
                    sim.run_for(0.01)
                except Exception as e:  # noqa: BLE001
                    outcome = f"raised {e!r}"
                out["methods"][name] = {
                    "outcome": outcome,
                    "device_received": [(r_["name"], r_["id"]) for r_ in dconn.received[n_rx:]],
                    "batches": sim.send_batches[n_batches:],
                    "subscribed": [t for _, ts in sim.conns[0].subscribed[n_sub:] for t in ts],
                }
            out["decode_errors"] = list(dconn.decode_errors)
            out["harness_errors"] = list(sim.harness_errors)
            out["events"] = len(events)
            out["all_subscribed"] = sorted({t for _, ts in sim.conns[0].subscribed for t in ts})
            out["all_sent"] = sorted({r_["name"] or f"#{r_['id']}" for r_ in dconn.received})
            out["raw_writes"] = list(dconn.raw_writes)
            out["received"] = list(dconn.received)
            out["send_batches"] = list(sim.send_batches)
            out["loop_exceptions"] = list(sim.loop_exceptions)
            d = sim.call("bye", lambda: cli.disconnect())
            sim.run(until=lambda: d.done, max_time=sim.clock + 20)
    finally:
        if orig_from_pb is not None:
            M.APIModelBase.from_pb = orig_from_pb  # type: ignore[method-assign]
    return out

"""Simulated ESPHome device for engine S.

Speaks plaintext or Noise using vf.refcodec / vf.refnoise and message ids parsed
from the api.proto text (vf.protoparse) - never the tables of the library.
Decodes every byte the client writes with the independent decoder and keeps a
timestamped log: that log is the "wire" the oracles read.
"""

from __future__ import annotations

from dataclasses import dataclass, field
from typing import Any, Callable

from vf import protoparse, refcodec, refnoise
from vf.sim import rotation

_pb: Any = None


def pb() -> Any:
    global _pb
    if _pb is None:
        from aioesphomeapi import api_pb2

        _pb = api_pb2
    return _pb


@dataclass
class DeviceConfig:
    name: str = "dev"
    api_major: int = 1
    api_minor: int = 10
    server_info: str = "simdevice"
    hello_name: str | None = None          # name in the API HelloResponse (default: name)
    noise_psk: bytes | None = None         # None = plaintext device
    noise_name: bytes | None | str = "default"  # name in the noise hello (default: name; None = absent)
    noise_hello_mac: bool | None = None     # further NUL-terminated field (MAC) behind the name, as current firmware sends; None = rotate
    invalid_password: bool = False
    noise_silent: bool = False              # never answer the noise handshake
    reply_delay: float = 0.0
    answer_ping: bool = True
    answer_hello: bool = True
    answer_connect: bool = True
    answer_disconnect: bool = True
    eof_after_disconnect_response: bool = True
    coalesce_cuts: list[int] | None = None  # with coalesce_replies: split the coalesced chunk at these offsets
    coalesce_replies: bool = False          # all replies produced while handling one client write go into one chunk
    handlers: dict[str, Callable[["DeviceConn", Any], None]] = field(default_factory=dict)
    on_message: Callable[["DeviceConn", str, Any], None] | None = None
    device_info: dict[str, Any] = field(default_factory=dict)
    entities: list[Any] = field(default_factory=list)
    hello_extra: Callable[["DeviceConn"], None] | None = None  # hook run right after sending HelloResponse
    chunk_policy: str | None = None         # None | "coalesce" (= coalesce_replies) | "split" (every delivered buffer is cut into 1..8-byte pieces)


class DeviceConn:
    """One accepted TCP connection on the device side."""

    def __init__(self, dev: "SimDevice", sock: Any) -> None:
        self.dev = dev
        self.sim = dev.sim
        self.cfg = dev.cfg
        self.sock = sock
        self.proto = dev.proto
        self.noise = dev.cfg.noise_psk is not None
        self.rx_plain = refcodec.PlainDecoder()
        self.rx_noise = refcodec.NoiseOuterDecoder()
        self.resp: refnoise.Responder | None = None
        self.noise_state = "hello" if self.noise else "n/a"
        self.received: list[dict[str, Any]] = []       # decoded client messages
        self.raw_writes: list[tuple[int, float, bytes]] = []
        self.decode_errors: list[str] = []
        self.client_closed_at: float | None = None
        self.outbox: list[tuple[Any, ...]] | None = None
        self.sent: list[dict[str, Any]] = []
        self.tx_offset = 0                                   # bytes of the device->client stream put on the wire so far
        self.disc_req_ends: list[tuple[int, int]] = []       # (stream offset just behind a well-formed DisconnectRequest frame, seq)
        self.taints: list[int] = []                          # seqs at which the device emitted something that is not a well-formed message
        self.first_byte_seq: int | None = None
        self.handshake_on_wire_at: float | None = None
        self.immediate = False   # True: bypass the event queue (bytes are in the socket buffer at once)
        dev.conns.append(self)

    # ------------------------------------------------------------ receive
    def on_bytes(self, data: bytes) -> None:
        seq = self.sim.next_seq()
        if self.first_byte_seq is None:
            self.first_byte_seq = seq
        self.raw_writes.append((seq, self.sim.clock, data))
        coalesce = self.cfg.coalesce_replies or self.cfg.chunk_policy == "coalesce"
        if coalesce:
            self.outbox = []
        try:
            if self.noise:
                self._on_noise(data)
            else:
                try:
                    frames = self.rx_plain.feed(data)
                except refcodec.DecodeError as e:
                    for ty, payload in getattr(e, "frames", ()):
                        self._on_frame(ty, payload)
                    self.decode_errors.append(f"plaintext: {e}")
                    self.sim.log("dev_decode_error", str(e))
                    return
                for ty, payload in frames:
                    self._on_frame(ty, payload)
        finally:
            if coalesce:
                out, self.outbox = self.outbox, None
                if out:
                    self.deliver_items(out, self.cfg.reply_delay, self.cfg.coalesce_cuts)

    def _on_noise(self, data: bytes) -> None:
        try:
            bodies = self.rx_noise.feed(data)
        except refcodec.DecodeError as e:
            self.decode_errors.append(f"noise outer: {e}")
            return
        for body in bodies:
            if self.noise_state == "hello":
                if body != b"":
                    self.decode_errors.append(f"noise client hello body {body.hex()}")
                self.noise_state = "handshake"
            elif self.noise_state == "handshake":
                assert self.cfg.noise_psk is not None
                if self.cfg.noise_silent:
                    continue
                self.resp = refnoise.Responder(self.cfg.noise_psk)
                name = self.cfg.noise_name
                if name == "default":
                    name = self.cfg.name.encode()
                hello = b"\x01" + (b"" if name is None else (name if isinstance(name, bytes) else name.encode()) + b"\x00")
                mac = self.cfg.noise_hello_mac
                if name is not None and (rotation.decide("noise_hello_mac_field", (False, True)) if mac is None else mac):
                    hello += b"aabbccddeeff\x00"    # current firmware announces further NUL-terminated fields behind the name (MAC address)
                try:
                    if body[:1] != b"\x00":
                        raise refnoise.NoiseError(f"indicator {body[:1].hex()}")
                    self.resp.read_message1(body[1:])
                except refnoise.NoiseError as e:
                    self.sim.log("dev_noise_reject", str(e))
                    self.send_raw(refcodec.enc_noise_outer(hello) + refcodec.enc_noise_outer(b"\x01Handshake MAC failure"))
                    self.noise_state = "failed"
                    continue
                self.send_raw(refcodec.enc_noise_outer(hello) + refcodec.enc_noise_outer(b"\x00" + self.resp.write_message2(b"")))
                self.noise_state = "ready"
                self.handshake_on_wire_at = self.sim.clock + (0.0 if self.immediate else self.cfg.reply_delay)
            elif self.noise_state == "ready":
                assert self.resp is not None
                try:
                    ty, payload = refcodec.dec_noise_inner(self.resp.decrypt(body))
                except (refnoise.NoiseError, refcodec.DecodeError) as e:
                    self.decode_errors.append(f"noise frame (rx counter {self.resp.rx.n if self.resp.rx else '?'}): {e}")
                    self.sim.log("dev_decode_error", str(e))
                    self.noise_state = "failed"
                    continue
                self._on_frame(ty, payload)

    def _on_frame(self, ty: int, payload: bytes) -> None:
        m = self.proto.by_id.get(ty)
        rec: dict[str, Any] = {"seq": self.sim.next_seq(), "t": self.sim.clock, "id": ty, "payload": payload,
                               "name": m.name if m else None, "msg": None}
        if m is None:
            self.decode_errors.append(f"client sent undefined type id {ty}")
            UNDECLARED_IDS_RECEIVED.append({"id": ty, "framing": "noise" if self.noise else "plain", "payload_bytes": len(payload), "t": self.sim.clock})
        else:
            msg = getattr(pb(), m.name)()
            try:
                msg.ParseFromString(payload)
                rec["msg"] = msg
            except Exception as e:  # noqa: BLE001
                self.decode_errors.append(f"client payload of {m.name} does not parse: {e}")
        self.received.append(rec)
        self.sim.log("dev_rx", rec["name"] or ty)
        if rec["msg"] is None:
            return
        if self.cfg.on_message is not None:
            self.cfg.on_message(self, m.name, rec["msg"])
        h = self.cfg.handlers.get(m.name) or getattr(self, "_h_" + m.name, None)
        if h is not None:
            h(self, rec["msg"]) if m.name in self.cfg.handlers else h(rec["msg"])

    def on_client_closed(self) -> None:
        if self.client_closed_at is None:
            self.client_closed_at = self.sim.clock

    # ------------------------------------------------------------ default behaviour
    def _h_HelloRequest(self, msg: Any) -> None:
        if not self.cfg.answer_hello:
            return
        fl = self.dev.flavour
        minor = {"api-1.2": 2, "api-1.8": 8, "api-1.12": 12}.get(fl, self.cfg.api_minor)
        name = "" if fl == "no-name-in-hello" else (self.cfg.name if self.cfg.hello_name is None else self.cfg.hello_name)
        self.send("HelloResponse", api_version_major=self.cfg.api_major, api_version_minor=minor, server_info=self.cfg.server_info, name=name)
        if self.cfg.hello_extra is not None:
            self.cfg.hello_extra(self)

    def _h_ConnectRequest(self, msg: Any) -> None:
        if self.cfg.answer_connect:
            if self.cfg.invalid_password:
                self.dev.login_rejections.append(self.sim.next_seq())
            self.send("ConnectResponse", invalid_password=self.cfg.invalid_password)

    def _h_PingRequest(self, msg: Any) -> None:
        if self.cfg.answer_ping:
            self.send("PingResponse")

    def _h_DisconnectRequest(self, msg: Any) -> None:
        if self.cfg.answer_disconnect:
            self.send("DisconnectResponse")
            if self.cfg.eof_after_disconnect_response:
                self.eof()

    def _h_DeviceInfoRequest(self, msg: Any) -> None:
        info = {"name": self.cfg.name, "mac_address": "AA:BB:CC:DD:EE:FF", "esphome_version": "2024.9.0", **self.cfg.device_info}
        if self.dev.flavour == "deep-sleep":
            info.setdefault("has_deep_sleep", True)
        self.send("DeviceInfoResponse", **info)

    def _h_ListEntitiesRequest(self, msg: Any) -> None:
        for e in self.cfg.entities:
            self.send_msg(e)
        self.send("ListEntitiesDoneResponse")

    def _h_GetTimeRequest(self, msg: Any) -> None:
        self.send("GetTimeResponse", epoch_seconds=1700000000)

    # ------------------------------------------------------------ send
    def encode(self, name: str, payload: bytes) -> bytes:
        return self.encode_id(self.proto.id_of(name), payload)

    def encode_id(self, ty: int, payload: bytes) -> bytes:
        if self.noise:
            assert self.resp is not None and self.resp.tx is not None, "noise device not ready"
            return refcodec.enc_noise_outer(self.resp.encrypt(refcodec.enc_noise_inner(ty, payload)))
        return refcodec.enc_plain(ty, payload)

    def send(self, _msg_name: str, _delay: float | None = None, **fields: Any) -> None:
        self.send_msg(getattr(pb(), _msg_name)(**fields), _delay)

    def send_msg(self, msg: Any, delay: float | None = None) -> None:
        name = type(msg).__name__
        self.sent.append({"seq": self.sim.next_seq(), "t": self.sim.clock, "name": name, "msg": msg})
        self._out(("msg", self.proto.id_of(name), msg.SerializeToString(), "valid"), delay)

    def send_id(self, ty: int, payload: bytes, delay: float | None = None) -> None:
        self.taints.append(self.sim.next_seq())
        self._out(("msg", ty, payload), delay)

    def send_raw(self, data: bytes, delay: float | None = None) -> None:
        self.taints.append(self.sim.next_seq())
        self._out(("raw", data), delay)

    def eof(self, delay: float | None = None) -> None:
        self._out(("eof",), delay)

    def rst(self, delay: float | None = None, exc: BaseException | None = None) -> None:
        if exc is None:
            # what the kernel reports when the link dies differs from case to case: reset by peer, aborted, host / network unreachable
            no = rotation.decide("link_error_errno", (104, 104, 113, 104, 103, 100))
            exc = {104: ConnectionResetError(104, "Connection reset by peer"), 103: ConnectionAbortedError(103, "Software caused connection abort"),
                   113: OSError(113, "No route to host"), 100: OSError(100, "Network is down")}[no]
        self._out(("rst", exc), delay)

    def _out(self, item: tuple[Any, ...], delay: float | None) -> None:
        if self.outbox is not None and delay is None:
            self.outbox.append(item)
            return
        self.deliver_items([item], self.cfg.reply_delay if delay is None else delay)

    def deliver_items(self, items: list[tuple[Any, ...]], delay: float, cuts: list[int] | None = None) -> None:
        """Put items on the wire at now+delay as ONE chunk (EOF/RST split it).  Noise frames are encrypted at that moment,
        so the nonce order always equals the wire order, as on a real device."""
        sock = self.sock

        def put() -> None:
            if sock.closed:
                return
            buf = b""
            produced = 0
            for it in items:
                if it[0] == "raw":
                    buf += it[1]
                    produced += len(it[1])
                elif it[0] == "msg":
                    frame = self.encode_id(it[1], it[2])
                    buf += frame
                    produced += len(frame)
                    if it[1] == 5 and len(it) > 3:
                        # a well-formed DisconnectRequest: the stream offset at which its frame ends (boundary observation for C07: the client's
                        # socket has handed over everything up to here <=> the device's request reached the library)
                        self.disc_req_ends.append((self.tx_offset + produced, self.sim.next_seq()))
                else:
                    if buf:
                        sock.rx.append(buf)
                        buf = b""
                    sock.arrive(b"" if it[0] == "eof" else it[1])
            if buf and not cuts and self.cfg.chunk_policy == "split" and len(buf) > 1:
                # TCP may hand the stream over in arbitrary pieces: cut every buffer into pieces of 1..8 bytes (deterministic pattern)
                cuts_ = []
                pos, k = 0, len(buf) % 5
                while True:
                    pos += 1 + (k * 3 + 1) % 8
                    k += 1
                    if pos >= len(buf):
                        break
                    cuts_.append(pos)
                cuts_local: list[int] | None = cuts_
            else:
                cuts_local = cuts
            if buf:
                if cuts_local:
                    prev = 0
                    for c in [c for c in sorted(set(cuts_local)) if 0 < c < len(buf)]:
                        sock.rx.append(buf[prev:c])
                        prev = c
                    sock.rx.append(buf[prev:])
                else:
                    sock.rx.append(buf)

            self.tx_offset += produced

        if self.immediate:
            put()
        else:
            # `delay` is the device's think time: the write happens at now+delay, and writes reach the client in write order
            self.sim.net.at(self.sim.clock + delay, put)

    def can_send_encrypted(self) -> bool:
        """A Noise device cannot emit an encrypted frame before its handshake message has actually been written."""
        if not self.noise:
            return True
        return self.resp is not None and self.resp.tx is not None and self.handshake_on_wire_at is not None \
            and self.sim.clock >= self.handshake_on_wire_at

    # ------------------------------------------------------------ queries
    def received_names(self) -> list[str]:
        return [r["name"] or f"#{r['id']}" for r in self.received]


# every frame a device decoded whose type number api.proto does not declare (process-wide; read by C13: whatever the client wrote, it went out under that number)
UNDECLARED_IDS_RECEIVED: list[dict[str, Any]] = []
ROTATE_FIRMWARE = False  # set by a check's shard(): the firmware flavour of default devices rotates (see SimDevice.__init__)
AUTO_ROTATE = False      # set by a check's shard(): devices whose config leaves the chunking open get a policy by rotation
_ROTATION = 0
FORCED_POLICY: str | None = None   # set by `./check Cxx --replay` from the witness file
LAST_POLICY = "as-written"
POLICY_COUNTS: dict[str, int] = {}


class SimDevice:
    def __init__(self, sim: Any, cfg: DeviceConfig | None = None) -> None:
        global _ROTATION
        self.sim = sim
        self.cfg = cfg or DeviceConfig()
        self.login_rejections: list[int] = []   # sequence numbers at which a ConnectResponse(invalid_password=True) was produced
        global LAST_POLICY
        open_ = self.cfg.chunk_policy is None and not self.cfg.coalesce_replies and not self.cfg.coalesce_cuts
        if FORCED_POLICY is not None and open_:
            self.cfg.chunk_policy = None if FORCED_POLICY == "as-written" else FORCED_POLICY      # replay of a recorded case
        elif AUTO_ROTATE and open_:
            _ROTATION += 1
            self.cfg.chunk_policy = (None, "coalesce", None, "split", None)[_ROTATION % 5]
        LAST_POLICY = self.cfg.chunk_policy or "as-written"
        POLICY_COUNTS[str(self.cfg.chunk_policy)] = POLICY_COUNTS.get(str(self.cfg.chunk_policy), 0) + 1
        self.proto = protoparse.load_api()
        self.conns: list[DeviceConn] = []
        self.on_accept: Callable[[DeviceConn], None] | None = None
        # what kind of firmware answers (only where a check opted in, and only for devices whose hello the scenario left at its defaults): the
        # content of HelloResponse / DeviceInfoResponse - no name in the hello (old firmware), an API minor version on the other side of the
        # thresholds the client knows (1.2, 1.8) or newer than the client (1.12), a device that deep-sleeps - must not change what a property says
        self.flavour = "current"
        if ROTATE_FIRMWARE and self.cfg.api_major == 1 and self.cfg.api_minor == 10 and self.cfg.hello_name is None:
            self.flavour = rotation.decide("device_firmware", ("current", "no-name-in-hello", "current", "api-1.2", "deep-sleep", "current", "api-1.12", "api-1.8"))

    def accept(self, sock: Any) -> DeviceConn:
        c = DeviceConn(self, sock)
        if self.on_accept is not None:
            self.on_accept(c)
        return c

    @property
    def conn(self) -> DeviceConn:
        return self.conns[-1]

"""Engine S core: a real asyncio SelectorEventLoop whose selector, sockets and clock are ours.

Everything above the doubles (FakeSelector, FakeSocket, virtual clock, getaddrinfo)
is stock CPython asyncio and the real library.  The loop is stepped one
`_run_once()` at a time so that same-turn interleavings can be chosen.
"""

from __future__ import annotations

import asyncio
import collections
import errno
import heapq
import selectors
import socket as real_socket
import threading
import types
from asyncio import events as aio_events
from asyncio import selector_events
from typing import Any, Callable

FD_BASE = 100000
START_TIME = 1000.0


class SimDeadlock(Exception):
    """select() was asked to wait forever and no simulated event is pending: nothing can ever happen."""


class FakeSocket:
    def __init__(self, net: "SimNet", family: int = real_socket.AF_INET, type: int = real_socket.SOCK_STREAM,  # noqa: A002
                 proto: int = 0, fileno: Any = None) -> None:
        self.net = net
        self.family = family
        self.type = type
        self.proto = proto
        net.fd_counter += 1
        self.fd = FD_BASE + net.fd_counter
        self.closed = False
        self.rx: collections.deque[Any] = collections.deque()
        self.rx_consumed = 0      # bytes handed to the reader so far
        self.connect_state: str | None = None
        self.so_error = 0
        self.address: Any = None
        self.endpoint: Any = None  # device side
        self.sent_log: list[tuple[int, float, bytes]] = []
        self.send_fault: Any = None  # exception instance | ("partial", n) | "block" | callable
        self.sockopts: list[tuple[int, int, Any]] = []
        self.sockopt_fault: Callable[[int, int, Any], None] | None = net.sockopt_fault
        self.created_seq = net.sim.next_seq()
        self.closed_seq: int | None = None
        self.shutdowns: list[int] = []
        self.reset_received = False
        self.peer_fin = False
        self.recv_calls = 0
        net.sockets.append(self)
        net.by_fd[self.fd] = self
        net.sim.log("sock_new", self.fd, family)

    # --- basic socket API used by asyncio / aiohappyeyeballs / the library
    def fileno(self) -> int:
        return -1 if self.closed else self.fd

    def setblocking(self, flag: bool) -> None:
        pass

    def settimeout(self, t: Any) -> None:
        pass

    def gettimeout(self) -> float:
        return 0.0

    def connect(self, address: Any) -> None:
        if self.closed:
            raise OSError(errno.EBADF, "Bad file descriptor")
        if self.connect_state is None:
            self.address = address
            self.connect_state = "pending"
            self.net.begin_connect(self, address)
            raise BlockingIOError(errno.EINPROGRESS, "Operation now in progress")
        if self.connect_state == "pending":
            raise BlockingIOError(errno.EALREADY, "Operation already in progress")

    def bind(self, addr: Any) -> None:
        pass

    def getsockopt(self, level: int, opt: int, *a: Any) -> int:
        if level == real_socket.SOL_SOCKET and opt == real_socket.SO_ERROR:
            e, self.so_error = self.so_error, 0
            return e
        return 0

    def setsockopt(self, level: int, opt: int, value: Any) -> None:
        if self.closed:
            raise OSError(errno.EBADF, "Bad file descriptor")
        if self.sockopt_fault is not None:
            self.sockopt_fault(level, opt, value)
        self.sockopts.append((level, opt, value))

    def getpeername(self) -> Any:
        if self.closed:
            raise OSError(errno.EBADF, "Bad file descriptor")
        if self.connect_state != "done" or self.endpoint is None or self.reset_received:
            # (after the peer's RST has arrived the kernel has torn the connection down: getpeername() answers ENOTCONN like shutdown() does -
            #  calibrated against a real socket in setup)
            raise OSError(errno.ENOTCONN, "Transport endpoint is not connected")
        return self.address

    def getsockname(self) -> Any:
        if self.family == real_socket.AF_INET6:
            return ("fd00::99", 50000 + self.fd % 1000, 0, 0)
        return ("10.0.0.99", 50000 + self.fd % 1000)

    def recv(self, n: int) -> bytes:
        self.recv_calls += 1
        if self.closed:
            raise OSError(errno.EBADF, "Bad file descriptor")
        if not self.rx:
            raise BlockingIOError(errno.EAGAIN, "Resource temporarily unavailable")
        item = self.rx[0]
        if isinstance(item, BaseException):
            self.rx.popleft()
            raise item
        if len(item) > n:
            self.rx[0] = item[n:]
            item = item[:n]
        else:
            self.rx.popleft()
        self.net.sim.log("sock_recv", self.fd, len(item))
        self.rx_consumed += len(item)
        return bytes(item)

    def recv_into(self, buf: Any) -> int:
        data = self.recv(len(buf))
        buf[: len(data)] = data
        return len(data)

    def send(self, data: Any) -> int:
        if self.closed:
            raise OSError(errno.EBADF, "Bad file descriptor")
        data = bytes(data)
        f = self.send_fault
        if f is not None:
            if isinstance(f, BaseException):
                self.net.sim.log("sock_send_fault", self.fd, type(f).__name__)
                raise f
            if f == "block":
                raise BlockingIOError(errno.EAGAIN, "Resource temporarily unavailable")
            if isinstance(f, tuple) and f[0] == "partial":
                self.send_fault = None
                data = data[: max(1, min(f[1], len(data)))]
            elif isinstance(f, tuple) and f[0] == "rate":
                # a peer that reads slowly: the kernel takes at most f[1] bytes per send() call (persistent), so queued data drains in small
                # pieces over many loop iterations and the transport's buffer is usually non-empty when it falls below its low-water mark
                data = data[: max(1, min(f[1], len(data)))]
            elif callable(f):
                r = f(self, data)
                if isinstance(r, int):
                    data = data[:r]
        self.net.client_sent(self, data)
        return len(data)

    def sendmsg(self, buffers: Any, *a: Any) -> int:
        return self.send(b"".join(bytes(b) for b in buffers))

    def arrive(self, item: Any) -> None:
        """Bytes / b'' (FIN) / an exception instance (RST) from the peer reach this socket."""
        self.rx.append(item)
        if isinstance(item, BaseException):
            self.reset_received = True
        elif len(item) == 0:
            self.peer_fin = True

    def shutdown(self, how: int) -> None:
        # as the kernel answers (calibrated against real sockets in vf/sim/calibrate.py): a socket that is not (or no longer) connected --
        # never connected, reset by the peer, or fully closed in both directions -- refuses shutdown() with ENOTCONN
        if self.closed:
            raise OSError(errno.EBADF, "Bad file descriptor")
        if self.connect_state != "done" or self.reset_received or (self.peer_fin and self.shutdowns):
            self.net.sim.log("sock_shutdown_enotconn", self.fd)
            raise OSError(errno.ENOTCONN, "Transport endpoint is not connected")
        if how in (real_socket.SHUT_RD, real_socket.SHUT_RDWR) and not self.shutdowns and not self.peer_fin:
            self.rx.append(b"")   # a socket shut down for reading reads as end-of-file from now on
        self.shutdowns.append(how)
        if self.endpoint is not None and hasattr(self.endpoint, "on_client_shutdown"):
            self.endpoint.on_client_shutdown(how)

    def close(self) -> None:
        if self.closed:
            return
        self.closed = True
        self.closed_seq = self.net.sim.next_seq()
        self.net.sim.log("sock_close", self.fd)
        self.net.socket_closed(self)

    def detach(self) -> int:
        fd = self.fd
        self.close()
        return fd

    # --- readiness as the OS would report it
    @property
    def readable(self) -> bool:
        return not self.closed and bool(self.rx)

    @property
    def writable(self) -> bool:
        return not self.closed and self.connect_state == "done" and self.send_fault != "block"

    def __repr__(self) -> str:
        return f"<FakeSocket fd={self.fd} {self.address} closed={self.closed}>"


def make_socket_shim(net: "SimNet") -> types.ModuleType:
    """Module object that looks like `socket` but whose socket() builds FakeSockets."""
    shim = types.ModuleType("socket_shim")
    shim.__dict__.update({k: v for k, v in real_socket.__dict__.items() if not k.startswith("__")})

    def factory(family: int = real_socket.AF_INET, type: int = real_socket.SOCK_STREAM, proto: int = 0,  # noqa: A002
                fileno: Any = None) -> FakeSocket:
        f = net.socket_create_fault
        if f is not None:
            exc = f(family)
            if exc is not None:
                raise exc
        return FakeSocket(net, family, type, proto)

    shim.socket = factory  # type: ignore[attr-defined]
    return shim


class SimNet:
    """Simulated network: event queue in virtual time, connect outcomes, DNS."""

    def __init__(self, sim: Any) -> None:
        self.sim = sim
        self.fd_counter = 0
        self.sockets: list[FakeSocket] = []
        self.by_fd: dict[int, FakeSocket] = {}
        self.events: list[tuple[float, int, Callable[[], None]]] = []
        self.ev_counter = 0
        self.connect_policy: Callable[[FakeSocket, Any], tuple[Any, ...]] = lambda sock, addr: ("refuse", 0.0)
        self.dns: dict[str, Any] = {}
        self.dns_calls: list[tuple[float, str, int]] = []
        self.dns_seqs: list[int] = []
        self.sockopt_fault: Any = None
        self.socket_create_fault: Any = None
        self.connect_attempts: list[dict[str, Any]] = []

    # ---- event queue
    def at(self, t: float, fn: Callable[[], None]) -> None:
        self.ev_counter += 1
        heapq.heappush(self.events, (max(t, self.sim.clock), self.ev_counter, fn))

    def next_time(self) -> float | None:
        return self.events[0][0] if self.events else None

    def apply_due(self) -> None:
        now = self.sim.clock
        while self.events and self.events[0][0] <= now:
            _, _, fn = heapq.heappop(self.events)
            fn()

    # ---- connect
    def begin_connect(self, sock: FakeSocket, address: Any) -> None:
        rec = {"fd": sock.fd, "address": address, "t_begin": self.sim.clock, "seq": self.sim.next_seq(), "outcome": None, "t_end": None}
        self.connect_attempts.append(rec)
        self.sim.log("tcp_begin", sock.fd, address[0])
        pol = self.connect_policy(sock, address)
        kind = pol[0]
        if kind == "hang":
            rec["outcome"] = "hang"
            return
        if kind == "sync-unreach":
            # a non-blocking connect() can fail at once (no route to the network): the only synchronous connect failure
            rec["outcome"] = "sync-unreach"
            rec["t_end"] = self.sim.clock
            self.sim.log("tcp_fail", sock.fd, kind)
            sock.connect_state = None
            raise OSError(errno.ENETUNREACH, "Network is unreachable")
        delay = pol[1] if len(pol) > 1 else 0.0

        def done() -> None:
            if sock.closed:
                rec["outcome"] = "closed-before-complete"
                return
            sock.connect_state = "done"
            rec["t_end"] = self.sim.clock
            if kind in ("ok", "ok-then-rst"):
                rec["outcome"] = kind
                device = pol[2]
                sock.endpoint = device.accept(sock)
                self.sim.log("tcp_ok", sock.fd)
                if kind == "ok-then-rst":
                    # the device accepts and aborts at once (out of connection slots, rebooting): the RST is in the kernel by the time the loop tells the
                    # connecting task that its connect succeeded
                    sock.arrive(ConnectionResetError(errno.ECONNRESET, "Connection reset by peer"))
            else:
                rec["outcome"] = kind
                sock.so_error = {"refuse": errno.ECONNREFUSED, "unreach": errno.EHOSTUNREACH, "timeout": errno.ETIMEDOUT}.get(kind, errno.ECONNREFUSED)
                self.sim.log("tcp_fail", sock.fd, kind)

        self.at(self.sim.clock + delay, done)

    def client_sent(self, sock: FakeSocket, data: bytes) -> None:
        sock.sent_log.append((self.sim.next_seq(), self.sim.clock, data))
        if sock.endpoint is not None:
            try:
                sock.endpoint.on_bytes(data)
            except Exception:  # noqa: BLE001  (a bug in the simulated device must never look like a socket error)
                import traceback

                self.sim.harness_errors.append(traceback.format_exc()[-1200:])

    def socket_closed(self, sock: FakeSocket) -> None:
        if sock.endpoint is not None:
            sock.endpoint.on_client_closed()

    # ---- delivery towards the client
    def deliver(self, sock: FakeSocket, item: Any, delay: float = 0.0) -> None:
        """Make bytes / b'' (EOF) / an exception instance (RST) readable at now+delay."""
        def put() -> None:
            if not sock.closed:
                sock.arrive(item)
        self.at(self.sim.clock + delay, put)

    # ---- DNS
    async def getaddrinfo(self, host: str, port: int, *, family: int = 0, type: int = 0, proto: int = 0,  # noqa: A002
                          flags: int = 0) -> list[Any]:
        self.dns_calls.append((self.sim.clock, host, port))
        self.dns_seqs.append(self.sim.next_seq())
        self.sim.log("dns", host)
        ans = self.dns.get(host, self.dns.get("*", real_socket.gaierror(real_socket.EAI_NONAME, "Name or service not known")))
        delay = 0.0
        if isinstance(ans, tuple) and ans and ans[0] == "delay":
            delay, ans = ans[1], ans[2]
        # the real loop.getaddrinfo always goes through the executor: it never completes synchronously, so the double
        # always suspends for at least one loop iteration (zero virtual time unless a delay is given)
        fut = self.sim.loop.create_future()
        if ans != "hang":
            def fire() -> None:
                if not fut.done():
                    fut.set_result(None)
            self.at(self.sim.clock + delay, fire)
        await fut
        if isinstance(ans, BaseException):
            raise ans
        out = []
        for ip in ans:
            if isinstance(ip, tuple):  # raw getaddrinfo entry (e.g. an unknown address family)
                out.append(ip)
            elif ":" in ip:
                ip6, _, scope = ip.partition("%")
                out.append((real_socket.AF_INET6, real_socket.SOCK_STREAM, real_socket.IPPROTO_TCP, "", (ip6, port, 0, int(scope or 0))))
            else:
                out.append((real_socket.AF_INET, real_socket.SOCK_STREAM, real_socket.IPPROTO_TCP, "", (ip, port)))
        return out


class FakeSelector(selectors._BaseSelectorImpl):  # noqa: SLF001
    def __init__(self, sim: Any) -> None:
        super().__init__()
        self.sim = sim

    def _ready(self) -> list[tuple[selectors.SelectorKey, int]]:
        out = []
        by_fd = self.sim.net.by_fd
        for fd, key in sorted(self._fd_to_key.items()):
            sock = by_fd.get(fd)
            if sock is None:
                continue
            mask = 0
            if key.events & selectors.EVENT_READ and sock.readable:
                mask |= selectors.EVENT_READ
            if key.events & selectors.EVENT_WRITE and sock.writable:
                mask |= selectors.EVENT_WRITE
            if mask:
                out.append((key, mask))
        return out

    def select(self, timeout: float | None = None) -> list[tuple[selectors.SelectorKey, int]]:
        sim = self.sim
        net = sim.net
        if sim.suspend_until is not None and sim.clock >= sim.suspend_from:
            # the process was stopped (SIGSTOP, VM pause, a blocked loop) from suspend_from to suspend_until: the world went on - peers wrote, the
            # kernel queued - and the loop sees all of it, and every timer that fell due meanwhile, in ONE iteration after waking up
            jumped = sim.suspend_until > sim.clock
            if jumped:
                sim.clock = sim.suspend_until
            sim.suspend_until = None
            if jumped:
                # (the timeout the loop passed in was computed before the stop: whatever became due meanwhile is due NOW)
                net.apply_due()
                return self._ready()
        net.apply_due()
        ready = self._ready()
        if ready or (timeout is not None and timeout <= 0) or sim.loop._ready:  # noqa: SLF001
            # (a simulated event due right now may have queued a callback: no virtual time may pass before it runs)
            return ready
        nxt = net.next_time()
        if timeout is None and nxt is None:
            raise SimDeadlock
        target = None if timeout is None else sim.clock + timeout
        timer_target = False
        if nxt is not None and (target is None or nxt <= target):
            target = nxt
        else:
            timer_target = True
        assert target is not None
        if timer_target:
            sched = sim.loop._scheduled  # noqa: SLF001
            if sched and abs(sched[0]._when - target) < 1e-6:  # noqa: SLF001
                target = sched[0]._when  # noqa: SLF001  (exact, avoids float drift)
        if target > sim.clock:
            sim.clock = target
        net.apply_due()
        return self._ready()


class SimTransport(selector_events._SelectorSocketTransport):  # noqa: SLF001
    """The real selector socket transport; write/close/abort/connection_lost are logged before delegating."""

    def __init__(self, loop: Any, sock: Any, protocol: Any, waiter: Any = None, extra: Any = None, server: Any = None) -> None:
        self._sim = loop.sim
        self._fake = sock
        self._sim_conn = getattr(protocol, "_connection", None)
        self._sim_id = len(self._sim.transports)
        self._sim.transports.append(self)
        self.write_raises: BaseException | None = self._sim.transport_write_raises
        self.sim_writes: list[tuple[int, float, bytes]] = []
        self.sim_close_seq: int | None = None
        self.sim_lost_seq: int | None = None
        super().__init__(loop, sock, protocol, waiter, extra, server)

    def write(self, data: Any) -> None:
        sim = self._sim
        seq = sim.next_seq()
        self.sim_writes.append((seq, sim.clock, bytes(data)))
        sim.log("twrite", self._sim_id, len(data))
        exc = self.write_raises or sim.transport_write_raises
        if exc is not None:
            raise exc
        super().write(data)

    def close(self) -> None:
        if self.sim_close_seq is None:
            self.sim_close_seq = self._sim.next_seq()
            self._sim.log("tclose", self._sim_id)
        super().close()

    def abort(self) -> None:
        if self.sim_close_seq is None:
            self.sim_close_seq = self._sim.next_seq()
            self._sim.log("tabort", self._sim_id)
        super().abort()

    def _call_connection_lost(self, exc: Any) -> None:
        self.sim_lost_seq = self._sim.next_seq()
        self._sim.log("tlost", self._sim_id, type(exc).__name__ if exc else None)
        super()._call_connection_lost(exc)


class SimTimerHandle(aio_events.TimerHandle):
    """A TimerHandle that notes, in the simulation's event order, that it ran (boundary fact: which timers fired before / after an I/O event of
    the same loop iteration)."""

    __slots__ = ()

    def _run(self) -> None:
        sim = getattr(self._loop, "sim", None)
        if sim is not None:
            sim.timer_fired.append((sim.next_seq(), sim.clock, getattr(self._callback, "__qualname__", None) or type(self._callback).__name__))
        super()._run()


class SimLoop(asyncio.SelectorEventLoop):
    def __init__(self, sim: Any) -> None:
        self.sim = sim
        super().__init__(selector=FakeSelector(sim))

    def time(self) -> float:
        return self.sim.clock

    def call_at(self, when: float, callback: Any, *args: Any, context: Any = None) -> Any:   # BaseEventLoop.call_at with the logging handle class
        self._check_closed()
        timer = SimTimerHandle(when, callback, args, self, context)
        if timer._source_traceback:  # noqa: SLF001
            del timer._source_traceback[-1]  # noqa: SLF001
        heapq.heappush(self._scheduled, timer)
        timer._scheduled = True  # noqa: SLF001
        return timer

    async def getaddrinfo(self, host: Any, port: Any, *, family: int = 0, type: int = 0, proto: int = 0,  # noqa: A002
                          flags: int = 0) -> Any:
        return await self.sim.net.getaddrinfo(host, port, family=family, type=type, proto=proto, flags=flags)

    def _make_socket_transport(self, sock: Any, protocol: Any, waiter: Any = None, *, extra: Any = None, server: Any = None) -> Any:
        return SimTransport(self, sock, protocol, waiter, extra, server)

    # manual run_forever set-up / tear-down (CPython 3.12 has no _run_forever_setup)
    def sim_enter(self) -> None:
        self._check_closed()
        self._check_running()
        self._thread_id = threading.get_ident()
        aio_events._set_running_loop(self)  # noqa: SLF001

    def sim_exit(self) -> None:
        self._stopping = False
        self._thread_id = None
        aio_events._set_running_loop(None)  # noqa: SLF001

"""Calibration of engine S against real sockets (DESIGN §3.10).

The same micro-scenarios are run (1) on real loopback TCP sockets with the stock asyncio selector loop and (2) on FakeSocket /
FakeSelector / SimLoop; the sequences of protocol callbacks (connection_made, data_received, eof_received, connection_lost with the
exception class, loop exception-handler messages) must be identical.  A third part runs one complete real APIClient session against an
in-process loopback server speaking through vf.refcodec and compares the process's open file descriptors before and after, which ties
"FakeSocket.close observed" to a real descriptor being released.

Exit 0 = calibrated.  Anything else makes every S-engine verdict INCONCLUSIVE (setup fails).
"""

from __future__ import annotations

import asyncio
import os
import socket
import struct
import sys
from typing import Any

SCALE = 1.0   # real-time settle factor; raised on retry so that a loaded machine cannot fake a difference

SCENARIOS = ("echo", "eof", "rst", "raise-in-data_received", "write-after-close", "write-to-closed-peer", "local-close", "eof-then-data-ignored",
             "shutdown-after-rst", "shutdown-after-eof", "shutdown-twice-alive")


class Rec(asyncio.Protocol):
    def __init__(self, log: list[Any], raise_on: bytes | None = None, shutdown_on: str | None = None) -> None:
        self.log = log
        self.raise_on = raise_on
        self.shutdown_on = shutdown_on
        self.transport: Any = None

    def _shutdown(self) -> None:
        # socket.shutdown() on the transport's socket, as library code might do before closing: the errno the OS answers with is recorded
        sock = self.transport.get_extra_info("socket")
        try:
            sock.getpeername()
            self.log.append(("getpeername", "ok"))
        except OSError as e:
            import errno as _errno

            self.log.append(("getpeername", _errno.errorcode.get(e.errno, e.errno)))
        for _ in range(2):
            try:
                sock.shutdown(socket.SHUT_RDWR)
                self.log.append(("shutdown", "ok"))
            except OSError as e:
                import errno as _errno

                self.log.append(("shutdown", _errno.errorcode.get(e.errno, e.errno)))

    def connection_made(self, transport: Any) -> None:
        self.transport = transport
        self.log.append(("made",))

    def data_received(self, data: bytes) -> None:
        self.log.append(("data", bytes(data)))
        if self.raise_on is not None and self.raise_on in data:
            raise ValueError("protocol bug")

    def eof_received(self) -> None:
        self.log.append(("eof",))
        if self.shutdown_on == "eof":
            self._shutdown()

    def connection_lost(self, exc: Any) -> None:
        self.log.append(("lost", type(exc).__name__ if exc else None))
        if self.shutdown_on == "lost":
            self._shutdown()


# ------------------------------------------------------------------------------------------------ real world
async def _real(name: str, log: list[Any]) -> None:
    loop = asyncio.get_running_loop()
    loop.set_exception_handler(lambda lp, ctx: log.append(("loop_exc", ctx.get("message"))))
    srv = socket.socket()
    srv.bind(("127.0.0.1", 0))
    srv.listen(1)
    srv.setblocking(False)
    c = socket.socket()
    c.setblocking(False)
    try:
        c.connect(srv.getsockname())
    except BlockingIOError:
        pass
    peer, _ = await loop.sock_accept(srv)
    srv.close()
    await asyncio.sleep(0.05)
    proto = Rec(log, raise_on=b"BOOM" if name == "raise-in-data_received" else None,
                shutdown_on={"shutdown-after-rst": "lost", "shutdown-after-eof": "eof"}.get(name))
    tr, _ = await loop.create_connection(lambda: proto, sock=c)

    async def settle() -> None:
        for _ in range(5):
            await asyncio.sleep(0.02 * SCALE)

    if name == "echo":
        peer.send(b"abc")
        await settle()
        peer.send(b"def")
        await settle()
        tr.write(b"xyz")
        await settle()
        log.append(("peer_got", peer.recv(100)))
        tr.close()
    elif name == "eof":
        peer.send(b"abc")
        await settle()
        peer.shutdown(socket.SHUT_WR)
        await settle()
    elif name == "eof-then-data-ignored":
        peer.send(b"abc")
        peer.shutdown(socket.SHUT_WR)
        await settle()
    elif name in ("rst", "shutdown-after-rst"):
        peer.send(b"abc")
        await settle()
        peer.setsockopt(socket.SOL_SOCKET, socket.SO_LINGER, struct.pack("ii", 1, 0))
        peer.close()
        await settle()
    elif name == "shutdown-after-eof":
        peer.send(b"abc")
        await settle()
        peer.shutdown(socket.SHUT_WR)
        await settle()
    elif name == "shutdown-twice-alive":
        proto._shutdown()  # noqa: SLF001
        await settle()
    elif name == "raise-in-data_received":
        peer.send(b"ok")
        await settle()
        peer.send(b"BOOM")
        await settle()
        peer.send(b"later")
        await settle()
    elif name == "write-after-close":
        tr.close()
        tr.write(b"late")
        await settle()
        try:
            log.append(("peer_got", peer.recv(100)))
        except BlockingIOError:
            log.append(("peer_got", b""))
    elif name == "write-to-closed-peer":
        peer.setsockopt(socket.SOL_SOCKET, socket.SO_LINGER, struct.pack("ii", 1, 0))
        peer.close()
        await asyncio.sleep(0.05)
        # the reset is already visible as readable; asyncio delivers it as connection_lost
        await settle()
        tr.write(b"x")
        await settle()
    elif name == "local-close":
        tr.close()
        await settle()
    await settle()
    if not tr.is_closing():
        tr.close()
        await settle()
    try:
        peer.close()
    except OSError:
        pass


def run_real(name: str) -> list[Any]:
    log: list[Any] = []
    asyncio.run(_real(name, log))
    return log


# ------------------------------------------------------------------------------------------------ simulated world
class _Peer:
    def __init__(self) -> None:
        self.got = b""
        self.closed = False

    def on_bytes(self, data: bytes) -> None:
        self.got += data

    def on_client_closed(self) -> None:
        self.closed = True


def run_sim(name: str) -> list[Any]:
    from vf.sim import core
    from vf.sim.scenario import Sim

    log: list[Any] = []
    with Sim() as sim:
        sim.loop.set_exception_handler(lambda lp, ctx: log.append(("loop_exc", ctx.get("message"))))
        sock = core.FakeSocket(sim.net)
        peer = _Peer()
        sock.connect_state = "done"
        sock.address = ("10.9.9.9", 1)
        sock.endpoint = peer
        proto = Rec(log, raise_on=b"BOOM" if name == "raise-in-data_received" else None,
                shutdown_on={"shutdown-after-rst": "lost", "shutdown-after-eof": "eof"}.get(name))
        holder: dict[str, Any] = {}

        async def mk() -> None:
            holder["tr"], _ = await sim.loop.create_connection(lambda: proto, sock=sock)

        r = sim.call("mk", mk)
        sim.run(until=lambda: r.done, max_time=sim.clock + 1)
        tr = holder["tr"]

        def settle() -> None:
            sim.run_for(0.1)

        def peer_send(data: Any) -> None:
            sim.net.deliver(sock, data)

        if name == "echo":
            peer_send(b"abc")
            settle()
            peer_send(b"def")
            settle()
            tr.write(b"xyz")
            settle()
            log.append(("peer_got", peer.got))
            tr.close()
        elif name == "eof":
            peer_send(b"abc")
            settle()
            peer_send(b"")
            settle()
        elif name == "eof-then-data-ignored":
            peer_send(b"abc")
            peer_send(b"")
            settle()
        elif name in ("rst", "shutdown-after-rst"):
            peer_send(b"abc")
            settle()
            peer_send(ConnectionResetError(104, "Connection reset by peer"))
            settle()
        elif name == "shutdown-after-eof":
            peer_send(b"abc")
            settle()
            peer_send(b"")
            settle()
        elif name == "shutdown-twice-alive":
            proto._shutdown()  # noqa: SLF001
            settle()
        elif name == "raise-in-data_received":
            peer_send(b"ok")
            settle()
            peer_send(b"BOOM")
            settle()
            peer_send(b"later")
            settle()
        elif name == "write-after-close":
            tr.close()
            tr.write(b"late")
            settle()
            log.append(("peer_got", peer.got))
        elif name == "write-to-closed-peer":
            peer_send(ConnectionResetError(104, "Connection reset by peer"))
            settle()
            tr.write(b"x")
            settle()
        elif name == "local-close":
            tr.close()
            settle()
        settle()
        if not tr.is_closing():
            tr.close()
            settle()
        log.append(("fake_socket_closed", sock.closed))
    return log


# ------------------------------------------------------------------------------------------------ real session, fd accounting
def fd_count() -> int:
    return len(os.listdir("/proc/self/fd"))


async def _real_session() -> dict[str, Any]:
    from aioesphomeapi import APIClient, api_pb2
    from vf import protoparse, refcodec

    proto = protoparse.load_api()
    seen: list[str] = []

    async def handle(reader: asyncio.StreamReader, writer: asyncio.StreamWriter) -> None:
        dec = refcodec.PlainDecoder()
        try:
            while True:
                data = await reader.read(4096)
                if not data:
                    break
                for ty, payload in dec.feed(data):
                    name = proto.by_id[ty].name
                    seen.append(name)
                    if name == "HelloRequest":
                        writer.write(refcodec.enc_plain(proto.id_of("HelloResponse"),
                                                        api_pb2.HelloResponse(api_version_major=1, api_version_minor=10, name="real").SerializeToString()))
                    elif name == "ConnectRequest":
                        writer.write(refcodec.enc_plain(proto.id_of("ConnectResponse"), b""))
                    elif name == "DeviceInfoRequest":
                        writer.write(refcodec.enc_plain(proto.id_of("DeviceInfoResponse"), api_pb2.DeviceInfoResponse(name="real").SerializeToString()))
                    elif name == "DisconnectRequest":
                        writer.write(refcodec.enc_plain(proto.id_of("DisconnectResponse"), b""))
                    elif name == "PingRequest":
                        writer.write(refcodec.enc_plain(proto.id_of("PingResponse"), b""))
                await writer.drain()
        finally:
            writer.close()

    server = await asyncio.start_server(handle, "127.0.0.1", 0)
    port = server.sockets[0].getsockname()[1]
    await asyncio.sleep(0.05)
    before = fd_count()
    cli = APIClient("127.0.0.1", port, None)
    await cli.connect(login=True)
    during = fd_count()
    info = await cli.device_info()
    await cli.disconnect()
    for _ in range(10):
        await asyncio.sleep(0.02)
    after = fd_count()
    server.close()
    await server.wait_closed()
    return {"before": before, "during": during, "after": after, "name": info.name, "device_saw": seen}


def main() -> int:
    bad = 0
    global SCALE
    for name in SCENARIOS:
        simulated = run_sim(name)
        sim_closed = simulated[-1]
        simulated = simulated[:-1]
        for SCALE in (1.0, 5.0, 25.0):
            real = run_real(name)
            same = real == simulated and sim_closed == ("fake_socket_closed", True)
            if same:
                break
        SCALE = 1.0
        print(f"calibrate {name}: {'same' if same else 'DIFFERENT'} {real}")
        if not same:
            bad += 1
            print(f"    real      {real}")
            print(f"    simulated {simulated} {sim_closed}")
    sess = asyncio.run(_real_session())
    ok = sess["after"] == sess["before"] and sess["during"] > sess["before"] and sess["name"] == "real"
    print(f"calibrate real-session fds: before={sess['before']} during={sess['during']} after={sess['after']} device_saw={sess['device_saw']} -> {'ok' if ok else 'LEAK/MISMATCH'}")
    if not ok:
        bad += 1
    if bad:
        print(f"INCONCLUSIVE reason=engine S calibration failed in {bad} scenario(s)")
        return 2
    print(f"engine S calibrated: {len(SCENARIOS)} micro-scenarios identical on real sockets and on the doubles; real session released its descriptor")
    return 0


if __name__ == "__main__":
    from vf import common

    common.setup_path()
    sys.exit(main())

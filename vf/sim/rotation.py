"""Harness-side choices that rotate from case to case (library debug flag of a client, extra fields in a device's Noise hello, ...).

They depend on how many cases the process ran before, so a witness must carry them: every decision taken since the current Sim was entered
is kept in LAST (kind -> list of values, in order); `Result.violation` stores a copy in the replay file and `./check --replay` puts it into
FORCED, from which the same decision points then take their values in the same order instead of rotating.
"""

from __future__ import annotations

from typing import Any

LAST: dict[str, list[Any]] = {}
FORCED: dict[str, list[Any]] = {}
_COUNTERS: dict[str, int] = {}
VALUE_COUNTS: dict[str, int] = {}     # "kind=value" -> how many cases of this process ran with it (goes into the evidence)


def new_case() -> None:
    LAST.clear()


def decide(kind: str, options: tuple[Any, ...]) -> Any:
    """Next value of the rotation `kind` (options are cycled), or the recorded one when replaying."""
    forced = FORCED.get(kind)
    if forced:
        v = forced.pop(0)
    elif kind in FORCED:
        v = options[0]          # replaying, and the recorded case made no further decision of this kind: the neutral option
    else:
        _COUNTERS[kind] = _COUNTERS.get(kind, 0) + 1
        v = options[_COUNTERS[kind] % len(options)]
    LAST.setdefault(kind, []).append(v)
    VALUE_COUNTS[f"{kind}={v!r}"] = VALUE_COUNTS.get(f"{kind}={v!r}", 0) + 1
    return v


def snapshot() -> dict[str, list[Any]]:
    return {k: list(v) for k, v in LAST.items()}


def record(kind: str, value: Any) -> Any:
    """A choice fixed by the scenario itself (not rotating): recorded like a decision so that witnesses show it."""
    LAST.setdefault(kind, []).append(value)
    return value

"""Fake mDNS for engines R and S: doubles of zeroconf.Zeroconf / AsyncZeroconf / AsyncServiceInfo as *bound in the
library's modules* (aioesphomeapi.zeroconf.AsyncZeroconf / .Zeroconf, aioesphomeapi.host_resolver.AsyncServiceInfo).

The real classes need multicast sockets, which the sandbox does not have.  The doubles log every call with the
virtual time and sequence number, answer lookups from the scenario, and keep per-instance ownership facts:
who constructed the instance (harness = "supplied", anything else = "library") and how often it was closed.
"""

from __future__ import annotations

import ipaddress
from typing import Any

WORLD: "MdnsWorld | None" = None


def _zc_ip(text: str) -> Any:
    """An address object of the classes python-zeroconf itself hands out (its own subclasses of IPv4Address / IPv6Address, not the stdlib
    classes), falling back to the stdlib ones when that package layout is not present."""
    try:
        from zeroconf._utils.ipaddress import cached_ip_addresses  # noqa: PLC0415

        a = cached_ip_addresses(text)
        if a is not None:
            return a
    except Exception:  # noqa: BLE001
        pass
    return ipaddress.ip_address(text)


class MdnsWorld:
    """Scenario-side state of the fake mDNS network."""

    def __init__(self, sim: Any) -> None:
        self.sim = sim
        self.answers: dict[str, Any] = {}      # mDNS host name (without .local) -> answer spec
        self.instances: list[FakeZeroconf] = []
        self.cache: list[Any] = []          # RecordUpdate objects heard so far (python-zeroconf caches whether or not anybody listens)
        self.async_wrappers: list[FakeAsyncZeroconf] = []
        self.requests: list[dict[str, Any]] = []
        self.constructing_supplied = False
        self.create_fault: BaseException | None = None
        self.log: list[tuple[Any, ...]] = []

    # ---- harness-side constructors (instances "supplied by the application")
    def supplied_zeroconf(self) -> "FakeZeroconf":
        self.constructing_supplied = True
        try:
            return FakeZeroconf()
        finally:
            self.constructing_supplied = False

    def supplied_async(self) -> "FakeAsyncZeroconf":
        self.constructing_supplied = True
        try:
            return FakeAsyncZeroconf()
        finally:
            self.constructing_supplied = False

    def ev(self, kind: str, *data: Any) -> None:
        self.log.append((self.sim.next_seq(), self.sim.clock, kind, *data))
        self.sim.log("mdns_" + kind, *data)

    def library_instances(self) -> list["FakeZeroconf"]:
        return [z for z in self.instances if z.origin == "library"]

    def supplied_instances(self) -> list["FakeZeroconf"]:
        return [z for z in self.instances if z.origin == "supplied"]

    def deliver_records(self, records: list[Any]) -> int:
        """Hand a batch of RecordUpdate objects to every registered listener of every open instance (as zeroconf does, from the loop)."""
        n = 0
        # (python-zeroconf caches what it hears whether or not anybody listens; the cache is what a later listener registered WITH a question is
        #  served from, synchronously, inside async_add_listener)
        for ru in records:
            if not any(c.new == ru.new for c in self.cache):
                self.cache.append(ru)
        for z in self.instances:
            if z.close_calls:
                continue
            for listener in list(z.listeners):
                n += 1
                listener.async_update_records(z, self.sim.clock * 1000.0, records)
        return n


class FakeZeroconf:
    def __init__(self, *a: Any, **k: Any) -> None:
        w = WORLD
        assert w is not None, "FakeZeroconf constructed outside a MdnsWorld"
        if not w.constructing_supplied and w.create_fault is not None:
            raise w.create_fault
        self.world = w
        self.idx = len(w.instances)
        self.origin = "supplied" if w.constructing_supplied else "library"
        self.close_calls = 0
        self.closed_seq: int | None = None
        self.listeners: list[Any] = []
        self.listener_log: list[tuple[int, float, str]] = []
        self.created_seq = w.sim.next_seq()
        self.used_after_close = 0
        self.closed_by_app = False
        w.instances.append(self)
        w.ev("zc_new", self.idx, self.origin)

    def async_add_listener(self, listener: Any, question: Any) -> None:
        if self.close_calls:
            self.used_after_close += 1
        self.listeners.append(listener)
        self.listener_log.append((self.world.sim.next_seq(), self.world.sim.clock, "add"))
        self.world.ev("listener_add", self.idx)
        if question is not None:
            # RecordManager.async_add_listener: with a question, cached records that answer it are handed to the new listener at once
            qs = list(question) if isinstance(question, (list, tuple)) else [question]
            hit = [ru for ru in self.world.cache if any(getattr(q, "answered_by", lambda r: False)(ru.new) for q in qs)]
            if hit:
                self.world.ev("listener_add_replays_cache", self.idx, len(hit))
                listener.async_update_records(self, self.world.sim.clock * 1000.0, hit)
                done = getattr(listener, "async_update_records_complete", None)
                if done is not None:
                    done()

    def async_remove_listener(self, listener: Any) -> None:
        if self.close_calls:
            self.used_after_close += 1
        if listener in self.listeners:
            self.listeners.remove(listener)
        else:
            self.world.ev("listener_remove_unknown", self.idx)
        self.listener_log.append((self.world.sim.next_seq(), self.world.sim.clock, "remove"))
        self.world.ev("listener_remove", self.idx)

    @property
    def done(self) -> bool:
        """python-zeroconf: True once the instance has been shut down."""
        return self.close_calls > 0

    def _close(self) -> None:
        self.close_calls += 1
        if self.closed_seq is None:
            self.closed_seq = self.world.sim.next_seq()
        self.world.ev("zc_close", self.idx, self.origin)

    def close(self) -> None:
        self._close()


class FakeAsyncZeroconf:
    def __init__(self, *a: Any, zc: Any = None, **k: Any) -> None:
        w = WORLD
        assert w is not None
        self.world = w
        self.zeroconf = zc if zc is not None else FakeZeroconf()
        self.wrapper_origin = "supplied" if w.constructing_supplied else "library"
        w.async_wrappers.append(self)

    async def async_close(self) -> None:
        # the real one awaits the engine shutdown: give the loop a chance to interleave
        self.zeroconf._close()  # noqa: SLF001
        fut = self.world.sim.loop.create_future()
        self.world.sim.net.at(self.world.sim.clock, lambda: fut.done() or fut.set_result(None))
        await fut


class FakeServiceInfo:
    def __init__(self, type_: str, name: str, *a: Any, server: str | None = None, **k: Any) -> None:
        # the real ServiceInfo validates the instance name in its constructor (label length, control characters, ...): same check, same exception
        from zeroconf import BadTypeInNameException, service_type_name  # noqa: PLC0415

        if not type_.endswith(service_type_name(name, strict=False)):
            raise BadTypeInNameException
        self.type = type_
        self.name = name
        self.server = server
        self._v4: list[Any] = []
        self._v6: list[Any] = []

    async def async_request(self, zc: Any, timeout: float, *a: Any, **k: Any) -> bool:
        w = WORLD
        assert w is not None
        sim = w.sim
        host = self.name.partition(".")[0]
        rec = {"seq": sim.next_seq(), "t": sim.clock, "name": self.name, "server": self.server, "type": self.type, "timeout_ms": timeout,
               "zc": getattr(zc, "idx", None), "zc_closed": bool(getattr(zc, "close_calls", 0)), "t_end": None, "outcome": None}
        w.requests.append(rec)
        w.ev("request", self.name, rec["zc"])
        if rec["zc_closed"]:
            zc.used_after_close += 1
        ans = w.answers.get(host, "none")
        if rec["zc_closed"] and ans != "hang" and not isinstance(ans, BaseException):
            ans = "none"        # python-zeroconf: a shut-down instance neither sends nor receives; the request runs into its timeout
        delay = 0.05
        if isinstance(ans, dict) and "delay" in ans:
            delay = ans["delay"]
        if ans in ("none", "hang"):
            delay = timeout / 1000.0 if ans == "none" else None
        if isinstance(ans, dict) and ans.get("incomplete"):
            delay = timeout / 1000.0
        fut = sim.loop.create_future()
        if delay is not None:
            sim.net.at(sim.clock + delay, lambda: fut.done() or fut.set_result(None))
        try:
            await fut
        except BaseException:
            rec["outcome"] = "cancelled"
            rec["t_end"] = sim.clock
            raise
        rec["t_end"] = sim.clock
        if ans == "none":
            rec["outcome"] = "none"
            return False
        if isinstance(ans, dict) and ans.get("incomplete"):
            # python-zeroconf reports a request complete only once SRV/TXT have been seen too; with `server=` given, the A/AAAA records
            # it did receive are loaded into the ServiceInfo although async_request() returns False
            rec["outcome"] = "incomplete-with-addresses"
            self._v4 = [_zc_ip(x) for x in ans.get("v4", [])]
            self._v6 = [_zc_ip(x) for x in ans.get("v6", [])]
            return False
        if isinstance(ans, BaseException):
            rec["outcome"] = "raise"
            raise ans
        rec["outcome"] = "found"
        self._v4 = [_zc_ip(x) for x in ans.get("v4", [])]
        self._v6 = [_zc_ip(x) for x in ans.get("v6", [])]
        return True

    def ip_addresses_by_version(self, version: Any) -> list[Any]:
        n = getattr(version, "name", str(version))
        if n == "V4Only":
            return list(self._v4)
        if n == "V6Only":
            return list(self._v6)
        return list(self._v4) + list(self._v6)

    # older / alternative accessors: present so that a library edit using them is still served faithfully
    def parsed_scoped_addresses(self, version: Any = None) -> list[str]:
        return [str(x) for x in self.ip_addresses_by_version(version if version is not None else "All")]

    def parsed_addresses(self, version: Any = None) -> list[str]:
        return [str(x).partition("%")[0] for x in self.ip_addresses_by_version(version if version is not None else "All")]


class MdnsPatch:
    """Context manager: bind the doubles into the library's modules for the duration of one scenario."""

    def __init__(self, sim: Any) -> None:
        self.world = MdnsWorld(sim)
        self._saved: list[tuple[Any, str, Any]] = []

    def __enter__(self) -> MdnsWorld:
        global WORLD
        from aioesphomeapi import host_resolver as hr
        from aioesphomeapi import zeroconf as zm

        WORLD = self.world
        for mod, name, new in ((zm, "AsyncZeroconf", FakeAsyncZeroconf), (zm, "Zeroconf", FakeZeroconf), (hr, "AsyncServiceInfo", FakeServiceInfo)):
            self._saved.append((mod, name, getattr(mod, name)))
            setattr(mod, name, new)
        return self.world

    def __exit__(self, *exc: Any) -> None:
        global WORLD
        for mod, name, old in self._saved:
            setattr(mod, name, old)
        WORLD = None

"""Connection-lifecycle scenarios shared by C05 / C07 / C08 / C09 (engine S).

A scenario = a JSON-serialisable spec: client configuration, simulated device
behaviour, a small "user program" (sequence of API calls) and a list of faults,
each placed at an injection point:

  {"k": iteration, "where": index|"timer"}  a user action inserted into the loop's ready queue
                                             before iteration k at that index (or as zero-delay timer)
  {"k": iteration, "where": "net"}           a network event made visible before iteration k's select
  {"t": virtual time}                        either kind at an absolute virtual time

run(spec) executes it on the real library and returns an Obs with everything the
monitors recorded, including resource audits taken at the first end-of-instant
after each connection's CLOSED write and at the end of the scenario.
"""

from __future__ import annotations

import asyncio
import base64
import hashlib
from typing import Any

from vf import refcodec
from vf.sim.device import DeviceConfig, DeviceConn
from vf.sim.scenario import Sim

PSK = bytes(range(32))
PSK_B64 = base64.b64encode(PSK).decode()

USER_FAULTS = ("force", "disconnect", "cancel", "cmd", "reuse")
NET_FAULTS = ("eof", "rst", "etimedout", "garbage01", "garbage", "bad_pb", "peer_disconnect", "sendfail", "writeraise", "silence", "benign")


class Obs:
    """Observations extracted from a finished Sim (plain data + exception objects)."""

    def __init__(self) -> None:
        self.spec: dict[str, Any] = {}
        self.calls: list[Any] = []
        self.conns: list[Any] = []
        self.user_on_stop: list[tuple[int, float, str, bool]] = []
        self.audits: list[dict[str, Any]] = []
        self.final_audit: dict[str, Any] = {}
        self.deliveries: list[tuple[int, float, str, str, Any]] = []
        self.end_reason = ""
        self.iter_info: list[tuple[float, int]] = []
        self.applied: list[dict[str, Any]] = []
        self.loop_exceptions: list[dict[str, Any]] = []
        self.harness_errors: list[str] = []
        self.trace: list[str] = []
        self.dev_conns: list[DeviceConn] = []
        self.transports: list[Any] = []
        self.sockets: list[Any] = []
        self.invariant_breaks: list[str] = []
        self.send_batches: list[dict[str, Any]] = []
        self.t_end = 0.0
        self.client_wedged: str | None = None
        self.stage_at_fault: list[str] = []
        self.reuse_probes: list[dict[str, Any]] = []
        self.lost_not_closed: list[str] = []
        self.lost_events: list[dict[str, Any]] = []   # end-of-instant facts about every transport whose connection_lost was delivered
        self.timer_fired: list[tuple[int, float, str]] = []
        self.stall: dict[str, Any] = {}
        self.peer_disc_handed_over: list[dict[str, Any]] = []   # iteration-boundary facts: a well-formed DisconnectRequest has been read from the socket
        self.session_tag: dict[int, str] = {}   # connection idx -> tag of the stop callback the application passed when it opened that session

    def signature(self) -> str:
        parts: list[Any] = []
        for v in self.conns:
            parts.append(tuple(s[3].name for s in v.states))
            parts.append(tuple(type(f[2]).__name__ for f in v.fatals[:2]))
        for c in self.calls:
            parts.append((c.name, c.outcome, type(c.exc).__name__ if c.exc else None))
        parts.append(tuple(x[3] for x in self.user_on_stop))
        for a in self.applied:
            parts.append((a["kind"], a.get("stage"), a.get("posclass")))
        return hashlib.sha1(repr(parts).encode()).hexdigest()[:16]


def core_start() -> float:
    from vf.sim import core

    return core.START_TIME


def default_spec(**kw: Any) -> dict[str, Any]:
    spec: dict[str, Any] = {
        "framing": "plain",          # plain | noise
        "login": True,
        "password": "pw",
        "expected_name": None,
        "dual": False,               # two addresses (v4 + v6), first one refuses
        "split_connect": False,      # start_connection + finish_connection instead of connect()
        "keepalive": 20.0,
        "device": {},                # DeviceConfig overrides (JSON-able ones)
        "tail": None,                # closing bytes appended to the chunk completing the connect phase: eof|garbage01|garbage|peer_disconnect|bad_pb
        "program": [["connect"], ["sleep", 1.0], ["disconnect"]],
        "traffic": None,             # {"period": s, "count": n}: device emits state/log messages after connect
        "faults": [],
        "address": None,             # override the single address (e.g. an FQDN that goes through simulated DNS)
        "dns": {},                   # host -> [ips] | "hang" | "gaierror" | ["delay", dt, [ips]]
        "tcp": {},                   # ip -> [kind, delay] with kind in refuse|unreach|timeout|hang
        "sockopt_fail": None,        # nodelay | rcvbuf | quickack : setsockopt raising for that option
        "horizon": 400.0,
    }
    spec.update(kw)
    return spec


# ---------------------------------------------------------------------------------------------- running

def _stage(sim: Sim) -> str:
    """Lifecycle stage of the newest connection, for evidence matrices."""
    if not sim.conns:
        return "no-connection"
    v = sim.conns[-1]
    st = v.obj.connection_state.name
    if st == "CONNECTED":
        pend = [c for c in sim.calls if not c.done and c.name not in ("connect", "start", "finish")]
        if any(c.name == "disconnect" for c in pend):
            return "CONNECTED/disconnecting"
        if pend:
            return "CONNECTED/request-pending"
        return "CONNECTED/idle"
    if st == "INITIALIZED":
        return "INITIALIZED/" + ("tcp-pending" if sim.net.sockets else "resolving")
    if st == "SOCKET_OPENED":
        busy = any(not c.done and c.name in ("finish", "connect") for c in sim.calls)
        return "SOCKET_OPENED/" + ("handshaking" if busy and v.obj._frame_helper is not None else "between-phases")  # noqa: SLF001
    if st == "HANDSHAKE_COMPLETE":
        return "HANDSHAKE_COMPLETE/hello-login"
    return st


class Runner:
    def __init__(self, spec: dict[str, Any], trace: bool = False) -> None:
        self.spec = spec
        self.sim = Sim()
        self.sim.trace_on = True
        self.obs = Obs()
        self.obs.spec = spec
        self.cli: Any = None
        self.dev: Any = None
        self.program_task: asyncio.Task[Any] | None = None
        self.silenced = False
        self.last_emitted = "raw"
        self.tags: list[tuple[int, int, str]] = []
        self.reconnect_calls: list[Any] = []

    # ------------------------------------------------------------------ world
    def build(self) -> None:
        sim = self.sim
        spec = self.spec
        dcfg = DeviceConfig()
        if spec["framing"] == "noise":
            dcfg.noise_psk = PSK
        for k, val in spec.get("device", {}).items():
            setattr(dcfg, k, val)
        tail = spec.get("tail")
        if tail:
            dcfg.coalesce_replies = True
            last = "ConnectRequest" if spec["login"] else "HelloRequest"
            orig = getattr(DeviceConn, "_h_" + last)

            def with_tail(conn: DeviceConn, msg: Any) -> None:
                orig(conn, msg)
                self.emit_net(conn, tail, delay=None)

            dcfg.handlers[last] = with_tail
        self.dev = sim.device(dcfg, addresses=("10.0.0.1", "fd00::1"))
        if spec["dual"]:
            # first address of the list refuses after 5 ms, the device listens on the second one
            def policy(sock: Any, addr: Any, prev: Any = sim.net.connect_policy) -> tuple[Any, ...]:
                if addr[0] == "10.0.0.7":
                    return ("refuse", 0.005)
                return prev(sock, addr)
            sim.net.connect_policy = policy
        import socket as _s

        for host, ans in spec.get("dns", {}).items():
            if ans == "gaierror":
                ans = _s.gaierror(_s.EAI_NONAME, "Name or service not known")
            elif isinstance(ans, list) and ans and ans[0] == "delay":
                ans = ("delay", ans[1], ans[2])
            sim.net.dns[host] = ans
        if spec.get("tcp"):
            tcp = spec["tcp"]

            def tcp_policy(sock: Any, addr: Any, prev: Any = sim.net.connect_policy) -> tuple[Any, ...]:
                if addr[0] in tcp:
                    t = tuple(tcp[addr[0]])
                    if t[0] == "ok-then-rst":
                        return (t[0], t[1] if len(t) > 1 else 0.001, self.dev)
                    return t
                return prev(sock, addr)
            sim.net.connect_policy = tcp_policy
        sf = spec.get("sockopt_fail")
        if sf:
            def sockopt_fault(level: int, opt: int, value: Any) -> None:
                if sf == "nodelay" and level == _s.IPPROTO_TCP and opt == _s.TCP_NODELAY:
                    raise OSError(22, "Invalid argument")
                if sf == "rcvbuf" and level == _s.SOL_SOCKET and opt == _s.SO_RCVBUF:
                    raise OSError(105, "No buffer space available")
                if sf == "quickack" and level == _s.IPPROTO_TCP and opt == getattr(_s, "TCP_QUICKACK", -1):
                    raise AttributeError("TCP_QUICKACK")
            sim.net.sockopt_fault = sockopt_fault
        kw: dict[str, Any] = {"keepalive": spec["keepalive"]}
        if spec["framing"] == "noise":
            kw["noise_psk"] = PSK_B64
        if spec.get("expected_name"):
            kw["expected_name"] = spec["expected_name"]
        if spec["dual"]:
            kw["addresses"] = ["10.0.0.7", "fd00::1"]
        if spec.get("addresses"):
            kw["addresses"] = list(spec["addresses"])
        # spec["client_outside_loop"]: the client object is built by synchronous set-up code, before the loop that runs its sessions is running
        self.cli = sim.client(spec.get("address") or None, 6053, spec.get("password"), outside_loop=spec.get("client_outside_loop") or False, **kw)
        if spec.get("traffic"):
            tr = spec["traffic"]

            def start_traffic(conn: DeviceConn, name: str, msg: Any) -> None:
                if name == "SubscribeStatesRequest":
                    for i in range(tr["count"]):
                        conn.send("SensorStateResponse", _delay=tr["period"] * (i + 1), key=7, state=float(i))
                if name == "SubscribeLogsRequest":
                    for i in range(tr["count"]):
                        conn.send("SubscribeLogsResponse", _delay=tr["period"] * (i + 0.5), level=3, message=b"log %d" % i)

            dcfg.on_message = start_traffic

    def on_stop_arg(self) -> Any:
        """The stop callback the 'application' passes: well behaved by default; spec['on_stop_mode'] == 'raises' gives a plain function that
        raises synchronously (an application bug: e.g. a callback with the wrong signature)."""
        sim = self.sim
        # every session gets its own callback object, so that calls can be attributed to the session they were registered for; the tag is
        # tied to the APIConnection constructed next (start_connection builds it in its first, synchronous step)
        tag = f"client#{len(self.tags)}"
        self.tags.append((sim.next_seq(), len(sim.conns), tag))
        mode = self.spec.get("on_stop_mode")
        if mode == "raises":
            def bad_on_stop(expected: bool) -> Any:
                sim.user_on_stop.append((sim.next_seq(), sim.clock, tag, expected))
                sim.log("on_stop", tag + "(raising)", expected)
                raise RuntimeError("application bug inside on_stop")
            return bad_on_stop
        if mode in ("reconnect", "reconnect-after-yield") and len(self.tags) <= int(self.spec.get("reconnects", 1)):
            # the application reacts to the end of a session by opening the next one on the same client object, from inside the stop
            # callback: either at once (before the callback's first suspension, i.e. still inside the closing connection's clean-up) or
            # after having yielded to the loop once
            async def reconnecting_on_stop(expected: bool) -> None:
                sim.user_on_stop.append((sim.next_seq(), sim.clock, tag, expected))
                sim.log("on_stop", tag + "(reconnects)", expected)
                if mode == "reconnect-after-yield":
                    await self.sleep(0.0)
                self.reconnect_calls.append(sim_eager_call(sim, "connect", lambda: self.cli.connect(on_stop=self.on_stop_arg(), login=self.spec["login"])))
            return reconnecting_on_stop
        return sim.on_stop_cb(tag)

    # ------------------------------------------------------------------ user program
    async def sleep(self, dt: float) -> None:
        fut = self.sim.loop.create_future()
        self.sim.net.at(self.sim.clock + dt, lambda: fut.done() or fut.set_result(None))
        await fut

    async def program(self) -> None:
        sim, cli, spec = self.sim, self.cli, self.spec
        spawned = []
        for op in spec["program"]:
            kind = op[0]
            if kind == "connect":
                if spec["split_connect"]:
                    c = sim.call("start", lambda: cli.start_connection(on_stop=self.on_stop_arg()))
                    await c.task
                    if c.outcome != "ok":
                        break
                    c = sim.call("finish", lambda: cli.finish_connection(login=spec["login"]))
                    await c.task
                else:
                    c = sim.call("connect", lambda: cli.connect(on_stop=self.on_stop_arg(), login=spec["login"]))
                    await c.task
                if c.outcome != "ok":
                    break
                if spec.get("drop_client_after_connect"):
                    # fire-and-forget use: the application keeps no reference to the client object once the session is up (it only waits for
                    # the stop callback).  The harness drops its own references too and collects garbage.
                    import gc  # noqa: PLC0415

                    self.cli = None
                    cli = None
                    gc.collect()
            elif kind == "sleep":
                await self.sleep(op[1])
            elif kind in ("request", "spawn"):
                what = op[1]
                if what == "device_info":
                    c = sim.call("device_info", lambda: cli.device_info())
                elif what == "list_entities":
                    c = sim.call("list_entities", lambda: cli.list_entities_services())
                else:
                    raise ValueError(what)
                if kind == "request":
                    await c.task
                else:
                    spawned.append(c)
            elif kind == "subscribe":
                try:
                    if op[1] == "states":
                        cli.subscribe_states(sim.subscriber("states"))
                    elif op[1] == "logs":
                        cli.subscribe_logs(sim.subscriber("logs"))
                    sim.log("subscribed", op[1])
                except Exception as e:  # noqa: BLE001
                    sim.log("subscribe_failed", op[1], type(e).__name__)
            elif kind == "disconnect":
                c = sim.call("disconnect", lambda: cli.disconnect())
                await c.task
            elif kind == "force":
                c = sim.call("force_disconnect", lambda: cli.disconnect(force=True))
                await c.task
            elif kind == "await_all":
                for c in spawned:
                    await c.task
            elif kind == "stall_fill":
                # the device stops reading; the application queues data until the transport's write buffer sits op[1] bytes below its high-water
                # mark (so that the NEXT write - the next program step's request, or the keepalive ping - is the one that crosses it)
                from vf.sim import stall  # noqa: PLC0415

                dconn = self.dev.conns[-1]
                dconn.sock.send_fault = "block"
                try:
                    tr = stall.transport_of(sim, dconn)
                    high = tr.get_write_buffer_limits()[1]
                    reached = stall.fill_write_buffer(cli, tr, high - int(op[1]))
                    sim.log("stall_fill", reached, high)
                    self.obs.stall = {"buffered": reached, "high_water": high}
                except Exception as e:  # noqa: BLE001   (a library that refuses to queue is within its rights; the scenario just goes on)
                    sim.log("stall_fill_refused", type(e).__name__)
                    self.obs.stall = {"refused": repr(e)}
            elif kind == "stall_release":
                self.dev.conns[-1].sock.send_fault = ("rate", int(op[1])) if len(op) > 1 and op[1] else None
            else:
                raise ValueError(kind)
        for c in spawned:
            await c.task

    # ------------------------------------------------------------------ faults
    def emit_net(self, conn: DeviceConn, kind: str, delay: float | None = 0.0) -> bool:
        """Make the device side produce a network-level event. Returns False when not applicable."""
        noise = conn.noise
        ready = conn.can_send_encrypted()
        self.last_emitted = "raw"
        if kind == "eof":
            conn.eof(delay)
        elif kind == "rst":
            conn.rst(delay)
        elif kind == "etimedout":
            conn.rst(delay, exc=TimeoutError(110, "Connection timed out"))   # ETIMEDOUT from the kernel: builtin TimeoutError (= asyncio.TimeoutError)
        elif kind == "garbage01":
            conn.send_raw(b"\x01\x00\x00" if not noise else b"\x00\x00\x01", delay)  # 0x01 preamble to plaintext; plaintext-looking to noise
        elif kind == "garbage":
            if noise and ready:
                self.last_emitted = "noise-frame"
                conn.send_raw(refcodec.enc_noise_outer(bytes(range(40))), delay)  # well-framed, fails authentication
            else:
                conn.send_raw(b"\x42\x13\x37", delay)
        elif kind == "bad_pb":
            if not ready:
                return False
            conn.send_id(25, b"\x0d\x01", delay)  # SensorStateResponse with a truncated fixed32
        elif kind == "peer_disconnect":
            if not ready:
                return False
            conn.send("DisconnectRequest", _delay=delay)
        elif kind == "benign":
            if not ready:
                return False
            conn.send("PingRequest", _delay=delay)
        else:
            raise ValueError(kind)
        return True

    def apply_fault(self, f: dict[str, Any]) -> None:
        sim = self.sim
        kind = f["kind"]
        rec = {"kind": kind, "point": f["point"], "t": sim.clock, "seq": sim.next_seq(), "stage": _stage(sim), "applied": True,
               "posclass": f.get("posclass")}
        sim.log("FAULT", kind, rec["stage"])
        if kind == "force":
            rec["call"] = sim_eager_call(sim, "force_disconnect", lambda: self.cli.disconnect(force=True))
        elif kind == "disconnect":
            rec["call"] = sim_eager_call(sim, "disconnect", lambda: self.cli.disconnect())
        elif kind == "cancel":
            pend = [c for c in sim.calls if not c.done and not c.name.startswith("probe:")]
            if pend:
                sim.cancel(pend[-1])
                rec["target"] = pend[-1].name
            else:
                rec["applied"] = False
        elif kind == "reuse":
            conn = self.cli._connection  # noqa: SLF001
            if conn is None or conn.connection_state.name == "INITIALIZED":
                rec["applied"] = False
            else:
                self.probe_reuse(conn)
        elif kind == "cmd":
            try:
                self.cli.switch_command(1, True)
                rec["result"] = "sent"
            except Exception as e:  # noqa: BLE001
                rec["result"] = type(e).__name__
                rec["exc"] = e
        else:
            conns = self.dev.conns
            conn = conns[-1] if conns else None
            if conn is None or conn.sock.closed:
                rec["applied"] = False
            elif kind == "sendfail":
                conn.sock.send_fault = BrokenPipeError(32, "Broken pipe")
            elif kind == "writeraise":
                tr = [t for t in sim.transports if t._fake is conn.sock]  # noqa: SLF001
                if tr:
                    tr[-1].write_raises = RuntimeError("uvloop-style: unable to perform operation; the handler is closed")
                else:
                    rec["applied"] = False
            elif kind == "silence":
                cfg = self.dev.cfg
                cfg.answer_ping = cfg.answer_hello = cfg.answer_connect = cfg.answer_disconnect = False
                cfg.handlers["DeviceInfoRequest"] = lambda c, m: None
                cfg.handlers["ListEntitiesRequest"] = lambda c, m: None
            elif kind.startswith("chunk:"):
                # several device frames in ONE chunk (closing frame followed by trailing traffic)
                conn.outbox = []
                ok = True
                for item in kind[6:].split(","):
                    if item == "state":
                        conn.send("SensorStateResponse", key=7, state=1.5)
                    elif item == "log":
                        conn.send("SubscribeLogsResponse", level=3, message=b"trailing")
                    elif item == "time_req":
                        conn.send("GetTimeRequest")
                    elif item == "ping_req":
                        conn.send("PingRequest")
                    elif item == "dinfo":
                        conn.send("DeviceInfoResponse", name="dev")
                    elif item == "ldone":
                        conn.send("ListEntitiesDoneResponse")
                    elif item == "dresp":
                        conn.send("DisconnectResponse")
                    elif item == "pong":
                        conn.send("PingResponse")
                    else:
                        ok = self.emit_net(conn, item, delay=None) and ok
                out, conn.outbox = conn.outbox, None
                conn.deliver_items(out, 0.0)
                rec["applied"] = ok
            else:
                # network events take effect "before the select of this iteration": put them into the rx queue now
                ok = self.emit_net_now(conn, kind)
                rec["applied"] = ok
                rec["emitted"] = self.last_emitted
        self.obs.applied.append(rec)

    def probe_reuse(self, conn: Any) -> None:
        """C05: a connection object is good for one attempt only - a second start / an out-of-state finish must raise."""
        sim = self.sim
        st = conn.connection_state.name
        ops = [("start_connection", conn.start_connection)]
        if st != "SOCKET_OPENED":
            ops.append(("finish_connection", lambda: conn.finish_connection(login=False)))
        for op, fn in ops:
            r = sim_eager_call(sim, "probe:" + op, fn)
            self.obs.reuse_probes.append({"op": op, "state": st, "done_synchronously": r.done,
                                          "raised": type(r.exc).__name__ if r.exc is not None else r.outcome,
                                          "state_after": conn.connection_state.name})

    def emit_net_now(self, conn: DeviceConn, kind: str) -> bool:
        """Like emit_net but bypassing the event queue: the bytes are in the socket buffer immediately."""
        # queued at `now`: the select of this very iteration applies due events first, and everything the device
        # emitted earlier for this instant stays ahead of it (TCP ordering)
        return self.emit_net(conn, kind, delay=0.0)

    def schedule_faults(self) -> None:
        sim = self.sim
        if self.spec.get("suspend"):
            # [from, to] in seconds after the scenario's start: the client process is stopped in between (the device and the network are not)
            a, b = self.spec["suspend"]
            sim.suspend_process(sim.start_time + a, sim.start_time + b)
        for f in self.spec["faults"]:
            p = f["point"]
            if "k" in p:
                where = p["where"]
                if where == "net" or f["kind"] in NET_FAULTS:
                    sim.inject(p["k"], "now", lambda f=f: self.apply_fault(f))
                else:
                    sim.inject(p["k"], where, lambda f=f: self.apply_fault(f))
            else:
                if f["kind"] in NET_FAULTS or f["kind"].startswith("chunk:"):
                    sim.net.at(p["t"] - core_start() + sim.start_time, lambda f=f: self.apply_fault(f))
                elif p.get("after_io"):
                    # a user action in the SAME loop iteration as the network events of this instant, but behind them: a zero-delay timer
                    # (asyncio runs ready handles, then I/O callbacks, then due timers)
                    sim.net.at(p["t"] - core_start() + sim.start_time, lambda f=f: sim.loop.call_at(sim.loop.time(), lambda: self.apply_fault(f)))
                else:
                    sim.at(p["t"] - core_start() + sim.start_time, lambda f=f: self.apply_fault(f))

    # ------------------------------------------------------------------ audits
    def audit(self, label: str, view: Any | None) -> dict[str, Any]:
        sim = self.sim
        closed_seq = view.closed_seq if view is not None else None
        a: dict[str, Any] = {"label": label, "conn": None if view is None else view.idx, "t": sim.clock, "seq": sim.next_seq()}
        newer = [v for v in sim.conns if view is not None and v.idx > view.idx]
        if newer:
            # a later session of the same client already exists (opened from the stop callback): its connect call, timeouts and tasks are
            # alive by right.  Charge the closed connection only with what demonstrably belongs to it: timers bound to the connection or
            # its frame helper, and calls entered before the newer session was opened (other than the call that opened it)
            a["shared_loop"] = True
            a["timers"] = sim.live_timers_owned_by((view.obj, getattr(view.obj, "_frame_helper", None)))
            a["tasks"] = []
            a["pending_calls"] = [c.name for c in sim.calls if not c.done and not c.name.startswith("probe:") and c.seq_call is not None
                                  and c.seq_call < newer[0].created_seq
                                  and not (c.name in ("connect", "start") and any(c.seq_call < n.created_seq for n in newer) and c.seq_call > view.created_seq)]
        else:
            a["timers"] = sim.live_timers()
            a["tasks"] = [t for t in sim.pending_tasks() if t != "harness:program"]
            a["pending_calls"] = [c.name for c in sim.calls if not c.done and not c.name.startswith("probe:")]
        cutoff = newer[0].created_seq if newer else None
        a["open_sockets"] = [s.fd for s in sim.net.sockets if not s.closed and (cutoff is None or s.created_seq < cutoff)]
        trs = [t for t in sim.transports if view is None or t._sim_conn is view.obj]  # noqa: SLF001
        a["transports_open"] = [t._sim_id for t in trs if t.sim_close_seq is None and t.sim_lost_seq is None]  # noqa: SLF001
        a["transports_lost_pending"] = [t._sim_id for t in trs if t.sim_lost_seq is None]  # noqa: SLF001
        if closed_seq is not None:
            # (d) judged on bytes the socket accepted after the CLOSED write; mere transport.write attempts (dropped by a closed
            #     transport or refused by the closed socket) are advisory
            a["write_attempts_after_close"] = [(w[0], len(w[2])) for t in trs for w in t.sim_writes if w[0] > closed_seq]
            socks = {id(t._fake): t._fake for t in trs}  # noqa: SLF001
            a["writes_after_close"] = [(w[0], len(w[2])) for sk in socks.values() for w in sk.sent_log if w[0] > closed_seq]
            a["deliveries_after_close"] = [(d[0], d[2], d[3]) for d in sim.deliveries if d[0] > closed_seq] if not newer else []
        return a

    def post_step(self) -> None:
        sim = self.sim
        # invariant at every iteration boundary: is_connected == (state is CONNECTED)
        for v in sim.conns:
            o = v.obj
            if o.is_connected != (o.connection_state.name == "CONNECTED"):
                self.obs.invariant_breaks.append(f"iter {sim.iter}: is_connected={o.is_connected} state={o.connection_state.name}")
        # boundary observation: the client's socket has handed over the device's stream up to and including a well-formed DisconnectRequest frame,
        # and at the end of that loop iteration the connection is still CONNECTED - the device's request reached the library before the close
        for dc in (self.dev.conns if self.dev is not None else []):
            done = getattr(dc, "_vf_disc_seen", 0)
            while done < len(dc.disc_req_ends) and dc.sock.rx_consumed >= dc.disc_req_ends[done][0]:
                end, put_seq = dc.disc_req_ends[done]
                done += 1
                tr = [t for t in sim.transports if t._fake is dc.sock]  # noqa: SLF001
                c = tr[-1]._sim_conn if tr else None  # noqa: SLF001
                view = next((v for v in sim.conns if v.obj is c), None)
                if view is not None and view.connected_seq is not None and view.connected_seq < put_seq \
                        and not any(view.connected_seq < x < put_seq for x in dc.taints):
                    self.obs.peer_disc_handed_over.append({"conn": view.idx, "seq": sim.next_seq(), "state": c.connection_state.name, "t": sim.clock})
            dc._vf_disc_seen = done  # type: ignore[attr-defined]
        # a transport whose connection_lost was delivered is a close cause: at the end of that instant the connection must be CLOSED
        if sim.end_of_instant():
            for t in sim.transports:
                if t.sim_lost_seq is not None and not getattr(t, "_vf_lost_checked", False):
                    t._vf_lost_checked = True  # type: ignore[attr-defined]
                    c = t._sim_conn  # noqa: SLF001
                    if c is not None:
                        self.obs.lost_events.append({"t": sim.clock, "seq": sim.next_seq(), "lost_seq": t.sim_lost_seq, "state": c.connection_state.name,
                                                     "pending_calls": [(x.name, x.t_call) for x in sim.calls if not x.done and not x.name.startswith("probe:")
                                                                       and x.seq_call is not None and x.seq_call < t.sim_lost_seq]})
                    if c is not None and c.connection_state.name != "CLOSED":
                        self.obs.lost_not_closed.append(f"t={sim.clock:.6f}: transport {t._sim_id} lost, connection still {c.connection_state.name}")  # noqa: SLF001
        pend = [v for v in sim.conns if v.closed_seq is not None and not v.audited]
        if pend and sim.end_of_instant():
            for v in pend:
                v.audited = True
                self.obs.audits.append(self.audit("after-close", v))

    # ------------------------------------------------------------------ run
    def run(self) -> Obs:
        sim = self.sim
        obs = self.obs
        with sim:
            self.build()
            sim.post_step.append(self.post_step)
            self.schedule_faults()
            self.program_task = sim.loop.create_task(self.program(), name="harness:program")
            end = sim.run(max_time=sim.clock + self.spec["horizon"])
            obs.end_reason = end
            # second chance for pending audits (e.g. closed in the last instant)
            sim.settle()
            self.post_step()
            obs.final_audit = self.audit("final", sim.conns[-1] if sim.conns else None)
            obs.t_end = sim.clock
            # C19-style probe (recorded, judged by C19): can the client start again?
            obs.client_wedged = None
            if self.cli is not None and self.cli._connection is not None and not any(not c.done for c in sim.calls):  # noqa: SLF001
                st = self.cli._connection.connection_state.name  # noqa: SLF001
                if st == "CLOSED":
                    obs.client_wedged = "client still holds a CLOSED connection after all calls returned"
            for v in sim.conns:
                if v.obj.connection_state.name != "INITIALIZED":
                    self.probe_reuse(v.obj)
            sim.settle()
            obs.applied.sort(key=lambda a: a["seq"])
            obs.calls = [c for c in sim.calls if not c.name.startswith("probe:")]
            obs.conns = list(sim.conns)
            obs.user_on_stop = list(sim.user_on_stop)
            for v in sim.conns:
                before = [t for t in self.tags if t[0] < v.created_seq]
                if before and before[-1][1] == v.idx:
                    obs.session_tag[v.idx] = before[-1][2]
            obs.deliveries = list(sim.deliveries)
            obs.iter_info = list(sim.iter_info)
            obs.loop_exceptions = list(sim.loop_exceptions)
            obs.harness_errors = list(sim.harness_errors)
            obs.dev_conns = list(self.dev.conns)
            obs.transports = list(sim.transports)
            obs.sockets = list(sim.net.sockets)
            obs.send_batches = list(sim.send_batches)
            obs.timer_fired = list(sim.timer_fired)
            obs.trace = sim.trace(400)
            if self.program_task.done() and not self.program_task.cancelled() and self.program_task.exception():
                obs.harness_errors.append(f"program: {self.program_task.exception()!r}")
        return obs


def sim_eager_call(sim: Sim, name: str, factory: Any) -> Any:
    """Start an API coroutine so that its first step runs synchronously at the injection point."""
    from vf.sim.scenario import CallRec

    rec = CallRec(name, sim.clock, sim.next_seq())
    sim.log("call", name)

    async def runner() -> None:
        try:
            rec.result = await factory()
            rec.outcome = "ok"
        except asyncio.CancelledError as e:
            rec.exc = e
            rec.outcome = "cancelled"
        except BaseException as e:  # noqa: BLE001
            rec.exc = e
            rec.outcome = "raised"
        finally:
            rec.t_ret = sim.clock
            rec.seq_ret = sim.next_seq()
            rec.done = True
            sim.log("ret", name, rec.outcome, type(rec.exc).__name__ if rec.exc else None)

    sim.calls.append(rec)
    rec.task = asyncio.Task(runner(), loop=sim.loop, name=f"harness:{name}", eager_start=True)
    return rec


def run(spec: dict[str, Any]) -> Obs:
    return Runner(spec).run()


# ---------------------------------------------------------------------------------------------- enumeration

def injection_points(base: Obs, user: bool) -> list[dict[str, Any]]:
    """All (k, where) of a baseline run, plus mid-wait instants."""
    pts: list[dict[str, Any]] = []
    info = base.iter_info
    for k, (t, nready) in enumerate(info):
        if user:
            for w in range(nready + 1):
                pts.append({"k": k, "where": w})
            pts.append({"k": k, "where": "timer"})
        else:
            pts.append({"k": k, "where": "net"})
    # midpoints of waits
    times = sorted({t for t, _ in info})
    for a, b in zip(times, times[1:]):
        if b - a > 1e-6:
            pts.append({"t": (a + b) / 2})
    return pts


def posclass(p: dict[str, Any]) -> str:
    if "t" in p:
        return "mid-wait"
    w = p["where"]
    if w == "net":
        return "net"
    if w == "timer":
        return "timer"
    return "ready[0]" if w == 0 else "ready[>0]"

"""Class-boundary call log on APIClient.start_connection / finish_connection / disconnect: every invocation (incl. those made by
connect() and by ReconnectLogic) is recorded at enter and at return with the Sim's sequence number and virtual time."""

from __future__ import annotations

import functools
from typing import Any

_installed = False
LOG: list[tuple[Any, ...]] | None = None
SIM: Any = None


def install() -> None:
    global _installed
    if _installed:
        return
    _installed = True
    from aioesphomeapi import APIClient

    def wrap(name: str) -> None:
        orig = getattr(APIClient, name)

        @functools.wraps(orig)
        async def w(self: Any, *a: Any, **k: Any) -> Any:
            log, sim = LOG, SIM
            if log is None:
                return await orig(self, *a, **k)
            tok = len(log)
            log.append((sim.next_seq(), sim.clock, "enter", name, tok, a, k))
            sim.log("cli_enter", name)
            try:
                r = await orig(self, *a, **k)
            except BaseException as e:
                log.append((sim.next_seq(), sim.clock, "ret", name, tok, "raised", e))
                sim.log("cli_ret", name, type(e).__name__)
                raise
            log.append((sim.next_seq(), sim.clock, "ret", name, tok, "ok", None))
            sim.log("cli_ret", name, "ok")
            return r

        setattr(APIClient, name, w)

    for n in ("start_connection", "finish_connection", "disconnect"):
        wrap(n)


class Recording:
    def __init__(self, sim: Any) -> None:
        self.sim = sim
        self.log: list[tuple[Any, ...]] = []

    def __enter__(self) -> list[tuple[Any, ...]]:
        global LOG, SIM
        install()
        LOG, SIM = self.log, self.sim
        return self.log

    def __exit__(self, *exc: Any) -> None:
        global LOG, SIM
        LOG, SIM = None, None

"""Always-on monitors for engine S, attached from outside the repository.

* state watcher: the slot descriptors APIConnection.connection_state / is_connected /
  _handshake_complete / _expected_disconnect are replaced by data descriptors that
  delegate to the original member descriptors and log every write.
* class-level wrappers on APIConnection methods (report_fatal_error, send_messages,
  _add_message_callback_without_remove, process_packet, disconnect, force_disconnect).

All events go to the Sim that is current (vf.sim.scenario.CURRENT); with no current
Sim the wrappers are transparent.
"""

from __future__ import annotations

import functools
from typing import Any

_installed = False
CURRENT: Any = None  # set by Sim.__enter__


class _Watch:
    def __init__(self, name: str, orig: Any) -> None:
        self.name = name
        self.orig = orig

    def __get__(self, obj: Any, objtype: Any = None) -> Any:
        if obj is None:
            return self
        return self.orig.__get__(obj, objtype)

    def __set__(self, obj: Any, value: Any) -> None:
        sim = CURRENT
        if sim is not None:
            try:
                old = self.orig.__get__(obj, type(obj))
            except AttributeError:
                old = None
            sim.on_slot_write(obj, self.name, old, value)
        self.orig.__set__(obj, value)

    def __delete__(self, obj: Any) -> None:
        self.orig.__delete__(obj)


def install() -> None:
    global _installed
    if _installed:
        return
    _installed = True
    from aioesphomeapi import connection as C

    cls = C.APIConnection
    for name in ("connection_state", "is_connected", "_handshake_complete", "_expected_disconnect", "_fatal_exception"):
        orig = cls.__dict__[name]
        setattr(cls, name, _Watch(name, orig))

    def wrap(name: str, before: Any = None, after: Any = None) -> None:
        orig = getattr(cls, name)

        @functools.wraps(orig)
        def w(self: Any, *a: Any, **k: Any) -> Any:
            sim = CURRENT
            if sim is None:
                return orig(self, *a, **k)
            if before:
                before(sim, self, *a, **k)
            try:
                r = orig(self, *a, **k)
            except BaseException as e:
                if after:
                    after(sim, self, e, True)
                raise
            if after:
                after(sim, self, r, False)
            return r

        setattr(cls, name, w)

    wrap("report_fatal_error", before=lambda sim, c, err: sim.on_fatal(c, err),
         after=lambda sim, c, r, raised: sim.on_fatal_done(c, raised))
    wrap("send_messages", before=lambda sim, c, msgs: sim.on_send_enter(c, msgs),
         after=lambda sim, c, r, raised: sim.on_send_exit(c, r, raised))
    wrap("_add_message_callback_without_remove", before=lambda sim, c, cb, types: sim.on_subscribe(c, cb, types))
    wrap("process_packet", before=lambda sim, c, t, d: sim.on_packet(c, t, d),
         after=lambda sim, c, r, raised: sim.on_packet_done(c, r, raised))
    wrap("force_disconnect", before=lambda sim, c: sim.on_disc_enter(c, "force"))

    orig_init = cls.__init__

    @functools.wraps(orig_init)
    def __init__(self: Any, params: Any, on_stop: Any, *a: Any, **k: Any) -> None:
        sim = CURRENT
        if sim is not None and on_stop is not None:
            user = on_stop

            def rec_on_stop(expected: bool) -> Any:
                sim.on_conn_stop(self, expected)
                return user(expected)

            on_stop = rec_on_stop
        orig_init(self, params, on_stop, *a, **k)
        if sim is not None:
            sim.view(self)

    cls.__init__ = __init__  # type: ignore[method-assign]

    orig_disc = cls.disconnect

    @functools.wraps(orig_disc)
    async def disconnect(self: Any) -> None:
        sim = CURRENT
        if sim is not None:
            sim.on_disc_enter(self, "disconnect")
        return await orig_disc(self)

    cls.disconnect = disconnect  # type: ignore[method-assign]

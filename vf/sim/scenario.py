"""Sim: one deterministic simulated world (loop + net + recorder) for engine S."""

from __future__ import annotations

import asyncio
import socket as real_socket
import sys
import warnings
from typing import Any, Callable

from vf import logcfg
from vf.sim import core, rotation, monitors
from vf.sim.device import DeviceConfig, SimDevice

MAX_STEPS = 100000

# Passive direction monitor (C13), fed by EVERY simulated world of the process: message types the independent device decoded from the
# client's bytes, and message types the client subscribed to.  name -> count; the first offending observation keeps its trace.
DIRECTION_SENT: dict[str, int] = {}
DIRECTION_SUBSCRIBED: dict[str, int] = {}
DIRECTION_FLAGS: list[dict[str, Any]] = []
_CLIENTS_MADE = 0


class CallRec:
    __slots__ = ("name", "t_call", "seq_call", "t_ret", "seq_ret", "result", "exc", "outcome", "task", "done",
                 "cancel_requested", "meta")

    def __init__(self, name: str, t: float, seq: int) -> None:
        self.name = name
        self.t_call = t
        self.seq_call = seq
        self.t_ret: float | None = None
        self.seq_ret: int | None = None
        self.result: Any = None
        self.exc: BaseException | None = None
        self.outcome = "pending"
        self.task: asyncio.Task[Any] | None = None
        self.done = False
        self.cancel_requested = False
        self.meta: dict[str, Any] = {}

    def brief(self) -> dict[str, Any]:
        return {"op": self.name, "t_call": round(self.t_call, 6), "t_ret": None if self.t_ret is None else round(self.t_ret, 6),
                "outcome": self.outcome, "exc": None if self.exc is None else f"{type(self.exc).__name__}: {str(self.exc)[:120]}"}


class ConnView:
    """What the monitors know about one APIConnection object."""

    def __init__(self, idx: int, obj: Any) -> None:
        self.idx = idx
        self.obj = obj
        self.states: list[tuple[int, float, Any, Any]] = []     # (seq, t, old, new)
        self.closed_seq: int | None = None
        self.closed_t: float | None = None
        self.connected_seq: int | None = None
        self.fatals: list[tuple[int, float, BaseException]] = []
        self.fatal_returns: list[tuple[int, float, str, bool]] = []  # state of the connection when report_fatal_error returned (or raised)
        self.fatal_sets: list[tuple[int, float, Any, Any]] = []     # every write of a non-None value to _fatal_exception: (seq, t, old, new)
        self.on_stop: list[tuple[int, float, Any]] = []
        self.graceful: list[tuple[int, str, Any]] = []           # (seq, kind, state at that moment)
        self.audited = False
        self.subscribed: list[tuple[int, tuple[str, ...]]] = []
        self.sent_types: list[tuple[int, tuple[str, ...]]] = []
        self.bad_transitions: list[str] = []
        self.expected_writes: list[tuple[int, Any, Any]] = []
        self.created_seq = 0
        self.packets: list[tuple[int, int, str]] = []              # (seq, type id, state when handed to process_packet)


DEFAULT_V4, DEFAULT_V6 = "10.0.0.1", "fd00::1"


class Sim:
    def __init__(self, seed: int = 0, start: float | None = None) -> None:
        self.seed = seed
        if start is None:
            # where on the clock a scenario starts rotates: a whole second, a fraction, a process that has been up for a day / a month (float
            # spacing of loop.time() grows; code that rounds, truncates or aligns deadlines behaves differently).  Scenarios speak in offsets
            # from `start_time`; absolute instants in lifecycle specs are relative to core.START_TIME and shifted when they are scheduled.
            start = rotation.decide("clock_start", (core.START_TIME, core.START_TIME, 1000.625, core.START_TIME, 2592000.75, core.START_TIME, 86399.9995))
            self._start_rotated = True
        self.start_time = start
        self.clock = start
        self._seq = 0
        self.ev: list[tuple[Any, ...]] = []
        self.trace_on = True
        self.net = core.SimNet(self)
        self.loop = core.SimLoop(self)
        self.transports: list[core.SimTransport] = []
        self.transport_write_raises: BaseException | None = None
        self.calls: list[CallRec] = []
        self.conns: list[ConnView] = []
        self._conn_by_id: dict[int, ConnView] = {}
        self.loop_exceptions: list[dict[str, Any]] = []
        self.iter = 0
        self.iter_info: list[tuple[float, int]] = []   # (time, len(_ready)) before each iteration
        self.injections: dict[int, list[tuple[Any, Callable[[], None]]]] = {}
        self.deliveries: list[tuple[int, float, str, str, Any]] = []  # (seq, t, subscriber id, type name, value)
        self.devices: list[SimDevice] = []
        self.post_step: list[Callable[[], None]] = []
        self.in_packet = 0
        self.send_stack: list[dict[str, Any]] = []
        self.send_batches: list[dict[str, Any]] = []
        self.idle = False
        self._entered = False
        self._old_impl_socket: Any = None
        self.user_on_stop: list[tuple[int, float, str, bool]] = []
        self.packet_hook: Any = None
        self.timer_fired: list[tuple[int, float, str]] = []    # (seq, t, callback name) of every loop timer that ran
        self.suspend_from = 0.0
        self.suspend_until: float | None = None
        self._packet_starts: list[int] = []
        self.packet_spans: list[tuple[int, int]] = []
        self.harness_errors: list[str] = []
        self.debug_clients = 0
        self.idle_loops: list[Any] = []
        self.loop.set_exception_handler(self._exc_handler)

    # ------------------------------------------------------------------ plumbing
    def next_seq(self) -> int:
        self._seq += 1
        return self._seq

    def log(self, kind: str, *data: Any) -> None:
        if self.trace_on:
            self.ev.append((self._seq, self.clock, kind, *data))

    def _exc_handler(self, loop: Any, context: dict[str, Any]) -> None:
        self.loop_exceptions.append({"seq": self._seq, "t": self.clock, "message": context.get("message"),
                                     "exception": repr(context.get("exception"))})
        self.log("loop_exception", context.get("message"), repr(context.get("exception")))

    def idle_loop_work(self) -> list[str]:
        """Callbacks and timers the library parked on a loop that never runs (the one current when a client was constructed)."""
        out = []
        for lp in self.idle_loops:
            out += [repr(h)[:160] for h in list(lp._ready) + list(lp._scheduled) if not h.cancelled()]  # noqa: SLF001
        return out

    def __enter__(self) -> "Sim":
        import aiohappyeyeballs.impl as impl

        monitors.install()
        rotation.new_case()
        if getattr(self, "_start_rotated", False):
            rotation.LAST.setdefault("clock_start", []).append(self.start_time)   # (decided in __init__, before this case's record was opened)
        logcfg.set_debug(False)
        monitors.CURRENT = self
        # the monotonic clocks of the process follow the simulated loop clock while a scenario runs (vf/simclock.py)
        from vf import simclock as _simclock

        _simclock.install()
        _simclock.CURRENT = self
        self._old_impl_socket = impl.socket
        impl.socket = core.make_socket_shim(self.net)
        asyncio.set_event_loop(self.loop)
        self.loop.sim_enter()
        # one scenario in eight runs with the loop in debug mode (PYTHONASYNCIODEBUG=1 / loop.set_debug(True)): source tracebacks on handles and
        # tasks, thread checks in call_soon, the extra logging - production code must not behave differently there
        self.loop.set_debug(bool(rotation.decide("loop_debug", (False, False, False, False, False, False, False, True))))
        # one scenario in four makes all its harness calls from INSIDE an exception handler (clean-up or fallback code in an `except` body:
        # sys.exc_info() is not empty anywhere in the await chain while the library runs) - the state of the calling task is the caller's business
        self.caller_handling = rotation.decide("caller_handling_exception", ("no", "no", "no", "TimeoutError", "no", "no", "no", "OSError"))
        self._entered = True
        return self

    def __exit__(self, *exc: Any) -> None:
        import aiohappyeyeballs.impl as impl

        try:
            self._harvest_direction()
        except Exception:  # noqa: BLE001
            pass
        try:
            # let cancelled leftovers unwind so that no "never awaited"/"pending task destroyed" noise leaks into the next case
            pending = [t for t in asyncio.all_tasks(self.loop) if not t.done()]
            for t in pending:
                t.cancel()
            for _ in range(50):
                if not [t for t in pending if not t.done()]:
                    break
                try:
                    self.loop._run_once()  # noqa: SLF001
                except core.SimDeadlock:
                    break
            for t in pending:
                if t.done() and not t.cancelled():
                    t.exception()
        finally:
            from vf import simclock as _simclock

            _simclock.CURRENT = None
            self.loop.sim_exit()
            impl.socket = self._old_impl_socket
            monitors.CURRENT = None
            asyncio.set_event_loop(None)
            with warnings.catch_warnings():
                warnings.simplefilter("ignore")
                for lp in self.idle_loops:
                    for h in list(lp._ready) + list(lp._scheduled):  # noqa: SLF001
                        h.cancel()
                    lp.close()
                self.loop.close()

    def _harvest_direction(self) -> None:
        for dev in self.devices:
            for c in dev.conns:
                for r in c.received:
                    name = r["name"] or f"#{r['id']}"
                    DIRECTION_SENT[name] = DIRECTION_SENT.get(name, 0) + 1
                    m = dev.proto.by_id.get(r["id"])
                    if (m is None or m.source == "SOURCE_SERVER") and len(DIRECTION_FLAGS) < 20:
                        DIRECTION_FLAGS.append({"kind": "sent", "type": name, "trace": self.trace(60)})
        proto = self.devices[0].proto if self.devices else None
        for v in self.conns:
            for _seq, names in v.subscribed:
                for name in names:
                    DIRECTION_SUBSCRIBED[name] = DIRECTION_SUBSCRIBED.get(name, 0) + 1
                    m = proto.messages.get(name) if proto is not None else None
                    if proto is not None and (m is None or m.id is None or m.source == "SOURCE_CLIENT") and len(DIRECTION_FLAGS) < 20:
                        DIRECTION_FLAGS.append({"kind": "subscribed", "type": name, "trace": self.trace(60)})

    # ------------------------------------------------------------------ time / stepping
    @property
    def now(self) -> float:
        return self.clock

    def at(self, t: float, fn: Callable[[], None]) -> None:
        """Run fn (as a loop callback) at virtual time t."""
        self.net.at(t, lambda: self.loop.call_soon(fn))

    def after(self, dt: float, fn: Callable[[], None]) -> None:
        self.at(self.clock + dt, fn)

    def inject(self, k: int, where: Any, fn: Callable[[], None]) -> None:
        """Before loop iteration k: insert fn into the ready queue at index `where`, or as zero-delay timer ('timer')."""
        self.injections.setdefault(k, []).append((where, fn))

    def step(self) -> bool:
        """One event-loop iteration. Returns False when nothing can ever happen again."""
        loop = self.loop
        k = self.iter
        inj = self.injections.pop(k, None)
        if inj:
            for where, fn in inj:
                if where == "timer":
                    loop.call_at(loop.time(), fn)
                elif where == "now":
                    fn()
                else:
                    h = asyncio.Handle(fn, (), loop)
                    ready = loop._ready  # noqa: SLF001
                    ready.insert(min(int(where), len(ready)), h)
        self.iter_info.append((self.clock, len(loop._ready)))  # noqa: SLF001
        self.iter += 1
        try:
            loop._run_once()  # noqa: SLF001
        except core.SimDeadlock:
            self.idle = True
            self.iter -= 1
            self.iter_info.pop()
            return False
        self.idle = False
        for fn in self.post_step:
            fn()
        return True

    def suspend_process(self, t_from: float, t_to: float) -> None:
        """The client process does not run between virtual times t_from and t_to (the simulated world does)."""
        def arm() -> None:
            self.suspend_from, self.suspend_until = t_from, t_to
        self.net.at(t_from, arm)

    def burn(self, dt: float) -> None:
        """Called from inside an application callback: the callback takes dt seconds (a blocking call, a slow computation).  The loop's clock and
        the process's monotonic clocks move; the world goes on meanwhile and is seen when the callback returns."""
        self.clock += dt

    def small_step(self, dt: float = 1e-4) -> bool:
        """One event-loop iteration during which virtual time advances by at most dt (step() alone jumps to the next timer, e.g. the keepalive)."""
        self.net.at(self.clock + dt, lambda: None)
        return self.step()

    def run(self, until: Callable[[], bool] | None = None, max_time: float | None = None, max_steps: int = MAX_STEPS) -> str:
        """Step until `until()` holds, virtual time passes max_time, the world is idle forever, or the step cap."""
        if max_time is not None:
            self.net.at(max_time, lambda: None)
        for _ in range(max_steps):
            if until is not None and until():
                return "until"
            if max_time is not None and self.clock >= max_time and self.end_of_instant():
                return "time"
            if not self.step():
                return "idle"
        return "steps"

    def run_for(self, dt: float, **kw: Any) -> str:
        return self.run(max_time=self.clock + dt, **kw)

    def settle(self, max_steps: int = 2000) -> str:
        """Run until the current instant is over (nothing more can happen without time passing)."""
        for _ in range(max_steps):
            if self.end_of_instant():
                return "settled"
            if not self.step():
                return "idle"
        return "steps"

    def end_of_instant(self) -> bool:
        loop = self.loop
        if loop._ready:  # noqa: SLF001
            return False
        now = self.clock
        nt = self.net.next_time()
        if nt is not None and nt <= now:
            return False
        sched = loop._scheduled  # noqa: SLF001
        for h in sched:
            if not h._cancelled and h._when <= now + 1e-9:  # noqa: SLF001
                return False
        sel = loop._selector  # noqa: SLF001
        return not sel._ready()  # noqa: SLF001

    # ------------------------------------------------------------------ world building
    def device(self, cfg: DeviceConfig | None = None, addresses: tuple[str, ...] | None = None, delay: float = 0.001) -> SimDevice:
        dev = SimDevice(self, cfg)
        self.devices.append(dev)
        prev = self.net.connect_policy
        # (a device placed at the default address is reachable over IPv4 and over IPv6: clients built with the default address rotate between them)
        addrs = set(addresses if addresses is not None else (DEFAULT_V4, DEFAULT_V6))

        def policy(sock: Any, addr: Any) -> tuple[Any, ...]:
            if addr[0] in addrs:
                return ("ok", delay, dev)
            return prev(sock, addr)

        self.net.connect_policy = policy
        return dev

    def client(self, address: str | None = None, port: int = 6053, password: str | None = None, *, outside_loop: Any = False,
               debug: bool | None = None, **kw: Any) -> Any:
        from aioesphomeapi import APIClient

        if address is None:
            # the address family of a session is a harness choice that rotates: an IPv6 peer has 4-tuple socket addresses (host, port, flowinfo,
            # scope id) everywhere - getpeername(), get_extra_info("peername"), what is handed to connect()
            address = DEFAULT_V6 if rotation.decide("address_family", ("v4", "v4", "v6")) == "v6" else DEFAULT_V4

        global _CLIENTS_MADE
        _CLIENTS_MADE += 1
        # every 4th client of the process (or as the scenario says) runs with the library's logger at DEBUG and its debug flag on: the
        # debug-only branches (extra logging, but also control flow that differs, e.g. in the keep-alive sender) are code under test
        debug_ = rotation.decide("client_debug", (False, False, False, True)) if debug is None else rotation.record("client_debug_fixed", bool(debug))
        # (with debug on, every other time one module of the package is kept at INFO: the package's loggers disagree about DEBUG)
        quiet = ()
        if debug_ and debug is None:
            quiet = rotation.decide("quiet_module_under_debug", ((), ("aioesphomeapi.connection",), (), ("aioesphomeapi._frame_helper.base",)))
        logcfg.set_debug(bool(debug_), tuple(quiet))   # the logger level at construction decides the client's debug flag, as in production
        if outside_loop:
            # the application builds its client in synchronous set-up code and only then starts the loop that runs the connection
            # (`client = APIClient(...)` followed by `asyncio.run(main())`): whatever loop is current at construction is NOT the one
            # that will run; work the library schedules on it is never executed (monitored by idle_loop_work())
            other = asyncio.new_event_loop()
            self.idle_loops.append(other)
            running = asyncio._get_running_loop()  # noqa: SLF001
            asyncio._set_running_loop(None)  # noqa: SLF001  -- synchronous code: no loop is running while the object is built
            asyncio.set_event_loop(other)
            try:
                cli = APIClient(address, port, password, **kw)
            finally:
                asyncio.set_event_loop(self.loop)
                asyncio._set_running_loop(running)  # noqa: SLF001
            if outside_loop == "closed-loop":
                # ... or it was built inside an earlier asyncio.run() of the process (`client = asyncio.run(make_client())`, a set-up phase with its
                # own loop): the loop current at construction has finished and is closed by the time the sessions run
                self.idle_loops.remove(other)
                other.close()
        else:
            cli = APIClient(address, port, password, **kw)
        cli.set_debug(bool(debug_))
        if debug_:
            self.debug_clients += 1
        # a display name the application knows the device by (it only ever appears in log lines and error texts): one client in four gets one
        # with characters that are special to %-formatting, str.format and regular expressions
        if rotation.decide("cached_display_name", ("none", "none", "special-characters", "none")) == "special-characters":
            try:
                cli.set_cached_name_if_unset("boiler 50% duty %s {0} (a|b) \\d")
            except AttributeError:
                pass
        return cli

    # ------------------------------------------------------------------ harness calls
    def call(self, name: str, factory: Callable[[], Any], eager: bool = False, **meta: Any) -> CallRec:
        """eager=True: the coroutine's first step runs synchronously, here (what asyncio.eager_task_factory / create_eager_task do) - e.g. from
        inside a library callback, while the library is still dispatching the message that triggered it."""
        rec = CallRec(name, self.clock, self.next_seq())
        rec.meta = meta
        self.log("call", name)

        async def runner() -> None:
            # the API call is entered now (the task's first step), not when the task was created
            rec.t_call = self.clock
            rec.seq_call = self.next_seq()
            try:
                amb = getattr(self, "caller_handling", "no")
                if amb == "no":
                    rec.result = await factory()
                else:
                    try:
                        raise (TimeoutError if amb == "TimeoutError" else OSError)("the caller is handling this one")
                    except (TimeoutError, OSError):
                        rec.result = await factory()
                rec.outcome = "ok"
            except asyncio.CancelledError as e:
                rec.exc = e
                rec.outcome = "cancelled"
            except BaseException as e:  # noqa: BLE001
                rec.exc = e
                rec.outcome = "raised"
            finally:
                rec.t_ret = self.clock
                rec.seq_ret = self.next_seq()
                rec.done = True
                self.log("ret", name, rec.outcome, type(rec.exc).__name__ if rec.exc else None)

        self.calls.append(rec)
        if eager:
            rec.task = asyncio.Task(runner(), loop=self.loop, name=f"harness:{name}", eager_start=True)
        else:
            rec.task = self.loop.create_task(runner(), name=f"harness:{name}")
        rec.task.add_done_callback(lambda t: _never_started(self, rec, t))
        return rec

    def cancel(self, rec: CallRec) -> None:
        rec.cancel_requested = True
        self.log("cancel", rec.name)
        if rec.task is not None:
            rec.task.cancel()

    def subscriber(self, sub_id: str) -> Callable[[Any], None]:
        def cb(value: Any) -> None:
            self.deliveries.append((self.next_seq(), self.clock, sub_id, type(value).__name__, value))
            self.log("deliver", sub_id, type(value).__name__)
        return cb

    def on_stop_cb(self, tag: str = "client") -> Callable[[bool], Any]:
        """The application's stop callback.  Its Python FORM rotates - a coroutine function, a bound method of an object nothing else refers to, a
        functools.partial of a coroutine function, an object with an async __call__ - all of which an application may pass and all of which must
        be called the same way."""
        import functools

        sim = self

        async def on_stop(expected: bool) -> None:
            # runs eagerly inside APIConnection._cleanup (create_eager_task), so seq/time are those of the call
            sim.user_on_stop.append((sim.next_seq(), sim.clock, tag, expected))
            sim.log("on_stop", tag, expected)

        form = rotation.decide("on_stop_form", ("coroutine-function", "bound-method-of-temporary", "coroutine-function", "partial", "callable-object",
                                                "coroutine-function"))
        if form == "bound-method-of-temporary":
            class Session:
                async def stopped(self, expected: bool) -> None:
                    await on_stop(expected)
            return Session().stopped
        if form == "partial":
            async def on_stop2(_tag: str, expected: bool) -> None:
                await on_stop(expected)
            return functools.partial(on_stop2, tag)
        if form == "callable-object":
            class Stopper:
                async def __call__(self, expected: bool) -> None:
                    await on_stop(expected)
            return Stopper()
        return on_stop


    # ------------------------------------------------------------------ monitor callbacks
    def view(self, conn: Any) -> ConnView:
        v = self._conn_by_id.get(id(conn))
        if v is None or v.obj is not conn:
            v = ConnView(len(self.conns), conn)
            v.created_seq = self.next_seq()
            self.conns.append(v)
            self._conn_by_id[id(conn)] = v
        return v

    def on_slot_write(self, conn: Any, name: str, old: Any, new: Any) -> None:
        v = self.view(conn)
        if name == "connection_state":
            seq = self.next_seq()
            v.states.append((seq, self.clock, old, new))
            self.log("state", v.idx, getattr(old, "name", None), new.name)
            if new.name == "CLOSED" and v.closed_seq is None:
                v.closed_seq = seq
                v.closed_t = self.clock
            if new.name == "CONNECTED" and v.connected_seq is None:
                v.connected_seq = seq
            bad = check_transition(old, new)
            if bad:
                v.bad_transitions.append(bad)
                self.log("BAD_TRANSITION", v.idx, bad)
        elif name == "_expected_disconnect":
            v.expected_writes.append((self.next_seq(), old, new))
        elif name == "_fatal_exception" and new is not None:
            v.fatal_sets.append((self.next_seq(), self.clock, old, new))
            self.log("fatal_set", v.idx, type(new).__name__)

    def on_fatal_done(self, conn: Any, raised: bool) -> None:
        v = self.view(conn)
        v.fatal_returns.append((self.next_seq(), self.clock, conn.connection_state.name, raised))

    def on_fatal(self, conn: Any, err: BaseException) -> None:
        v = self.view(conn)
        v.fatals.append((self.next_seq(), self.clock, err))
        self.log("fatal", v.idx, type(err).__name__, str(err)[:80])

    def on_send_enter(self, conn: Any, msgs: Any) -> None:
        v = self.view(conn)
        names = tuple(type(m).__name__ for m in msgs)
        rec = {"conn": v.idx, "seq": self.next_seq(), "t": self.clock, "names": names, "msgs": tuple(msgs),
               "n_twrites_before": sum(len(t.sim_writes) for t in self.transports), "raised": None, "writes": None,
               "state": conn.connection_state.name}
        self.send_stack.append(rec)
        self.log("send", v.idx, names)

    def on_send_exit(self, conn: Any, r: Any, raised: bool) -> None:
        rec = self.send_stack.pop()
        rec["raised"] = r if raised else None
        all_w = [w for t in self.transports for w in t.sim_writes]
        all_w.sort()
        rec["writes"] = [w for w in all_w if w[0] > rec["seq"]]
        if not raised or rec["writes"]:
            v = self.view(conn)
            v.sent_types.append((rec["seq"], rec["names"]))
        self.send_batches.append(rec)

    def on_subscribe(self, conn: Any, cb: Any, types: Any) -> None:
        v = self.view(conn)
        v.subscribed.append((self.next_seq(), tuple(t.__name__ for t in types)))

    def on_packet(self, conn: Any, ty: int, data: Any) -> None:
        v = self.view(conn)
        self.in_packet += 1
        v.packets.append((self.next_seq(), ty, conn.connection_state.name))
        self._packet_starts.append(self._seq)
        self.log("pkt", v.idx, ty, len(data), conn.connection_state.name)
        if self.packet_hook is not None:
            self.packet_hook(v, ty, data)


    def on_packet_done(self, conn: Any, r: Any, raised: bool) -> None:
        self.in_packet -= 1
        if self._packet_starts:
            self.packet_spans.append((self._packet_starts.pop(), self.next_seq()))   # (seq at entry of the dispatch, seq at its exit)

    def on_conn_stop(self, conn: Any, expected: Any) -> None:
        v = self.view(conn)
        v.on_stop.append((self.next_seq(), self.clock, expected))
        self.log("conn_on_stop", v.idx, expected)

    def on_disc_enter(self, conn: Any, kind: str) -> None:
        v = self.view(conn)
        v.graceful.append((self.next_seq(), kind, conn.connection_state.name))
        self.log("disc_enter", v.idx, kind, conn.connection_state.name)

    # ------------------------------------------------------------------ audit helpers
    def live_timers(self) -> list[str]:
        out = []
        for h in self.loop._scheduled:  # noqa: SLF001
            if h._cancelled:  # noqa: SLF001
                continue
            out.append(describe_callback(h._callback))  # noqa: SLF001
        return sorted(out)

    def live_timers_owned_by(self, owners: tuple[Any, ...]) -> list[str]:
        """Armed timers whose callback is a bound method of one of `owners` (used when several sessions share the loop and a timer can
        only be charged to a closed connection if it demonstrably belongs to it)."""
        import functools

        out = []
        for h in self.loop._scheduled:  # noqa: SLF001
            if h._cancelled:  # noqa: SLF001
                continue
            cb = h._callback  # noqa: SLF001
            while isinstance(cb, functools.partial):
                cb = cb.func
            if any(getattr(cb, "__self__", None) is o for o in owners if o is not None):
                out.append(describe_callback(h._callback))  # noqa: SLF001
        return sorted(out)

    def pending_tasks(self) -> list[str]:
        out = []
        for t in asyncio.all_tasks(self.loop):
            if not t.done():
                out.append(t.get_name())
        return sorted(out)

    def open_sockets(self, created_before: int | None = None) -> list[core.FakeSocket]:
        return [s for s in self.net.sockets if not s.closed and (created_before is None or s.created_seq < created_before)]

    def trace(self, last: int = 80) -> list[str]:
        return [f"#{e[0]} t={e[1]:.6f} {e[2]} {' '.join(map(str, e[3:]))}" for e in self.ev[-last:]]


def _never_started(sim: Sim, rec: CallRec, task: Any) -> None:
    """A harness task cancelled before its first step never enters the API call at all."""
    if not rec.done:
        rec.done = True
        rec.outcome = "never-started"
        rec.t_ret = sim.clock
        rec.seq_ret = sim.next_seq()


ORDER = {"INITIALIZED": 0, "SOCKET_OPENED": 1, "HANDSHAKE_COMPLETE": 2, "CONNECTED": 3, "CLOSED": 4}


def check_transition(old: Any, new: Any) -> str | None:
    """Online C05 transition relation. old is None for the constructor's first write."""
    if old is None:
        return None if new.name == "INITIALIZED" else f"initial state {new.name}"
    o, n = old.name, new.name
    if n == "CLOSED":
        return None
    if o == "CLOSED":
        return f"CLOSED -> {n}"
    if ORDER[n] == ORDER[o] + 1:
        return None
    return f"{o} -> {n}"


def describe_callback(cb: Any) -> str:
    import functools

    while isinstance(cb, functools.partial):
        cb = cb.func
    self_ = getattr(cb, "__self__", None)
    name = getattr(cb, "__qualname__", None) or getattr(cb, "__name__", None) or repr(cb)
    if self_ is not None and not isinstance(self_, type(sys)):
        return f"{type(self_).__name__}.{getattr(cb, '__name__', name)}"
    return str(name)

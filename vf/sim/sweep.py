"""Fault x injection-point sweeps over connection-lifecycle scenarios + the oracles of C05/C07/C08/C09.

Each judge takes an Obs and returns [(mechanism key, text)].  A property's check
exits 1 only on its own judge; what the other judges said during the same runs is
reported as `other_monitor_flags` in its evidence.
"""

from __future__ import annotations

import itertools
from typing import Any, Callable, Iterator

from vf.common import Ctx
from vf.sim import lifecycle as L

Judge = Callable[[L.Obs], list[tuple[str, str]]]

import collections

STATS: collections.Counter[str] = collections.Counter()   # what the judges actually evaluated (merged into the evidence counters)


def _stat(name: str, n: int = 1) -> None:
    STATS[name] += n

CLOSING_KINDS = {"force", "disconnect", "eof", "rst", "etimedout", "garbage01", "garbage", "bad_pb", "peer_disconnect", "cancel"}


# ---------------------------------------------------------------------------------------------- baselines

def baselines(thorough: bool) -> list[tuple[str, dict[str, Any]]]:
    S = L.default_spec
    out = [
        ("plain-login", S()),
        ("noise-login", S(framing="noise")),
        ("plain-nologin-split", S(login=False, split_connect=True, password=None)),
        ("noise-dual-nologin", S(framing="noise", dual=True, login=False, password=None)),
        ("plain-pending-device-info", S(device={"handlers": "slow_device_info"}, program=[["connect"], ["spawn", "device_info"], ["sleep", 3.0], ["disconnect"]])),
        ("plain-subscriptions-traffic", S(traffic={"period": 0.25, "count": 8},
                                          program=[["connect"], ["subscribe", "states"], ["subscribe", "logs"], ["sleep", 3.0], ["disconnect"]])),
        ("noise-list-entities-midstream", S(framing="noise", device={"handlers": "slow_entities"},
                                            program=[["connect"], ["spawn", "list_entities"], ["sleep", 3.0], ["disconnect"]])),
        ("plain-slow-disconnect", S(device={"handlers": "slow_disconnect"}, program=[["connect"], ["sleep", 0.5], ["disconnect"]])),
        ("plain-two-requests", S(device={"handlers": "slow_device_info+slow_entities"},
                                 program=[["connect"], ["spawn", "device_info"], ["spawn", "list_entities"], ["sleep", 3.0], ["disconnect"]])),
        ("plain-keepalive-1s", S(keepalive=1.0, program=[["connect"], ["sleep", 6.3], ["disconnect"]])),
        ("noise-keepalive-1s-nologin", S(framing="noise", login=False, password=None, keepalive=1.0, program=[["connect"], ["sleep", 4.2], ["force"]])),
    ]
    if thorough:
        out += [
            ("plain-dual-login-split", S(dual=True, split_connect=True)),
            ("noise-subscriptions-traffic", S(framing="noise", traffic={"period": 0.25, "count": 8},
                                              program=[["connect"], ["subscribe", "states"], ["subscribe", "logs"], ["sleep", 3.0], ["disconnect"]])),
            ("plain-expected-name", S(expected_name="dev")),
            ("noise-slow-handshake", S(framing="noise", device={"reply_delay": 0.05})),
        ]
    return out


def materialize(spec: dict[str, Any]) -> dict[str, Any]:
    """Replace symbolic device handler names by callables (keeps specs JSON-serialisable)."""
    spec = dict(spec)
    dev = dict(spec.get("device", {}))
    sym = dev.pop("handlers", None)
    handlers: dict[str, Any] = {}
    if sym:
        for name in sym.split("+"):
            if name == "slow_device_info":
                handlers["DeviceInfoRequest"] = lambda c, m: c.send("DeviceInfoResponse", _delay=2.0, name="dev")
            elif name == "slow_entities":
                def ents(c: Any, m: Any) -> None:
                    for i in range(4):
                        c.send("ListEntitiesSensorResponse", _delay=0.4 * (i + 1), key=i + 1, object_id=f"s{i}", name=f"S{i}")
                    c.send("ListEntitiesDoneResponse", _delay=2.0)
                handlers["ListEntitiesRequest"] = ents
            elif name.startswith("slow_hello"):
                d = float(name.split(":")[1])
                handlers["HelloRequest"] = lambda c, m, d=d: c.send("HelloResponse", _delay=d, api_version_major=1, api_version_minor=10, name="dev", server_info="slow")
            elif name.startswith("device_info_then:"):
                # the device answers the device-info request and, in the same write, says goodbye / hangs up / sends garbage
                what = name.split(":")[1]

                def dinfo_then(c: Any, m: Any, what: str = what) -> None:
                    c.outbox = []
                    c.send("DeviceInfoResponse", name="dev", mac_address="AA:BB:CC:DD:EE:FF")
                    if what == "bye":
                        c.send("DisconnectRequest")
                    elif what == "garbage":
                        c.send_raw(b"\x42\x42\x42")
                    else:
                        c.eof(None)
                    out, c.outbox = c.outbox, None
                    c.deliver_items(out, 0.001)
                handlers["DeviceInfoRequest"] = dinfo_then
            elif name == "no_disconnect_answer":
                handlers["DisconnectRequest"] = lambda c, m: None
            elif name == "slow_disconnect":
                def disc(c: Any, m: Any) -> None:
                    c.send("DisconnectResponse", _delay=1.0)
                    c.eof(1.0)
                handlers["DisconnectRequest"] = disc
    if handlers:
        dev["handlers"] = handlers
    spec["device"] = dev
    return spec


def run_spec(spec: dict[str, Any]) -> L.Obs:
    obs = L.run(materialize(spec))
    obs.spec = spec  # keep the JSON-serialisable form for witnesses
    return obs


# ---------------------------------------------------------------------------------------------- judges

def state_at(view: Any, seq: int) -> str | None:
    st = None
    for s in view.states:
        if s[0] < seq:
            st = s[3].name
    return st


def first_applied(obs: L.Obs) -> dict[str, Any] | None:
    ap = [a for a in obs.applied if a.get("applied")]
    return ap[0] if ap else None


def cause_tag(obs: L.Obs) -> str:
    kinds = [a["kind"] for a in obs.applied if a.get("applied")]
    if obs.spec.get("tail"):
        kinds.append("tail:" + obs.spec["tail"])
    return "+".join(kinds) or "none"


def judge_c05(obs: L.Obs) -> list[tuple[str, str]]:
    out = []
    for v in obs.conns:
        _stat("c05/state_writes_checked", len(v.states))
        for s_ in v.states:
            _stat(f"c05/transition/{getattr(s_[2], 'name', None)}->{s_[3].name}")
        for b in v.bad_transitions:
            if b.startswith("CLOSED -> "):
                new = b.split(" -> ")[1]
                stage = (first_applied(obs) or {}).get("stage", "?")
                out.append((f"C05/leave-closed/{new}", f"connection {v.idx} left CLOSED: {b} (cause {cause_tag(obs)}, stage at fault {stage})"))
            else:
                out.append((f"C05/skip/{b.replace(' ', '')}", f"connection {v.idx}: illegal transition {b}"))
    for b in obs.invariant_breaks[:2]:
        out.append(("C05/is_connected-mismatch", b))
    # a fatal error that was reported to the connection has taken effect when the report returns: the state is CLOSED (jump from any state)
    for v in obs.conns:
        for seq_, t_, st_, raised_ in v.fatal_returns:
            _stat(f"c05/state-after-fatal-report/{st_}")
            if st_ != "CLOSED":
                out.append((f"C05/fatal-error-without-effect/{st_}", f"connection {v.idx}: report_fatal_error returned at t={t_:.6f} with the connection still {st_} "
                            f"(cause {cause_tag(obs)})"))
                break
    for c in obs.calls:
        if c.outcome == "ok" and c.name in ("start", "finish", "connect") and obs.conns:
            # the connection this call worked on: the one it created (start/connect) or the newest one existing when it was entered (finish)
            if c.name == "finish":
                cand = [v for v in obs.conns if v.created_seq < c.seq_call][-1:]
            else:
                cand = [v for v in obs.conns if c.seq_call < v.created_seq < c.seq_ret][:1]
            if not cand:
                _stat(f"c05/return-state-unattributed/{c.name}")
                continue
            v = cand[0]
            st = state_at(v, c.seq_ret)
            want = "SOCKET_OPENED" if c.name == "start" else "CONNECTED"
            _stat(f"c05/return-state-checked/{c.name}")
            if st != want:
                out.append((f"C05/{c.name}-returned-in-{st}", f"{c.name} returned normally while state was {st}"))
    # a disconnect()/force disconnect that has returned has taken effect; a connect phase that failed leaves the object closed
    for c in obs.calls:
        if c.seq_ret is None or not obs.conns:
            continue
        older = [v for v in obs.conns if v.created_seq < c.seq_call]
        if c.name in ("disconnect", "force_disconnect") and c.outcome == "ok" and older:
            v = older[-1]
            st = state_at(v, c.seq_ret + 1)
            _stat(f"c05/state-after-{c.name}-returned/{st}")
            if st != "CLOSED":
                out.append((f"C05/{c.name}-returned-in-{st}", f"{c.name}() returned normally but connection {v.idx} is {st}, not CLOSED (cause {cause_tag(obs)})"))
            else:
                later = [s_ for s_ in v.states if s_[0] > c.seq_ret and s_[3].name != "CLOSED"]
                if later:
                    out.append((f"C05/leave-closed/{later[0][3].name}", f"connection {v.idx} moved to {later[0][3].name} after {c.name}() had returned"))
        if c.name in ("start", "finish", "connect") and c.outcome in ("raised", "cancelled"):
            mine = [v for v in obs.conns if v.created_seq > c.seq_call and v.created_seq < c.seq_ret] if c.name != "finish" else older[-1:]
            for v in mine[:1]:
                st = state_at(v, c.seq_ret + 1)
                _stat(f"c05/state-after-failed-{c.name}/{st}")
                if st != "CLOSED":
                    out.append((f"C05/failed-{c.name}-left-{st}", f"{c.name}() ended {c.outcome} ({c.exc!r}) but its connection {v.idx} is {st}, not CLOSED: the object could be used "
                                f"for another attempt (cause {cause_tag(obs)})"))
    for p in getattr(obs, "reuse_probes", []):
        _stat(f"c05/reuse-probe/{p['op']}/{p['state']}")
        if p["raised"] != "RuntimeError":
            out.append((f"C05/reuse-accepted/{p['op']}/{p['state']}", f"{p['op']} on a connection in state {p['state']} -> {p['raised']}"))
        elif p["state_after"] != p["state"]:
            out.append((f"C05/reuse-changed-state/{p['op']}", f"{p['op']} in {p['state']} raised but state became {p['state_after']}"))
    return out


def judge_c07(obs: L.Obs) -> list[tuple[str, str]]:
    out = []
    for v in obs.conns:
        final = v.obj.connection_state.name
        n = len(v.on_stop)
        # the application's own callback for THIS session (client level), next to the hook the connection object calls
        tag = obs.session_tag.get(v.idx)
        if tag is not None:
            mine = [x for x in obs.user_on_stop if x[2] == tag]
            _stat(f"c07/user-callback/connected={v.connected_seq is not None}/final={final}/calls={len(mine)}")
            if v.connected_seq is None and mine:
                out.append(("C07/on_stop-without-connected", f"the application's stop callback of session {tag} was called {len(mine)}x but CONNECTED was never reached"))
            if len(mine) > 1:
                out.append(("C07/on_stop-multiple", f"the application's stop callback of session {tag} was called {len(mine)}x"))
            if v.connected_seq is not None and final == "CLOSED" and n == 1 and not mine:
                out.append(("C07/on_stop-missing/application-callback", f"session {tag} (connection {v.idx}) reached CONNECTED and is CLOSED, the connection's stop hook ran, but the stop "
                            f"callback the application passed for this session was never invoked (cause {cause_tag(obs)})"))
            if mine and n == 1 and mine[0][3] is not v.on_stop[0][2]:
                out.append(("C07/on_stop-argument-changed", f"session {tag}: connection reported on_stop({v.on_stop[0][2]}) but the application's callback received {mine[0][3]}"))
        _stat("c07/connections_judged")
        _stat(f"c07/connected={v.connected_seq is not None}/on_stop_calls={n}/final={final}")
        if v.connected_seq is None:
            if n:
                out.append(("C07/on_stop-without-connected", f"on_stop called {n}x but CONNECTED was never reached"))
            continue
        if n > 1:
            out.append(("C07/on_stop-multiple", f"on_stop called {n}x for one session"))
        if final != "CLOSED":
            sil = [a for a in obs.applied if a["kind"] == "silence" and a.get("applied") and str(a.get("stage", "")).startswith("CONNECTED")]
            K = float(obs.spec.get("keepalive") or 20.0)
            if sil and obs.t_end - sil[0]["t"] > 8 * K:
                # a peer silent for more than 8 keep-alive periods (6.5 is the documented worst case) is dead: that IS a close cause
                out.append(("C07/on_stop-missing", f"the peer has been silent for {obs.t_end - sil[0]['t']:.1f}s (keepalive {K}s) but the session never closed and on_stop was "
                            f"called {n}x (cause {cause_tag(obs)})"))
            if obs.lost_not_closed:
                out.append(("C07/on_stop-missing", f"the session's transport is gone ({obs.lost_not_closed[0]}) but the connection never closed and on_stop was "
                            f"called {n}x (cause {cause_tag(obs)})"))
            continue  # session still alive at the horizon: nothing to judge yet
        if n == 0:
            out.append(("C07/on_stop-missing", f"connection reached CONNECTED and is CLOSED but on_stop was never called (cause {cause_tag(obs)})"))
            continue
        seq_stop, _, arg = v.on_stop[0]
        certain = False
        maybe = False
        cutoff = v.closed_seq if v.closed_seq is not None else seq_stop   # "initiated BEFORE the connection closed": the CLOSED write, not the callback
        for gseq, kind, st in v.graceful:
            if gseq > cutoff:
                continue
            if kind == "force" or (kind == "disconnect" and st == "CONNECTED"):
                certain = True
            else:
                maybe = True
        for pseq, ty, st in v.packets:
            if ty == 5 and pseq < cutoff and st != "CLOSED":
                if st in ("CONNECTED", "HANDSHAKE_COMPLETE"):
                    certain = True
                else:
                    maybe = True
        # (boundary oracle, independent of the library's own packet dispatch) the socket had handed over a complete, well-formed DisconnectRequest on
        # an established session and the loop iteration ended with the connection still up: the device's request was initiated before the close
        for h in obs.peer_disc_handed_over:
            if h["conn"] == v.idx:
                _stat(f"c07/socket-boundary/well-formed-DisconnectRequest-read/state-at-end-of-iteration={h['state']}")
            if h["conn"] == v.idx and h["state"] == "CONNECTED" and h["seq"] < cutoff:
                _stat("c07/peer-disconnect-read-from-socket-while-connected")
                if not certain:
                    certain = True
                    _stat("c07/peer-disconnect-known-only-at-the-socket-boundary")
        _stat(f"c07/arg={arg}/certain-graceful={certain}/maybe={maybe}")
        if certain and arg is not True:
            out.append(("C07/expected-false-after-graceful", f"graceful disconnect initiated before close but on_stop({arg}) (cause {cause_tag(obs)})"))
        if not certain and not maybe and arg is not False:
            out.append(("C07/expected-true-without-graceful", f"no graceful initiation before close but on_stop({arg}) (cause {cause_tag(obs)})"))
    return out


def judge_c08(obs: L.Obs) -> list[tuple[str, str]]:
    out = []
    for b in obs.lost_not_closed[:2]:
        out.append(("C08/not-closed-after-transport-lost", f"{b} (cause {cause_tag(obs)}): the loss of the transport did not close the connection"))
    for a in obs.audits + [obs.final_audit]:
        if a["conn"] is None:
            continue
        v = obs.conns[a["conn"]]
        if a["label"] == "final" and v.obj.connection_state.name != "CLOSED":
            forced = [g for g in v.graceful if g[1] == "force"]
            _stat(f"c08/final-audit-of-open-connection/force-requested={bool(forced)}")
            if not forced:
                continue
            # force_disconnect() is a close cause at whatever point of the connection's life it comes: it was entered (in state g[2]) and the
            # connection is still not closed at the end of the run -- everything it holds is charged to it
            out.append((f"C08/close-request-ignored/{forced[0][2]}", f"force_disconnect() was called on connection {v.idx} in state {forced[0][2]} but the connection is "
                        f"{v.obj.connection_state.name} at the end of the run (cause {cause_tag(obs)})"))
        tag = f"[{a['label']} audit of connection {a['conn']}, cause {cause_tag(obs)}]"
        _stat(f"c08/audits/{a['label']}")
        _stat("c08/write_attempts_after_close_advisory", len(a.get("write_attempts_after_close") or []))
        for t in a["timers"]:
            out.append((f"C08/timer-armed-after-close/{t}", f"{tag} timer still armed: {t}"))
        for c in a["pending_calls"]:
            out.append((f"C08/call-blocked-after-close/{c}", f"{tag} call still pending: {c}"))
        for t in a["tasks"]:
            if not t.startswith("harness:"):
                out.append((f"C08/task-pending-after-close", f"{tag} task pending: {t}"))
        if a["open_sockets"]:
            out.append(("C08/socket-open-after-close", f"{tag} sockets not closed: {a['open_sockets']}"))
        if a["transports_open"]:
            out.append(("C08/transport-open-after-close", f"{tag} transport close never requested: {a['transports_open']}"))
        if a.get("writes_after_close"):
            out.append(("C08/write-after-close", f"{tag} bytes accepted by the socket after the CLOSED write: {a['writes_after_close'][:3]}"))
        if a.get("deliveries_after_close"):
            out.append(("C08/delivery-after-close", f"{tag} subscriber invoked after the CLOSED write: {a['deliveries_after_close'][:3]}"))
    return out


BOUNDS = {"start": 30.0 + 60.0, "finish": 60.0, "connect": 30.0 + 60.0 + 60.0, "device_info": 10.0, "list_entities": 60.0,
          "disconnect": 15.0, "force_disconnect": 0.0}

FIRST_CAUSE_TABLE = {
    # (fault kind, framing, what the device emitted) -> (class name, marker in message)
    ("garbage01", "plain", "raw"): ("RequiresEncryptionAPIError", "requires encryption"),
    ("garbage01", "noise", "raw"): ("ProtocolAPIError", "Marker byte invalid"),
    ("garbage", "plain", "raw"): ("ProtocolAPIError", "Invalid preamble"),
    ("garbage", "noise", "raw"): ("ProtocolAPIError", "Marker byte invalid"),
    ("garbage", "noise", "noise-frame"): ("InvalidEncryptionKeyAPIError", "Invalid encryption key"),
    ("bad_pb", "plain", "raw"): ("ProtocolAPIError", "Invalid protobuf"),
    ("bad_pb", "noise", "raw"): ("ProtocolAPIError", "Invalid protobuf"),
    ("eof", "plain", "raw"): ("SocketClosedAPIError", "EOF received"),
    ("eof", "noise", "raw"): ("SocketClosedAPIError", "EOF received"),
}


def judge_c09(obs: L.Obs) -> list[tuple[str, str]]:
    from aioesphomeapi.core import APIConnectionError

    out = []
    spec = obs.spec
    naddr = 2 if spec.get("dual") else 1
    for c in obs.calls:
        bound = BOUNDS.get(c.name)
        if c.name in ("start", "connect") and bound is not None:
            bound += 60.0 * (naddr - 1)
        _stat(f"c09/call/{c.name}/{c.outcome}" + (f"/{type(c.exc).__name__}" if c.exc is not None else ""))
        if not c.done:
            out.append((f"C09/hang/{c.name}", f"{c.name} called at t={c.t_call:.3f} still pending at t={obs.t_end:.3f} (end: {obs.end_reason}; cause {cause_tag(obs)})"))
            continue
        if c.outcome == "never-started":
            continue
        dur = (c.t_ret or 0) - c.t_call
        if bound is not None and dur > bound + 0.05:
            out.append((f"C09/over-bound/{c.name}", f"{c.name} took {dur:.3f}s > bound {bound}s (cause {cause_tag(obs)})"))
        if c.outcome == "cancelled" and not c.cancel_requested:
            out.append((f"C09/unrequested-cancel/{c.name}", f"{c.name} ended in CancelledError nobody requested (cause {cause_tag(obs)})"))
        if c.outcome == "raised" and not isinstance(c.exc, APIConnectionError):
            if c.name == "finish" and isinstance(c.exc, RuntimeError) and "SOCKET_OPENED" in str(c.exc):
                continue  # finish_connection after a disconnect: API misuse, recorded not judged
            out.append((f"C09/raw-exception/{c.name}/{type(c.exc).__name__}", f"{c.name} raised {c.exc!r} (cause {cause_tag(obs)})"))
    # first cause wins
    for v in obs.conns:
        # the recorded fatal cause of a connection is written once: a later failure must not replace the first one
        for seq_, t_, old_, new_ in getattr(v, "fatal_sets", []):
            _stat("c09/fatal-cause-writes")
            if old_ is not None and new_ is not old_:
                out.append(("C09/first-cause-overwritten", f"connection {v.idx}: recorded fatal cause {old_!r} replaced by {new_!r} at t={t_:.6f} (cause {cause_tag(obs)})"))
                break
        if not v.fatals:
            continue
        fseq, ft, F1 = v.fatals[0]
        # (3b) first fatal vs first injected closing fault
        ap = [a for a in obs.applied if a.get("applied") and a["kind"] in CLOSING_KINDS | {"sendfail", "writeraise", "silence"}]
        if ap and not spec.get("tail"):
            f1 = ap[0]
            exp = FIRST_CAUSE_TABLE.get((f1["kind"], spec["framing"], f1.get("emitted", "raw")))
            tab = exp
            # judged only when the connection was closed BY that first fatal report (a fault queued behind a graceful close is never read)
            if tab and f1["seq"] < fseq and v.closed_seq is not None and fseq < v.closed_seq and not any(
                    g[0] < fseq for g in v.graceful) and not any(pk[1] in (5, 6) and pk[0] < fseq for pk in v.packets):
                stage = f1["stage"]
                only = len([a for a in obs.applied if a.get("applied")]) == 1
                if exp and only:
                    _stat(f"c09/first-cause-judged/{f1['kind']}/{spec['framing']}/{f1.get('emitted', 'raw')}")
                    if type(F1).__name__ != exp[0] or exp[1].lower() not in str(F1).lower():
                        out.append((f"C09/first-cause-class/{f1['kind']}", f"fault {f1['kind']} at stage {stage} -> first fatal {F1!r}, expected {exp[0]}('{exp[1]}')"))
        # (3a) every waiter failing after the first fatal carries it
        if not isinstance(F1, APIConnectionError):
            continue
        # (a cause RECORDED before that first report - disconnect() giving up on a stalled connect records its timeout, then goes on - is the
        #  connection's first cause by its own account: a waiter carrying it is right)
        earlier = [x[3] for x in getattr(v, "fatal_sets", []) if x[0] < fseq and isinstance(x[3], APIConnectionError)]
        _judge_waiters(obs, v, fseq, ft, F1, out, also_first=earlier)
    # (3a') a first cause recorded WITHOUT a fatal report (disconnect() gives up waiting for a stalled connect: it records its timeout and then
    #       closes the connection) is a first cause all the same: the connect waiter it interrupts carries it
    for v in obs.conns:
        sets = getattr(v, "fatal_sets", [])
        if not sets or not isinstance(sets[0][3], APIConnectionError):
            continue
        if v.fatals and v.fatals[0][0] < sets[0][0]:
            continue    # (a reported fatal error came first: judged above)
        _stat("c09/first-cause-recorded-without-report")
        _judge_waiters(obs, v, sets[0][0], sets[0][1], sets[0][3], out, only_at_close=True)
    return out


def _judge_waiters(obs: L.Obs, v: Any, fseq: int, ft: float, F1: BaseException, out: list[tuple[str, str]], only_at_close: bool = False,
                   also_first: list[BaseException] | None = None) -> None:
    if True:
        for c in obs.calls:
            if c.outcome != "raised" or c.seq_ret is None or c.seq_ret < fseq or c.seq_call > fseq:
                continue
            if c.name in ("disconnect", "force_disconnect"):
                continue
            if only_at_close and (v.closed_t is None or abs((c.t_ret or 0) - v.closed_t) > 1e-9 or abs(v.closed_t - ft) > 1e-9):
                continue    # (judged when recording the cause and closing the connection are one step; a recorded cause that did not end the
                #             connection - the disconnect() went on waiting, or was abandoned - does not explain a later, separate failure)
            e = c.exc
            chain = []
            x: BaseException | None = e
            while x is not None and len(chain) < 6:
                chain.append(x)
                x = x.__cause__
            if F1 in chain or (type(e) is type(F1) and str(F1) in str(e)):
                _stat(f"c09/waiter-carries-first-cause/{c.name}/{type(F1).__name__}")
                continue
            if any(F in chain or (type(e) is type(F) and str(F) in str(e)) for F in (also_first or [])):
                _stat(f"c09/waiter-carries-earlier-recorded-cause/{c.name}")
                continue
            if v.closed_seq is not None and v.closed_seq < fseq:
                continue  # the connection was already closed (gracefully) before the first fatal report
            if type(e).__name__ == "TimeoutAPIError" and abs((c.t_ret or 0) - ft) < 1e-9 and \
                    any(ts < fseq and abs(tt - ft) < 1e-9 for ts, tt, _ in obs.timer_fired):
                continue  # a timer (its own timeout) ran in the very same instant BEFORE the fatal error was recorded: the timeout was first
            key = (f"C09/first-cause-masked/{c.name}", f"{c.name} failed with {e!r} although the first fatal cause was {F1!r} (cause {cause_tag(obs)})")
            if key not in out:
                out.append(key)


def judge_c11(obs: L.Obs) -> list[tuple[str, str]]:
    """Request-response calls (hello / login / device_info / list_entities / the DisconnectRequest of disconnect()) outstanding when the
    link is lost: each fails with the connection's error in that very instant -- none stays pending on a connection whose transport is gone."""
    from aioesphomeapi.core import APIConnectionError

    out = []
    for e in obs.lost_events:
        _stat(f"c11/transport-lost/state-at-end-of-instant={e['state']}/calls-still-pending={len(e['pending_calls'])}")
        if e["pending_calls"]:
            out.append((f"C11/call-outlives-connection/{e['pending_calls'][0][0]}", f"transport lost at t={e['t']:.6f} but {[n for n, _ in e['pending_calls']]} (entered before the loss) "
                        f"still pending at the end of that instant; connection state {e['state']} (cause {cause_tag(obs)})"))
    lost_t = [e["t"] for e in obs.lost_events]
    for c in obs.calls:
        if c.done and c.outcome == "raised" and lost_t and c.t_call is not None and c.t_call < lost_t[0] <= (c.t_ret or 0) + 1e-9:
            _stat(f"c11/call-ended-by-loss/{c.name}/{type(c.exc).__name__}")
            if not isinstance(c.exc, APIConnectionError):
                out.append((f"C11/raw-error-at-connection-loss/{c.name}", f"{c.name} ended with {c.exc!r} when the link was lost"))
    return out


JUDGES: dict[str, Judge] = {"C05": judge_c05, "C07": judge_c07, "C08": judge_c08, "C09": judge_c09, "C11": judge_c11}


# ---------------------------------------------------------------------------------------------- sweep driver

def fault_kinds_for(spec: dict[str, Any]) -> tuple[list[str], list[str]]:
    user = ["force", "disconnect", "cancel", "reuse"]
    net = ["eof", "rst", "etimedout", "garbage01", "garbage", "bad_pb", "peer_disconnect", "sendfail", "writeraise", "silence"]
    return user, net


def single_fault_specs(ctx: Ctx, label: str, base_spec: dict[str, Any], base: L.Obs, stride: int = 1) -> Iterator[dict[str, Any]]:
    user, net = fault_kinds_for(base_spec)
    upts = L.injection_points(base, True)
    npts = L.injection_points(base, False)
    i = 0
    for kind in user:
        for p in upts:
            i += 1
            if i % stride == 0:
                yield {**base_spec, "faults": [{"kind": kind, "point": p, "posclass": L.posclass(p)}]}
    for kind in net:
        for p in npts:
            i += 1
            if i % stride == 0:
                yield {**base_spec, "faults": [{"kind": kind, "point": p, "posclass": L.posclass(p)}]}


def tail_specs() -> Iterator[dict[str, Any]]:
    for framing in ("plain", "noise"):
        for login in (True, False):
            for tail in ("eof", "rst", "garbage01", "garbage", "bad_pb", "peer_disconnect", "benign"):
                for split in (False, True):
                    yield L.default_spec(framing=framing, login=login, password="pw" if login else None, tail=tail, split_connect=split,
                                         program=[["connect"], ["sleep", 1.0], ["disconnect"]])


def record(ctx: Ctx, prop: str, obs: L.Obs, label: str) -> None:
    """Feed one finished run to all judges; the property's own judge decides, the others are advisory."""
    res = ctx.res
    res.evaluations += 1
    if obs.harness_errors:
        res.inconclusive.append(f"harness error in {label}: {obs.harness_errors[0][-400:]}")
        return
    if obs.end_reason == "steps":
        res.inconclusive.append(f"step cap hit in {label}")
        return
    res.count(f"baseline/{label}")
    for a in obs.applied:
        if a.get("applied"):
            res.count(f"fault/{a['kind']}")
            res.count(f"stage-at-fault/{a['stage']}")
            res.seen("cause_x_stage", f"{a['kind']} @ {a['stage']} [{a.get('posclass')}]")
        else:
            res.count("fault-not-applicable")
    nontrivial = any(a.get("applied") for a in obs.applied) or bool(obs.spec.get("tail"))
    if nontrivial or not obs.spec["faults"]:
        res.sigs.add(obs.signature())
    for name, judge in JUDGES.items():
        STATS.clear()
        try:
            found = judge(obs)
        except Exception as e:  # noqa: BLE001
            import traceback

            res.inconclusive.append(f"judge {name} crashed: {traceback.format_exc()[-600:]}")
            continue
        if name == prop:
            res.count("oracle_evaluations")
            for k_, n_ in STATS.items():
                res.count("observed/" + k_, n_)
            for key, what in found:
                res.violation(key, what, {"spec": obs.spec, "label": label}, trace=obs.trace[-60:])
        else:
            for key, what in found:
                res.count(f"other_monitor_flags/{key}")
    if obs.loop_exceptions:
        res.count("advisory/loop_exception_handler_calls", len(obs.loop_exceptions))
        for le in obs.loop_exceptions[:3]:
            res.seen("advisory_loop_exceptions", f"{le['message']}: {le['exception'][:80]}")
    if res.evaluations % 400 == 1:
        res.sample({"baseline": label, "faults": obs.spec["faults"], "tail": obs.spec.get("tail"),
                    "calls": [c.brief() for c in obs.calls],
                    "states": [[s[3].name for s in v.states] for v in obs.conns],
                    "on_stop": [[x[2] for x in v.on_stop] for v in obs.conns],
                    "first_fatal": [type(v.fatals[0][2]).__name__ if v.fatals else None for v in obs.conns]})


def standard_sweep(ctx: Ctx, prop: str, stride_quick: int = 1) -> None:
    """Single faults at every injection point of every baseline + closing tails in the phase-completing chunk."""
    idx = 0
    for label, bspec in baselines(ctx.thorough):
        base = run_spec(bspec)
        if base.harness_errors or any(c.outcome != "ok" for c in base.calls):
            ctx.res.inconclusive.append(f"baseline {label} did not run clean: {[c.brief() for c in base.calls]} {base.harness_errors[:1]}")
            continue
        idx += 1
        if ctx.mine(idx):
            record(ctx, prop, base, label)
        ctx.res.notes.setdefault("baseline_iterations", []).append(f"{label}: {len(base.iter_info)} iterations")
        for spec in single_fault_specs(ctx, label, bspec, base):
            idx += 1
            if not ctx.mine(idx):
                continue
            record(ctx, prop, run_spec(spec), label)
    for spec in tail_specs():
        idx += 1
        if ctx.mine(idx):
            record(ctx, prop, run_spec(spec), "tail-in-phase-completing-chunk")


def pair_sweep(ctx: Ctx, prop: str, n: int, kinds: list[str] | None = None) -> None:
    """Two faults at two points (both orders arise from the random choice of points)."""
    rng = ctx.rng
    bl = baselines(ctx.thorough)
    cache: dict[str, L.Obs] = {}
    user, net = fault_kinds_for({})
    allk = kinds or (user + net)
    for i in range(n):
        label, bspec = bl[rng.randrange(len(bl))]
        if label not in cache:
            cache[label] = run_spec(bspec)
        base = cache[label]
        faults = []
        for _ in range(2):
            kind = rng.choice(allk)
            pts = L.injection_points(base, kind in L.USER_FAULTS)
            p = rng.choice(pts)
            faults.append({"kind": kind, "point": p, "posclass": L.posclass(p)})
        record(ctx, prop, run_spec({**bspec, "faults": faults}), label + "/pair")


def trailing_frames_sweep(ctx: Ctx, prop: str) -> None:
    """C08: a closing frame followed by further frames in the same chunk - nothing after the close may reach a subscriber or be answered."""
    closers = ["peer_disconnect", "bad_pb", "garbage", "garbage01"]
    trailers = [["state"], ["state", "ping_req", "time_req"], ["log", "state"], ["ping_req"], ["time_req", "state", "log"]]
    idx = 0
    for framing in ("plain", "noise"):
        for closer in closers:
            for tr in trailers:
                for lead in ([], ["state"]):
                    for t_off in (0.5, 1.0):
                        idx += 1
                        if not ctx.mine(idx):
                            continue
                        kind = "chunk:" + ",".join(lead + [closer] + tr)
                        spec = L.default_spec(framing=framing,
                                              program=[["connect"], ["subscribe", "states"], ["subscribe", "logs"], ["sleep", 3.0], ["disconnect"]],
                                              faults=[{"kind": kind, "point": {"t": L.core_start() + 0.001 + t_off}, "posclass": "chunk"}])
                        record(ctx, prop, run_spec(spec), "closing-frame-plus-trailing-frames")


def duplicate_answers_sweep(ctx: Ctx, prop: str) -> None:
    """C09/C11: the device answers a pending request twice (or answers and closes) within ONE chunk - the call must still end with its result
    or a classified error, never with a raw exception, and a following disconnect must still complete."""
    S = L.default_spec
    t0 = L.core_start() + 0.001
    cases = [
        ("plain-pending-device-info", S(device={"handlers": "slow_device_info"}, program=[["connect"], ["spawn", "device_info"], ["sleep", 3.0], ["disconnect"]]),
         ["dinfo,dinfo", "dinfo,dinfo,dinfo", "dinfo,peer_disconnect", "dinfo,dinfo,bad_pb", "state,dinfo,dinfo,state", "pong,dinfo,pong,dinfo"]),
        ("noise-list-entities", S(framing="noise", device={"handlers": "slow_entities"}, program=[["connect"], ["spawn", "list_entities"], ["sleep", 3.0], ["disconnect"]]),
         ["ldone,ldone", "ldone,state,ldone", "ldone,garbage"]),
        ("plain-slow-disconnect", S(device={"handlers": "slow_disconnect"}, program=[["connect"], ["sleep", 0.5], ["disconnect"]]),
         ["dresp,dresp", "dresp,dresp,state", "dresp,eof"]),
    ]
    idx = 0
    for label, bspec, chunks in cases:
        for ch in chunks:
            for dt in (0.6, 1.0):
                idx += 1
                if not ctx.mine(idx):
                    continue
                spec = {**bspec, "faults": [{"kind": "chunk:" + ch, "point": {"t": t0 + dt}, "posclass": "chunk"}]}
                record(ctx, prop, run_spec(spec), "duplicate-answers/" + label)


def stalled_connect_sweep(ctx: Ctx, prop: str) -> None:
    """A connect that is stuck in the hello phase, a disconnect() issued meanwhile (its 5 s wait for the connect expires, it then asks the
    device to disconnect and waits), optionally that disconnect() cancelled, optionally the hello answered late (the session gets established
    after all) - and then the link dies.  Multi-step histories with specific time gaps; every close cause afterwards must still close."""
    S = L.default_spec
    t0 = L.core_start()
    idx = 0
    for framing in ("plain", "noise"):
        for hello_at in (8.0, None) + (("noise-handshake-stalled",) if framing == "noise" else ()):
            for disc_answer in ("slow_disconnect", "no_disconnect_answer"):
                for cancel_disc in (False, True):
                    for final in ("eof", "rst", "etimedout", "garbage", "bad_pb", "sendfail+cmd", "none"):
                        for t_final in (6.5, 9.0):
                            idx += 1
                            if not ctx.mine(idx):
                                continue
                            handlers = disc_answer + (f"+slow_hello:{hello_at}" if isinstance(hello_at, float) else "")
                            dev: dict[str, Any] = {"handlers": handlers}
                            if hello_at is None:
                                dev["answer_hello"] = False
                            if hello_at == "noise-handshake-stalled":
                                dev["noise_silent"] = True    # the device never answers the Noise handshake: the connect is stuck before any API message
                            faults: list[dict[str, Any]] = [{"kind": "disconnect", "point": {"t": t0 + 1.0}, "posclass": "stalled"}]
                            if cancel_disc:
                                faults.append({"kind": "cancel", "point": {"t": t0 + 6.2}, "posclass": "stalled"})
                            if final == "sendfail+cmd":
                                faults.append({"kind": "sendfail", "point": {"t": t0 + t_final}, "posclass": "stalled"})
                                faults.append({"kind": "cmd", "point": {"t": t0 + t_final + 0.1}, "posclass": "stalled"})
                            elif final != "none":
                                faults.append({"kind": final, "point": {"t": t0 + t_final}, "posclass": "stalled"})
                            spec = S(framing=framing, login=False, password=None, device=dev, program=[["connect"], ["sleep", 20.0], ["disconnect"]], faults=faults)
                            record(ctx, prop, run_spec(spec), "stalled-connect")


def high_water_sweep(ctx: Ctx, prop: str) -> None:
    """The device stops reading and the application has queued data up to just below the transport's high-water mark; the write that crosses it
    (the transport then calls the protocol's pause_writing() synchronously, from inside that write) is the request of an awaited call, a
    disconnect(), a fire-and-forget command or the keepalive ping.  Whatever the library does at that point - nothing, or closing the connection -
    the caller of the crossing write and everybody else must see a consistent picture: judged by the ordinary close/waiter/lifecycle judges."""
    S = L.default_spec
    t0 = L.core_start()
    idx = 0
    for framing in ("plain", "noise"):
        for margin in (1, 40, 3000):
            for then in ("device_info", "list_entities", "disconnect", "ping", "spawn2", "cmd", "force", "peer_disconnect", "eof"):
                for release in (None, 2.0):
                    idx += 1
                    if not ctx.mine(idx):
                        continue
                    prog: list[list[Any]] = [["connect"], ["spawn", "device_info"] if then == "spawn2" else ["sleep", 0.2], ["stall_fill", margin]]
                    faults: list[dict[str, Any]] = []
                    if then in ("device_info", "list_entities"):
                        prog += [["request", then]]
                    elif then == "spawn2":
                        prog += [["spawn", "list_entities"], ["spawn", "device_info"], ["await_all"]]
                    elif then == "ping":
                        prog += [["sleep", 30.0]]
                    elif then == "cmd":
                        faults.append({"kind": "cmd", "point": {"t": t0 + 1.0}, "posclass": "high-water"})
                        prog += [["sleep", 2.0], ["request", "device_info"]]
                    elif then == "force":
                        # an expected close while the transport still holds unsent bytes
                        prog += [["force"], ["sleep", 2.0]]
                    elif then in ("peer_disconnect", "eof"):
                        faults.append({"kind": then, "point": {"t": t0 + 1.0}, "posclass": "high-water"})
                        prog += [["sleep", 2.0]]
                    if release is not None:
                        prog.insert(-1, ["stall_release", 4000]) if then == "spawn2" else prog.append(["stall_release", 4000])
                        prog += [["sleep", release]]
                    prog += [["disconnect"]]
                    dev = {"handlers": "slow_device_info"} if then == "spawn2" else {}
                    spec = S(framing=framing, login=False, password=None, device=dev, program=prog, faults=faults, keepalive=20.0)
                    o = run_spec(spec)
                    ctx.res.count(f"workload/high-water/{'library refused to queue' if o.stall.get('refused') else 'filled'}")
                    record(ctx, prop, o, "high-water")


def hello_content_sweep(ctx: Ctx, prop: str) -> None:
    """The CONTENT of the device's own answers steers nothing the lifecycle properties say: a hello without a name (old firmware), with or without an
    expected name configured; API minor versions on either side of the client's thresholds and beyond what it knows; a device that reports deep
    sleep in its device info (asked for or not) - each with a closing event in the chunk completing the connect phase, during the phase, and on the
    established session (incl. a peer that falls silent: ping timeout)."""
    S = L.default_spec
    t0 = L.core_start()
    idx = 0
    for framing in ("plain", "noise"):
        for dev in ({"hello_name": ""}, {"api_minor": 2}, {"api_minor": 12}, {"api_minor": 0}, {"device_info": {"has_deep_sleep": True}}):
            for expected in (None, "dev"):
                for ending in ("tail:peer_disconnect", "tail:eof", "tail:garbage", "eof-during-login", "silence", "peer_disconnect", "eof", "disconnect",
                               "dinfo:bye", "dinfo:eof", "dinfo:garbage"):
                    idx += 1
                    if not ctx.mine(idx):
                        continue
                    kw: dict[str, Any] = {"framing": framing, "device": dict(dev), "expected_name": expected, "login": True, "password": "pw"}
                    prog: list[list[Any]] = [["connect"], ["request", "device_info"], ["sleep", 150.0 if ending == "silence" else 3.0], ["disconnect"]]
                    faults: list[dict[str, Any]] = []
                    if ending.startswith("tail:"):
                        kw["tail"] = ending[5:]
                    elif ending.startswith("dinfo:"):
                        # (whoever asks for the device info first - the application's request, or a connect step of the library's own - gets the
                        #  answer and the hang-up in one chunk)
                        kw["device"]["handlers"] = "device_info_then:" + ending[6:]
                    elif ending == "eof-during-login":
                        kw["device"]["answer_connect"] = False
                        faults.append({"kind": "eof", "point": {"t": t0 + 0.5}, "posclass": "hello-content"})
                    elif ending != "disconnect":
                        faults.append({"kind": ending, "point": {"t": t0 + 2.0}, "posclass": "hello-content"})
                    record(ctx, prop, run_spec(S(program=prog, faults=faults, **kw)), "hello-content")


def keepalive_values_sweep(ctx: Ctx, prop: str) -> None:
    """Unusual but legal keep-alive intervals (zero, an int, tiny, huge) with a closing event in the very chunk that completes the connect phase, and
    on an idle session: the interval must not change what a close means."""
    S = L.default_spec
    t0 = L.core_start()
    idx = 0
    for K in (0, 0.0, 1, 1.0e6):
        for framing in ("plain", "noise"):
            for login in (False, True):
                for tail in ("peer_disconnect", "garbage", "eof", "bad_pb", None):
                    idx += 1
                    if not ctx.mine(idx):
                        continue
                    if not K and tail is None:
                        continue    # (a zero interval on a session that stays up pings in every loop iteration: no virtual time ever passes)
                    spec = S(framing=framing, login=login, password="pw" if login else None, keepalive=K, tail=tail,
                             program=[["connect"], ["sleep", 0.5], ["request", "device_info"], ["disconnect"]])
                    if tail is None:
                        spec["faults"] = [{"kind": "eof", "point": {"t": t0 + 0.3}, "posclass": "keepalive-values"}]
                    record(ctx, prop, run_spec(spec), "keepalive-values")


def deadline_specs(framings: tuple[str, ...] = ("noise", "plain"),
                   kinds: tuple[str, ...] = ("ok", "other-name", "other-key", "other-version", "invalid-password")) -> Any:
    """Specs for: the device's answer to the connect phase - conformant, or deviating (another name, a handshake error frame, another API version, a
    rejected password) - and the phase's own 30 s deadline fall into the SAME loop iteration: the answer arrives exactly at the deadline, or it
    arrived shortly before it while the client process was stopped (SIGSTOP, VM pause, a blocked loop) and the loop wakes up after the deadline with
    both pending.  asyncio runs I/O callbacks before timers, so the answer is handled first."""
    S = L.default_spec
    for framing in framings:
        for dev_kind in kinds:
            if framing == "plain" and dev_kind == "other-key":
                continue
            for timing in ("exact", "suspended", "suspended-long", "just-before"):
                dev: dict[str, Any] = {"reply_delay": {"exact": 30.0, "suspended": 29.9, "suspended-long": 12.0, "just-before": 29.999}[timing]}
                kw: dict[str, Any] = {"login": dev_kind == "invalid-password", "password": "pw" if dev_kind == "invalid-password" else None}
                if dev_kind == "other-name":
                    dev["name"] = "somebody-else"
                    kw["expected_name"] = "dev"
                elif dev_kind == "other-key":
                    dev["noise_psk"] = bytes(range(1, 33))
                elif dev_kind == "other-version":
                    dev["api_major"] = 3
                elif dev_kind == "invalid-password":
                    dev["invalid_password"] = True
                spec = S(framing=framing, device=dev, program=[["connect"], ["sleep", 1.0], ["disconnect"]], **kw)
                if timing.startswith("suspended"):
                    spec["suspend"] = [dev["reply_delay"] - 0.5, 61.0 if timing == "suspended" else 95.0]
                yield f"{framing}/{dev_kind}/{timing}", spec


def deadline_sweep(ctx: Ctx, prop: str) -> None:
    """Whichever way a library decides such a tie, what the connect waiter raises must be the first fatal cause the connection itself recorded."""
    for idx, (_label, spec) in enumerate(deadline_specs()):
        if ctx.mine(idx):
            record(ctx, prop, run_spec(spec), "answer-at-the-deadline")


def masked_first_cause(obs: L.Obs) -> list[tuple[str, str]]:
    """Only the 'every waiter observes the first fatal cause' findings of a run (for the checks of C04 / C06, whose statements name the error a
    pending wait receives)."""
    STATS.clear()
    return [(k, w) for k, w in judge_c09(obs) if k.startswith("C09/first-cause-masked/")]


def same_turn_pairs_sweep(ctx: Ctx, prop: str) -> None:
    """A network close cause and a user action in the SAME loop iteration, in both orders (user action ahead of the I/O callbacks of the
    instant, or behind them as a zero-delay timer), on an idle session and on one with a request pending."""
    S = L.default_spec
    t0 = L.core_start()
    bases = [
        ("idle", S(program=[["connect"], ["sleep", 3.0], ["disconnect"]])),
        ("noise-idle", S(framing="noise", program=[["connect"], ["sleep", 3.0], ["disconnect"]])),
        ("request-pending", S(device={"handlers": "slow_device_info"}, program=[["connect"], ["spawn", "device_info"], ["sleep", 3.0], ["disconnect"]])),
    ]
    idx = 0
    for label, bspec in bases:
        for net in ("eof", "rst", "etimedout", "garbage01", "garbage", "bad_pb", "peer_disconnect", "sendfail+ping", "sendfail+ping,peer_disconnect",
                    "sendfail+time_req,state,peer_disconnect,rst"):
            for user in ("force", "disconnect", "cancel", "cmd"):
                for after_io in (False, True):
                    idx += 1
                    if not ctx.mine(idx):
                        continue
                    t = t0 + 1.0
                    faults: list[dict[str, Any]] = []
                    if net == "sendfail+ping":
                        faults.append({"kind": "sendfail", "point": {"t": t - 0.001}, "posclass": "same-turn"})
                        faults.append({"kind": "chunk:ping_req", "point": {"t": t}, "posclass": "same-turn"})
                    elif net.startswith("sendfail+"):
                        # the device's last words in ONE chunk - a request the library answers from inside the read loop, then its DisconnectRequest -
                        # on a socket that no longer takes data (the answer's send fails and the transport starts closing, silently, mid-chunk)
                        faults.append({"kind": "sendfail", "point": {"t": t - 0.001}, "posclass": "same-turn"})
                        faults.append({"kind": "chunk:" + net[9:].replace("ping,", "ping_req,"), "point": {"t": t}, "posclass": "same-turn"})
                    else:
                        faults.append({"kind": net, "point": {"t": t}, "posclass": "same-turn"})
                    faults.append({"kind": user, "point": {"t": t, "after_io": after_io}, "posclass": "same-turn-after-io" if after_io else "same-turn-before-io"})
                    record(ctx, prop, run_spec({**bspec, "faults": faults}), "same-turn-pair/" + label)


def abandoned_disconnect_sweep(ctx: Ctx, prop: str) -> None:
    """An established session, a local disconnect() that the device never acknowledges and that the caller abandons (cancels), and afterwards a
    device that hangs without closing the socket, closes it, or misbehaves: the graceful marker is set but the session is still open - every
    close cause (ping timeout included) must still end it, with the stop callback fired once and True."""
    S = L.default_spec
    t0 = L.core_start()
    idx = 0
    for framing in ("plain", "noise"):
        for keepalive in (1.0, 2.5):
            for t_cancel in (0.2, 3.0):
                for then in ("silence", "eof", "rst", "garbage", "peer_disconnect", "force", "none"):
                    idx += 1
                    if not ctx.mine(idx):
                        continue
                    faults: list[dict[str, Any]] = [{"kind": "disconnect", "point": {"t": t0 + 1.0}, "posclass": "abandoned-disconnect"},
                                                    {"kind": "cancel", "point": {"t": t0 + 1.0 + t_cancel}, "posclass": "abandoned-disconnect"}]
                    if then != "none":
                        faults.append({"kind": then, "point": {"t": t0 + 1.0 + t_cancel + 0.5}, "posclass": "abandoned-disconnect"})
                    spec = S(framing=framing, keepalive=keepalive, device={"handlers": "no_disconnect_answer"}, program=[["connect"], ["sleep", 40.0]] + ([] if then == "silence" else [["force"]]), faults=faults)
                    record(ctx, prop, run_spec(spec), "abandoned-disconnect")


def crossing_requests_sweep(ctx: Ctx, prop: str) -> None:
    """A local graceful disconnect() whose DisconnectRequest crosses, on the wire, requests and traffic of the device's own (keep-alive ping, time
    request of a `time: homeassistant` node, states, log lines): they arrive after the disconnect was initiated and before the device's answer or
    the close.  None of them takes the initiation back: whatever ends the session afterwards (the answer, EOF, reset, the unanswered disconnect
    running into its deadline), the stop callback fires once, with True, and the disconnect call itself returns as it would have without them."""
    S = L.default_spec
    t0 = L.core_start()
    idx = 0
    for framing in ("plain", "noise"):
        for crossing in ("ping_req", "time_req", "ping_req,time_req", "time_req,state,log", "state", "pong"):
            for gap in (0.0, 0.003):
                for ending in ("dresp", "dresp,eof", "eof", "rst", "unanswered", "same-chunk-dresp"):
                    idx += 1
                    if not ctx.mine(idx):
                        continue
                    t = t0 + 1.0
                    faults: list[dict[str, Any]] = [{"kind": "disconnect", "point": {"t": t}, "posclass": "crossing-request"}]
                    if ending == "same-chunk-dresp":
                        faults.append({"kind": f"chunk:{crossing},dresp", "point": {"t": t + gap}, "posclass": "crossing-request"})
                    else:
                        faults.append({"kind": f"chunk:{crossing}", "point": {"t": t + gap}, "posclass": "crossing-request"})
                        if ending != "unanswered":
                            faults.append({"kind": ending if ending in ("eof", "rst") else f"chunk:{ending}", "point": {"t": t + gap + 0.004}, "posclass": "crossing-request"})
                    spec = S(framing=framing, device={"handlers": "no_disconnect_answer"}, program=[["connect"], ["sleep", 30.0]], faults=faults)
                    record(ctx, prop, run_spec(spec), "crossing-request")


def raising_on_stop_sweep(ctx: Ctx, prop: str) -> None:
    """The application's stop callback raises synchronously: whatever happens to that exception, the closing connection must still have
    released its transport, socket and timers (the callback is the LAST thing a close does)."""
    S = L.default_spec
    t0 = L.core_start()
    idx = 0
    for framing in ("plain", "noise"):
        for keepalive, prog in ((20.0, [["connect"], ["sleep", 3.0], ["disconnect"]]), (1.0, [["connect"], ["sleep", 9.0], ["force"]])):
            for cause in ("none", "force", "disconnect", "eof", "rst", "garbage", "bad_pb", "peer_disconnect", "silence", "sendfail+cmd"):
                idx += 1
                if not ctx.mine(idx):
                    continue
                faults: list[dict[str, Any]] = []
                if cause == "sendfail+cmd":
                    faults = [{"kind": "sendfail", "point": {"t": t0 + 1.0}, "posclass": "raising-on_stop"}, {"kind": "cmd", "point": {"t": t0 + 1.1}, "posclass": "raising-on_stop"}]
                elif cause != "none":
                    faults = [{"kind": cause, "point": {"t": t0 + 1.0}, "posclass": "raising-on_stop"}]
                spec = S(framing=framing, keepalive=keepalive, program=prog, on_stop_mode="raises", faults=faults)
                record(ctx, prop, run_spec(spec), "raising-on_stop")


def outside_loop_client_sweep(ctx: Ctx, prop: str) -> None:
    """The client object was constructed before the loop that runs its sessions was running (`client = APIClient(...)` in synchronous set-up
    code, then `asyncio.run(main())`): every close cause must still reach the application's stop callback, and release everything."""
    S = L.default_spec
    t0 = L.core_start()
    idx = 0
    for framing in ("plain", "noise"):
        for keepalive, prog in ((20.0, [["connect"], ["sleep", 3.0], ["disconnect"]]), (1.0, [["connect"], ["sleep", 9.0], ["force"]])):
            for cause in ("none", "force", "disconnect", "eof", "rst", "etimedout", "garbage", "bad_pb", "peer_disconnect", "silence", "sendfail+cmd"):
                # (built in synchronous code before any loop ran / inside an earlier asyncio.run() of the process whose loop is closed by now)
                for built in (True, "closed-loop"):
                    idx += 1
                    if not ctx.mine(idx):
                        continue
                    faults: list[dict[str, Any]] = []
                    if cause == "sendfail+cmd":
                        faults = [{"kind": "sendfail", "point": {"t": t0 + 1.0}, "posclass": "client-built-outside-loop"}, {"kind": "cmd", "point": {"t": t0 + 1.1}, "posclass": "client-built-outside-loop"}]
                    elif cause != "none":
                        faults = [{"kind": cause, "point": {"t": t0 + 1.0}, "posclass": "client-built-outside-loop"}]
                    spec = S(framing=framing, keepalive=keepalive, program=prog, client_outside_loop=built, faults=faults)
                    record(ctx, prop, run_spec(spec), "client-built-outside-loop" if built is True else "client-built-in-an-earlier-closed-loop")


def dropped_client_sweep(ctx: Ctx, prop: str) -> None:
    """The application keeps no reference to the APIClient once the session is established (fire-and-forget helper that connects and returns):
    the session, and the stop callback registered for it, do not depend on the client object being referenced by anybody."""
    S = L.default_spec
    t0 = L.core_start()
    idx = 0
    for framing in ("plain", "noise"):
        for keepalive in (20.0, 1.0):
            for cause in ("eof", "rst", "etimedout", "garbage", "bad_pb", "peer_disconnect", "silence"):
                idx += 1
                if not ctx.mine(idx):
                    continue
                faults = [{"kind": cause, "point": {"t": t0 + 1.0}, "posclass": "client-object-unreferenced"}]
                spec = S(framing=framing, keepalive=keepalive, program=[["connect"], ["sleep", 12.0]], drop_client_after_connect=True, faults=faults)
                record(ctx, prop, run_spec(spec), "client-object-unreferenced")


def reconnect_in_on_stop_sweep(ctx: Ctx, prop: str) -> None:
    """Several sessions on ONE client object, each next one opened from inside the stop callback of the previous one (at once, i.e. still
    inside the closing connection's clean-up, or after one yield).  Every session has its own callback: each must be invoked exactly once."""
    S = L.default_spec
    t0 = L.core_start()
    idx = 0
    causes = ("force", "disconnect", "eof", "rst", "garbage", "bad_pb", "peer_disconnect", "silence", "sendfail+cmd")
    for framing in ("plain", "noise"):
        for mode in ("reconnect", "reconnect-after-yield"):
            for reconnects in (1, 2):
                for first in causes:
                    for second in causes:
                        idx += 1
                        if not ctx.mine(idx):
                            continue
                        if reconnects == 2 and (idx % 3):
                            continue
                        faults: list[dict[str, Any]] = []
                        t = t0 + 1.0
                        for cause in (first, second) + ((first,) if reconnects == 2 else ()):
                            if cause == "sendfail+cmd":
                                faults += [{"kind": "sendfail", "point": {"t": t}, "posclass": "reconnect-in-on_stop"}, {"kind": "cmd", "point": {"t": t + 0.1}, "posclass": "reconnect-in-on_stop"}]
                            else:
                                faults.append({"kind": cause, "point": {"t": t}, "posclass": "reconnect-in-on_stop"})
                            t += 12.0   # (a silenced device ends a session by ping timeout: 1 s keep-alive -> ~6.5 s)
                        if "silence" in (first, second):
                            continue    # silence reconfigures the device for good: the next session could not be established
                        spec = S(framing=framing, keepalive=1.0, program=[["connect"], ["sleep", 45.0]], on_stop_mode=mode, reconnects=reconnects, faults=faults)
                        record(ctx, prop, run_spec(spec), "reconnect-in-on_stop")


def connect_fault_sweep(ctx: Ctx, prop: str) -> None:
    """C09: resolver / TCP connect faults (error, hang, delay), alone and with user actions during the wait."""
    S = L.default_spec
    worlds = [
        ("dns-gaierror", S(address="dev.example.com", dns={"dev.example.com": "gaierror"})),
        ("dns-hang", S(address="dev.example.com", dns={"dev.example.com": "hang"})),
        ("dns-empty", S(address="dev.example.com", dns={"dev.example.com": []})),
        ("dns-slow-ok", S(address="dev.example.com", dns={"dev.example.com": ["delay", 3.0, ["10.0.0.1"]]})),
        ("dns-two-results-first-refuses", S(address="dev.example.com", dns={"dev.example.com": ["10.0.0.7", "10.0.0.1"]}, tcp={"10.0.0.7": ["refuse", 0.01]})),
        ("tcp-refuse", S(tcp={"10.0.0.1": ["refuse", 0.01]})),
        ("tcp-unreach", S(tcp={"10.0.0.1": ["unreach", 2.0]})),
        ("tcp-hang", S(tcp={"10.0.0.1": ["hang"]})),
        ("tcp-hang-dual", S(addresses=["10.0.0.7", "fd00::7"], tcp={"10.0.0.7": ["hang"], "fd00::7": ["hang"]})),
        ("tcp-dual-v4-hang-v6-ok", S(addresses=["10.0.0.7", "fd00::1"], tcp={"10.0.0.7": ["hang"]})),
        ("tcp-dual-both-refuse", S(addresses=["10.0.0.7", "fd00::7"], tcp={"10.0.0.7": ["refuse", 0.01], "fd00::7": ["unreach", 0.02]})),
        ("tcp-slow-ok", S(tcp={"10.0.0.1": ["ok-slow"]})),
        # the device accepts the TCP connection and aborts it at once: the RST is already in the kernel when the connecting task learns that its
        # connect succeeded (getpeername(), shutdown() answer ENOTCONN from then on)
        ("tcp-accept-then-reset", S(tcp={"10.0.0.1": ["ok-then-rst", 0.001], "fd00::1": ["ok-then-rst", 0.001]})),
        ("tcp-accept-then-reset-noise", S(framing="noise", tcp={"10.0.0.1": ["ok-then-rst", 0.001], "fd00::1": ["ok-then-rst", 0.001]})),
        ("setsockopt-nodelay-fails", S(sockopt_fail="nodelay")),
        ("setsockopt-rcvbuf-always-fails", S(sockopt_fail="rcvbuf")),
        ("setsockopt-quickack-unsupported", S(sockopt_fail="quickack")),
        ("silent-device-plain", S(device={"answer_hello": False})),
        ("silent-device-noise", S(framing="noise", device={"noise_silent": True})),
        ("no-connect-response", S(device={"answer_connect": False})),
        # the device REJECTS the client (or the client the device) during the connect phase - with user actions at every point of it
        ("invalid-password", S(device={"invalid_password": True})),
        ("bad-name-plain", S(expected_name="other")),
        ("bad-name-noise", S(framing="noise", expected_name="other")),
        ("noise-wrong-key", S(framing="noise", device={"noise_psk": bytes(range(100, 132))})),
        ("incompatible-version", S(device={"api_major": 3})),
    ]
    idx = 0
    for label, bspec in worlds:
        if label == "tcp-slow-ok":
            continue
        for split in (False, True):
            spec = {**bspec, "split_connect": split}
            base = run_spec(spec)
            idx += 1
            if ctx.mine(idx):
                record(ctx, prop, base, "connect-fault/" + label)
            pts = L.injection_points(base, True)
            for kind in ("force", "disconnect", "cancel"):
                for p in pts:
                    idx += 1
                    if ctx.mine(idx):
                        record(ctx, prop, run_spec({**spec, "faults": [{"kind": kind, "point": p, "posclass": L.posclass(p)}]}),
                               "connect-fault/" + label)


def replay(prop: str, spec_file: dict[str, Any]) -> int:
    spec = spec_file["case"]["spec"]
    obs = run_spec(spec)
    print(f"replay {prop}: baseline={spec_file['case'].get('label')} faults={spec['faults']} tail={spec.get('tail')}")
    print("\n".join(obs.trace))
    found = JUDGES[prop](obs)
    for k, w in found:
        print("  ->", k, ":", w)
    return 1 if found else 0

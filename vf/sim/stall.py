"""Shared pieces for "the device reads slowly / not at all" scenarios on the real selector transport (engine S).

FakeSocket.send_fault = "block"        the kernel accepts nothing (peer's window closed): everything queues in the transport
FakeSocket.send_fault = ("rate", n)    at most n bytes per send() call: the queue drains in pieces over many loop iterations
FakeSocket.send_fault = None           normal
"""

from __future__ import annotations

from typing import Any


def transport_of(sim: Any, dconn: Any) -> Any:
    for tr in reversed(sim.transports):
        if tr._fake is dconn.sock:  # noqa: SLF001
            return tr
    raise RuntimeError("no transport for this device connection")


def fill_write_buffer(cli: Any, tr: Any, target: int) -> int:
    """Queue client data (voice-assistant audio, then text commands of tuned length) until the transport's write buffer holds `target` bytes, or
    as close below it as one command frame allows.  The socket must be blocked.  Returns the buffer size reached."""
    s0 = tr.get_write_buffer_size()
    cli.text_command(1, "")
    ov = tr.get_write_buffer_size() - s0        # bytes one (short) command frame adds under this framing
    for _ in range(6000):
        size = tr.get_write_buffer_size()
        remaining = target - size
        if remaining >= ov + 300:
            cli.send_voice_assistant_audio(b"\x00" * min(remaining - ov - 250, 60000))
        elif remaining >= ov + 110:
            cli.text_command(1, "x" * 50)
        elif remaining >= ov:
            cli.text_command(1, "x" * (remaining - ov))
        else:
            break
    return tr.get_write_buffer_size()

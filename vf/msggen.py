"""Descriptor-driven generator of valid protobuf messages (boundary and random values).

Used by C12 (valid payloads for every type), C14 (conversion oracle) and C17
(state streams).  Works from the compiled descriptors through the protobuf
runtime (trusted base).
"""

from __future__ import annotations

import math
import struct
from typing import Any, Iterator

from google.protobuf.descriptor import FieldDescriptor as FD

INT_BOUNDS = {
    FD.TYPE_INT32: (-2**31, 2**31 - 1), FD.TYPE_SINT32: (-2**31, 2**31 - 1), FD.TYPE_SFIXED32: (-2**31, 2**31 - 1),
    FD.TYPE_INT64: (-2**63, 2**63 - 1), FD.TYPE_SINT64: (-2**63, 2**63 - 1), FD.TYPE_SFIXED64: (-2**63, 2**63 - 1),
    FD.TYPE_UINT32: (0, 2**32 - 1), FD.TYPE_FIXED32: (0, 2**32 - 1),
    FD.TYPE_UINT64: (0, 2**64 - 1), FD.TYPE_FIXED64: (0, 2**64 - 1),
}

STRINGS = ["", "a", "Living Room", "küche-日本語-🙂", "x" * 300, "with\x00nul", " lead/trail "]
BYTESV = [b"", b"\x00", b"\x00\x01\xff", bytes(range(256)), b"a" * 1000]


def f32(x: float) -> float:
    """Round-trip through IEEE single precision (what the wire carries)."""
    return struct.unpack("<f", struct.pack("<f", x))[0]


FLOATS = [0.0, -0.0, 1.0, -1.0, 0.1, 1 / 3, 21.5, 1e-38, 3.4028234663852886e38, -3.4028234663852886e38, 1.401298464324817e-45,
          1.1754943508222875e-38, 123456.789, 1e10, 0.5, 99.99, float("inf"), float("-inf"), float("nan")]


def float_from_bits(bits: int) -> float:
    return struct.unpack("<f", struct.pack("<I", bits & 0xFFFFFFFF))[0]


def enum_numbers(fd: Any, with_undeclared: bool = True) -> list[int]:
    nums = sorted({v.number for v in fd.enum_type.values})
    if with_undeclared:
        nums += [max(nums) + 1, max(nums) + 7, 2**31 - 1, -1]
    return nums


def scalar_values(fd: Any, rng: Any | None = None) -> list[Any]:
    """Boundary values for one scalar field (not repeated)."""
    t = fd.type
    if t in INT_BOUNDS:
        lo, hi = INT_BOUNDS[t]
        vals = {0, 1, 2, 127, 128, 255, 256, 65535, 65536, hi, hi - 1, lo, min(hi, 2**31 - 1), min(hi, 2**31)}
        if lo < 0:
            vals |= {-1, -128, lo + 1}
        return sorted(v for v in vals if lo <= v <= hi)
    if t == FD.TYPE_BOOL:
        return [False, True]
    if t in (FD.TYPE_FLOAT,):
        return [f32(x) for x in FLOATS]
    if t == FD.TYPE_DOUBLE:
        return list(FLOATS) + [1e300, 5e-324]
    if t == FD.TYPE_STRING:
        return list(STRINGS)
    if t == FD.TYPE_BYTES:
        return list(BYTESV)
    if t == FD.TYPE_ENUM:
        return enum_numbers(fd)
    raise ValueError(f"unsupported scalar type {t}")


def random_scalar(fd: Any, rng: Any) -> Any:
    t = fd.type
    if t in INT_BOUNDS:
        lo, hi = INT_BOUNDS[t]
        r = rng.random()
        if r < 0.4:
            return rng.randint(max(lo, -200), min(hi, 200))
        if r < 0.7:
            return rng.randint(lo, hi)
        return rng.choice(scalar_values(fd))
    if t == FD.TYPE_BOOL:
        return rng.random() < 0.5
    if t == FD.TYPE_FLOAT:
        r = rng.random()
        if r < 0.3:
            return rng.choice([f32(x) for x in FLOATS])
        if r < 0.6:
            return f32(round(rng.uniform(-1000, 1000), rng.randint(0, 4)))
        return float_from_bits(rng.getrandbits(32))
    if t == FD.TYPE_DOUBLE:
        return rng.uniform(-1e6, 1e6)
    if t == FD.TYPE_STRING:
        if rng.random() < 0.4:
            return rng.choice(STRINGS)
        return "".join(rng.choice("abcXYZ _-0129äß日") for _ in range(rng.randint(0, 20)))
    if t == FD.TYPE_BYTES:
        if rng.random() < 0.4:
            return rng.choice(BYTESV)
        return bytes(rng.getrandbits(8) for _ in range(rng.randint(0, 40)))
    if t == FD.TYPE_ENUM:
        return rng.choice(enum_numbers(fd))
    raise ValueError(f"unsupported scalar type {t}")


def set_field(msg: Any, fd: Any, value: Any) -> None:
    if fd.is_repeated:
        getattr(msg, fd.name).extend(value) if fd.type != FD.TYPE_MESSAGE else [getattr(msg, fd.name).add().CopyFrom(v) for v in value]
    elif fd.type == FD.TYPE_MESSAGE:
        getattr(msg, fd.name).CopyFrom(value)
    else:
        setattr(msg, fd.name, value)


def random_message(cls: Any, rng: Any, depth: int = 0, fill: float = 0.8) -> Any:
    msg = cls()
    for fd in cls.DESCRIPTOR.fields:
        if rng.random() > fill:
            continue
        if fd.type == FD.TYPE_MESSAGE:
            if depth >= 3:
                continue
            sub = _msg_class(msg, fd)
            if fd.is_repeated:
                set_field(msg, fd, [random_message(sub, rng, depth + 1) for _ in range(rng.choice([0, 1, 2, 5]))])
            else:
                set_field(msg, fd, random_message(sub, rng, depth + 1))
        elif fd.is_repeated:
            set_field(msg, fd, [random_scalar(fd, rng) for _ in range(rng.choice([0, 1, 2, 5]))])
        else:
            set_field(msg, fd, random_scalar(fd, rng))
    return msg


def _msg_class(parent: Any, fd: Any) -> Any:
    from google.protobuf import message_factory

    return message_factory.GetMessageClass(fd.message_type)


def boundary_messages(cls: Any, rng: Any) -> Iterator[tuple[str, Any]]:
    """One field at a time at each boundary value, everything else default; plus all-at-once combinations."""
    yield "default", cls()
    fields = list(cls.DESCRIPTOR.fields)
    for fd in fields:
        if fd.type == FD.TYPE_MESSAGE:
            sub = _msg_class(cls(), fd)
            for k in range(3):
                m = cls()
                if fd.is_repeated:
                    set_field(m, fd, [random_message(sub, rng, 1, fill=1.0) for _ in range(k)])
                else:
                    set_field(m, fd, random_message(sub, rng, 1, fill=1.0))
                yield f"{fd.name}=submsg*{k}", m
            continue
        vals = scalar_values(fd)
        if fd.is_repeated:
            for lst in ([], vals[:1], vals, vals[::-1][:5]):
                m = cls()
                set_field(m, fd, lst)
                yield f"{fd.name}=list[{len(lst)}]", m
        else:
            for v in vals:
                m = cls()
                set_field(m, fd, v)
                yield f"{fd.name}={v!r}"[:60], m
    for k in range(4):
        yield f"all-fields-{k}", random_message(cls, rng, fill=1.0)


def is_nan(x: Any) -> bool:
    return isinstance(x, float) and math.isnan(x)

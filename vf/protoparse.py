"""Small parser for the text of api.proto (proto3 subset used by ESPHome).

Independent source of truth for message ids, directions, fields and enums: the
simulated device and the C13/C14/C15 oracles use this, never the tables in
aioesphomeapi.core.
"""

from __future__ import annotations

import re
from dataclasses import dataclass, field
from pathlib import Path

from .common import REPO

_TOKEN = re.compile(
    r"""\s*(?:
        (?P<comment>//[^\n]*|/\*.*?\*/) |
        (?P<str>"(?:[^"\\]|\\.)*") |
        (?P<id>[A-Za-z_][A-Za-z0-9_.]*) |
        (?P<num>-?(?:0x[0-9a-fA-F]+|\d+)) |
        (?P<sym>[{}()\[\];=,<>])
    )""",
    re.X | re.S,
)


def tokenize(text: str) -> list[str]:
    out = []
    pos = 0
    n = len(text)
    while pos < n:
        m = _TOKEN.match(text, pos)
        if not m:
            if text[pos:].strip() == "":
                break
            raise ValueError(f"cannot tokenize at {pos}: {text[pos:pos+30]!r}")
        pos = m.end()
        if m.group("comment"):
            continue
        out.append(m.group(m.lastgroup))
    return out


@dataclass
class Field:
    name: str
    number: int
    type: str
    repeated: bool
    options: dict[str, str] = field(default_factory=dict)


@dataclass
class Message:
    name: str
    id: int | None = None
    source: str = "SOURCE_BOTH"
    fields: list[Field] = field(default_factory=list)
    options: dict[str, str] = field(default_factory=dict)

    def field_by_name(self, n: str) -> Field | None:
        for f in self.fields:
            if f.name == n:
                return f
        return None


@dataclass
class Enum:
    name: str
    values: dict[str, int] = field(default_factory=dict)  # name -> number, declaration order


@dataclass
class Proto:
    messages: dict[str, Message]
    enums: dict[str, Enum]

    @property
    def by_id(self) -> dict[int, Message]:
        return {m.id: m for m in self.messages.values() if m.id is not None}

    def id_of(self, name: str) -> int:
        mid = self.messages[name].id
        if mid is None:
            raise KeyError(f"{name} has no id")
        return mid


class _P:
    def __init__(self, toks: list[str]) -> None:
        self.t = toks
        self.i = 0

    def peek(self) -> str | None:
        return self.t[self.i] if self.i < len(self.t) else None

    def next(self) -> str:
        tok = self.t[self.i]
        self.i += 1
        return tok

    def expect(self, s: str) -> None:
        tok = self.next()
        if tok != s:
            raise ValueError(f"expected {s!r}, got {tok!r} at token {self.i}")

    def skip_block(self) -> None:
        depth = 0
        while True:
            tok = self.next()
            if tok == "{":
                depth += 1
            elif tok == "}":
                depth -= 1
                if depth == 0:
                    return

    def skip_stmt(self) -> None:
        while self.next() != ";":
            pass


def _parse_option(p: _P) -> tuple[str, str]:
    # option (name) = value ;   or   option name = value ;
    name = p.next()
    if name == "(":
        name = p.next()
        p.expect(")")
    p.expect("=")
    val = p.next()
    p.expect(";")
    return name, val


def _parse_field_options(p: _P) -> dict[str, str]:
    opts = {}
    if p.peek() == "[":
        p.next()
        while True:
            name = p.next()
            if name == "(":
                name = p.next()
                p.expect(")")
            p.expect("=")
            opts[name] = p.next()
            if p.peek() == ",":
                p.next()
                continue
            p.expect("]")
            break
    return opts


def _parse_message(p: _P) -> Message:
    m = Message(p.next())
    p.expect("{")
    while p.peek() != "}":
        tok = p.next()
        if tok == "option":
            k, v = _parse_option(p)
            m.options[k] = v
            if k == "id":
                m.id = int(v, 0)
            elif k == "source":
                m.source = v
        elif tok in ("reserved",):
            p.skip_stmt()
        elif tok in ("message", "enum", "oneof"):
            raise ValueError(f"nested {tok} in {m.name}: parser does not support it")
        else:
            repeated = False
            if tok in ("repeated", "optional"):
                repeated = tok == "repeated"
                tok = p.next()
            ftype = tok
            fname = p.next()
            p.expect("=")
            num = int(p.next(), 0)
            opts = _parse_field_options(p)
            p.expect(";")
            m.fields.append(Field(fname, num, ftype, repeated, opts))
    p.expect("}")
    return m


def _parse_enum(p: _P) -> Enum:
    e = Enum(p.next())
    p.expect("{")
    while p.peek() != "}":
        tok = p.next()
        if tok == "option":
            _parse_option(p)
            continue
        if tok == "reserved":
            p.skip_stmt()
            continue
        p.expect("=")
        e.values[tok] = int(p.next(), 0)
        _parse_field_options(p)
        p.expect(";")
    p.expect("}")
    return e


def parse(text: str) -> Proto:
    p = _P(tokenize(text))
    messages: dict[str, Message] = {}
    enums: dict[str, Enum] = {}
    while p.peek() is not None:
        tok = p.next()
        if tok in ("syntax", "import", "package"):
            p.skip_stmt()
        elif tok == "option":
            _parse_option(p)
        elif tok in ("service", "extend"):
            p.next()
            p.skip_block()
        elif tok == "message":
            m = _parse_message(p)
            if m.name in messages:
                raise ValueError(f"duplicate message {m.name}")
            messages[m.name] = m
        elif tok == "enum":
            e = _parse_enum(p)
            enums[e.name] = e
        elif tok == ";":
            continue
        else:
            raise ValueError(f"unexpected top-level token {tok!r}")
    return Proto(messages, enums)


_cache: dict[str, Proto] = {}


def load_api(repo: Path | None = None) -> Proto:
    path = (repo or REPO) / "aioesphomeapi" / "api.proto"
    key = str(path)
    if key not in _cache:
        _cache[key] = parse(path.read_text())
    return _cache[key]


if __name__ == "__main__":
    pr = load_api()
    ids = pr.by_id
    print(len(pr.messages), "messages,", len(ids), "with id, max id", max(ids), ",", len(pr.enums), "enums")
    print(pr.messages["LightCommandRequest"].fields[:3])

"""Independent reference codec for the ESPHome native API framing.

Written from the comment in api.proto ("A zero byte / VarInt size / VarInt type /
message") and from the Noise framing as documented by ESPHome
(0x01, 16-bit big-endian length, payload).  Shares nothing with
aioesphomeapi._frame_helper.
"""

from __future__ import annotations


class DecodeError(Exception):
    pass


def enc_varint(v: int) -> bytes:
    if v < 0:
        raise ValueError("negative varint")
    out = bytearray()
    while True:
        b = v & 0x7F
        v >>= 7
        if v:
            out.append(b | 0x80)
        else:
            out.append(b)
            return bytes(out)


def dec_varint(buf: bytes, pos: int) -> tuple[int, int] | None:
    """Return (value, new_pos) or None if the buffer ends inside the varint.

    Raises DecodeError for a non-minimal encoding (value re-encodes differently).
    """
    v = 0
    shift = 0
    start = pos
    while pos < len(buf):
        b = buf[pos]
        pos += 1
        v |= (b & 0x7F) << shift
        if not b & 0x80:
            if enc_varint(v) != bytes(buf[start:pos]):
                raise DecodeError(f"non-minimal varint {bytes(buf[start:pos]).hex()}")
            return v, pos
        shift += 7
        if shift > 70:
            raise DecodeError("varint too long")
    return None


def enc_plain(msg_type: int, payload: bytes) -> bytes:
    return b"\x00" + enc_varint(len(payload)) + enc_varint(msg_type) + payload


def plain_frame_layout(msg_type: int, payload: bytes) -> dict[str, tuple[int, int]]:
    """Byte ranges [start, end) of the parts of one plaintext frame."""
    l = len(enc_varint(len(payload)))
    t = len(enc_varint(msg_type))
    return {
        "preamble": (0, 1),
        "length": (1, 1 + l),
        "type": (1 + l, 1 + l + t),
        "payload": (1 + l + t, 1 + l + t + len(payload)),
    }


class PlainDecoder:
    """Strict incremental decoder of a plaintext byte stream (used on client writes)."""

    def __init__(self) -> None:
        self.buf = b""
        self.frames: list[tuple[int, bytes]] = []

    def feed(self, data: bytes) -> list[tuple[int, bytes]]:
        self.buf += bytes(data)
        out = []
        while self.buf:
            if self.buf[0] != 0:
                err = DecodeError(f"preamble {self.buf[0]:#x}")
                err.frames = out          # the complete frames in front of the bad byte were received all the same
                self.frames.extend(out)
                raise err
            r = dec_varint(self.buf, 1)
            if r is None:
                break
            length, pos = r
            r = dec_varint(self.buf, pos)
            if r is None:
                break
            mtype, pos = r
            if len(self.buf) < pos + length:
                break
            out.append((mtype, self.buf[pos:pos + length]))
            self.buf = self.buf[pos + length:]
        self.frames.extend(out)
        return out


def decode_plain_exact(data: bytes) -> list[tuple[int, bytes]]:
    """Decode bytes that must consist of whole frames only."""
    d = PlainDecoder()
    frames = d.feed(data)
    if d.buf:
        raise DecodeError(f"{len(d.buf)} trailing bytes do not form a frame")
    return frames


# ---------------------------------------------------------------- noise outer framing

def enc_noise_outer(body: bytes) -> bytes:
    if len(body) > 0xFFFF:
        raise ValueError("noise frame body too long")
    return b"\x01" + len(body).to_bytes(2, "big") + body


class NoiseOuterDecoder:
    def __init__(self) -> None:
        self.buf = b""

    def feed(self, data: bytes) -> list[bytes]:
        self.buf += bytes(data)
        out = []
        while len(self.buf) >= 3:
            if self.buf[0] != 1:
                raise DecodeError(f"noise marker {self.buf[0]:#x}")
            n = int.from_bytes(self.buf[1:3], "big")
            if len(self.buf) < 3 + n:
                break
            out.append(self.buf[3:3 + n])
            self.buf = self.buf[3 + n:]
        return out


def enc_noise_inner(msg_type: int, payload: bytes) -> bytes:
    if msg_type > 0xFFFF or len(payload) > 0xFFFF:
        raise ValueError("not representable")
    return msg_type.to_bytes(2, "big") + len(payload).to_bytes(2, "big") + payload


def dec_noise_inner(plain: bytes) -> tuple[int, bytes]:
    if len(plain) < 4:
        raise DecodeError("inner frame shorter than its header")
    t = int.from_bytes(plain[0:2], "big")
    n = int.from_bytes(plain[2:4], "big")
    if len(plain) != 4 + n:
        raise DecodeError(f"inner length field {n} != actual {len(plain) - 4}")
    return t, plain[4:]

"""Setup-time self-test of the reference pieces the oracles depend on."""

from __future__ import annotations

import sys


def main() -> int:
    from vf import common

    common.setup_path()
    from vf import protoparse, refcodec, refnoise

    for v in (0, 1, 127, 128, 300, 16383, 16384, 2**32 - 1, 2**35):
        e = refcodec.enc_varint(v)
        assert refcodec.dec_varint(e, 0) == (v, len(e)), v
    assert refcodec.decode_plain_exact(refcodec.enc_plain(300, b"abc") + refcodec.enc_plain(1, b"")) == [(300, b"abc"), (1, b"")]
    print("refcodec ok")
    print("refnoise", refnoise.selftest())
    pr = protoparse.load_api()
    print(f"protoparse ok: {len(pr.messages)} messages, {len(pr.by_id)} ids, {len(pr.enums)} enums")
    try:
        from vf.sim import calibrate  # noqa: PLC0415
    except ImportError:
        return 0
    return calibrate.main()


if __name__ == "__main__":
    sys.exit(main())

"""Process-wide monotonic clocks that follow the simulated loop clock while a scenario runs.

On a stock event loop `loop.time()` IS `time.monotonic()`.  The simulation drives `loop.time()`; library code that measures with
`time.monotonic()` / `time.perf_counter()` (directly, or through `from time import monotonic` bound at import time) must see the same time
pass, otherwise everything it times takes "zero seconds" under simulation.  `install()` replaces both functions in the `time` module by
dispatchers BEFORE the library is imported; `CURRENT` is set by Sim.__enter__ / cleared by Sim.__exit__.  Outside a scenario the real clocks
answer.  The wall clock (`time.time`) is a different clock in reality too and is left alone.
"""

from __future__ import annotations

import time as _time
from typing import Any

CURRENT: Any = None          # the Sim whose clock is in force
_REAL = (_time.monotonic, _time.perf_counter)
_installed = False


def real_monotonic() -> float:
    return _REAL[0]()


def _monotonic() -> float:
    s = CURRENT
    return s.clock if s is not None else _REAL[0]()


def _perf_counter() -> float:
    s = CURRENT
    return s.clock if s is not None else _REAL[1]()


def install() -> None:
    global _installed
    if not _installed:
        _time.monotonic = _monotonic          # type: ignore[assignment]
        _time.perf_counter = _perf_counter    # type: ignore[assignment]
        _installed = True

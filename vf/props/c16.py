"""C16 — Bluetooth operations are matched by address and handle and never cross-talk (engine S + matching model)."""

from __future__ import annotations

import itertools
from typing import Any

from vf.common import Ctx
from vf.sim.device import DeviceConfig
from vf.sim.scenario import Sim

LEVEL = "exploration"
RULE = ("1-4 concurrent operations from {read, read_descriptor, write(with response), write_descriptor, start_notify, pair, unpair, clear_cache, "
        "get_services, device_connect, device_disconnect} over addresses {A,B} x handles {1,2}; device replies = orderings of items from {matching "
        "response, same type for foreign address / foreign handle, GATT error matching / foreign address / foreign handle, connection change "
        "for A / B (connected or not; A, B and the two handles range over default and boundary values: 0, 2^48-1, neighbours, 2^32-1, 65535/65536), service chunks, nothing}; all permutations for small sets, seeded random otherwise; replies one per chunk or several back to back in one chunk; caller cancellation "
        "and connect timeouts included. Oracle: per-operation matching model over the recorded arrival history (first deciding arrival, exact "
        "completion instant, exact timeout instant, DISCONNECT on the wire before the connect TimeoutAPIError), then leftover probes: matching "
        "traffic after the end must reach no callback of a finished operation and the handler table must hold only the documented survivors. "
        "Non-trivial = at least one operation ended and was compared; distinct = (operation set, reply order, outcomes)")
ASSUMPTIONS = [
    "two operations that expect the same response type for the same (address, handle) are both decided by the same response (inherent to the protocol): the model is per operation",
    "documented survivors after an operation: the notify data callback after a successful start_notify (until its remove function), the connection-state callback after a successful device_connect (until unsub)",
    "engine S doubles as in C05",
]
BUDGET_S = {"quick": 300, "thorough": 3000}
MIN_EVALS = {"quick": 1500, "thorough": 30000}

A, B = 0x112233445566, 0xAABBCCDDEEFF
H1, H2 = 1, 2
DEFAULT_VALUES = (0x112233445566, 0xAABBCCDDEEFF, 1, 2)
# boundary values of the two identifiers an operation is matched by: 48-bit addresses (0, max, neighbours, equal low/high halves) and 32-bit handles
VALUE_SETS = [DEFAULT_VALUES, (0, 1, 0, 1), (2**48 - 1, 2**48 - 2, 2**32 - 1, 2**32 - 2), (0x112233445566, 0x112233445567, 65535, 65536),
              (1 << 32, 1, 1 << 16, 1), (0xFFFFFFFF, 0xFFFFFFFF00000000, 255, 256)]


def set_values(vals: Any) -> None:
    """Choose the concrete addresses / handles that 'A', 'B', 'handle 1', 'handle 2' stand for in the next case."""
    global A, B, H1, H2
    A, B, H1, H2 = (int(x) for x in vals)


def other_h(h: int) -> int:
    return H2 if h == H1 else H1
OPS = ("read", "read_descriptor", "write", "write_descriptor", "start_notify", "pair", "unpair", "clear_cache", "get_services",
       "device_connect", "device_disconnect")
HANDLE_OPS = {"read": "BluetoothGATTReadResponse", "read_descriptor": "BluetoothGATTReadResponse", "write": "BluetoothGATTWriteResponse",
              "write_descriptor": "BluetoothGATTWriteResponse", "start_notify": "BluetoothGATTNotifyResponse"}
ADDR_OPS = {"pair": "BluetoothDevicePairingResponse", "unpair": "BluetoothDeviceUnpairingResponse", "clear_cache": "BluetoothDeviceClearCacheResponse"}
TIMEOUT = 1.0
BLE_TYPES = ("BluetoothGATTReadResponse", "BluetoothGATTWriteResponse", "BluetoothGATTNotifyResponse", "BluetoothGATTNotifyDataResponse",
             "BluetoothGATTErrorResponse", "BluetoothDeviceConnectionResponse", "BluetoothDevicePairingResponse", "BluetoothDeviceUnpairingResponse",
             "BluetoothDeviceClearCacheResponse", "BluetoothGATTGetServicesResponse", "BluetoothGATTGetServicesDoneResponse")


# reason codes a proxy may report when a peripheral drops: every HCI / GATT status byte, the ESP-IDF 0x100+ range, and the ends of the int32 field
DROP_REASONS = tuple(range(0, 0x48)) + (0x50, 0x80, 0x85, 0x8D, 0xFF, 0x100, 0x101, 0x102, 0x10F, 0x1FF, 0xFFFF, 2**31 - 1, -1, -(2**31))


GATT_ERROR_CODES = (-1, 0, 1, 2, 3, 5, 8, 13, 15, 0x80, 0x85, 0x8F, 0xFF, 0x100, 257, 2**31 - 1, -(2**31))


def exhaustive(tier: str) -> Any:
    if tier == "thorough":
        return ["all orderings of every 1-4 item subset of the 10-item reply alphabet, for each single operation and for pairs sharing an address"]
    return False


def other(x: int) -> int:
    return B if x == A else A


def build_msg(pb: Any, item: list[Any], ops: list[dict[str, Any]], n: int) -> Any:
    """item = [kind, op index | addr, ...] -> protobuf message the device sends."""
    kind = item[0]
    if kind == "conn":
        return pb.BluetoothDeviceConnectionResponse(address=item[1], connected=bool(item[2]), mtu=23 + n, error=(item[3] if len(item) > 3 else 0 if item[2] else 8))
    op = ops[item[1]]
    a, h, name = op["addr"], op.get("handle", H1), op["op"]
    if kind in ("T", "T_fa", "T_fh"):
        aa = other(a) if kind == "T_fa" else a
        hh = other_h(h) if kind == "T_fh" else h
        if name in HANDLE_OPS:
            t = HANDLE_OPS[name]
            if t == "BluetoothGATTReadResponse":
                return pb.BluetoothGATTReadResponse(address=aa, handle=hh, data=bytes([n % 251, 7, n % 241]))
            return getattr(pb, t)(address=aa, handle=hh)
        if name in ADDR_OPS:
            if name == "pair":
                return pb.BluetoothDevicePairingResponse(address=aa, paired=True, error=n)
            return getattr(pb, ADDR_OPS[name])(address=aa, success=True, error=n)
        if name == "get_services":
            return pb.BluetoothGATTGetServicesDoneResponse(address=aa)
        return pb.BluetoothDeviceConnectionResponse(address=aa, connected=name == "device_connect", mtu=100 + n)
    if kind == "svc":
        return pb.BluetoothGATTGetServicesResponse(address=other(a) if len(item) > 2 and item[2] else a,
                                                   services=[pb.BluetoothGATTService(uuid=[n, n + 1], handle=n)])
    if kind in ("err", "err_fa", "err_fh"):
        # (an explicit error code may ride along: the GATT status byte range, ESPHome's own -1 "not connected", the ends of the int32 field)
        return pb.BluetoothGATTErrorResponse(address=other(a) if kind == "err_fa" else a, handle=other_h(h) if kind == "err_fh" else h,
                                             error=item[2] if len(item) > 2 else n)
    if kind in ("data", "data_fa", "data_fh"):
        # a spontaneous notification (a peripheral whose CCCD is still enabled from an earlier session): not an answer to anything
        return pb.BluetoothGATTNotifyDataResponse(address=other(a) if kind == "data_fa" else a, handle=other_h(h) if kind == "data_fh" else h, data=bytes([n % 251]))
    raise ValueError(kind)


def decide(op: dict[str, Any], msg: Any, acc: list[Any]) -> Any:
    """Matching model: does this arrival decide the operation?  None = no effect."""
    name, a, h = op["op"], op["addr"], op.get("handle", H1)
    t = type(msg).__name__
    if name in HANDLE_OPS:
        if t == HANDLE_OPS[name] and msg.address == a and msg.handle == h:
            return ("result", msg)
        if t == "BluetoothGATTErrorResponse" and msg.address == a and msg.handle == h:
            return ("gatt_error", msg)
        if t == "BluetoothDeviceConnectionResponse" and msg.address == a:
            return ("dropped", msg)
        return None
    if name in ADDR_OPS:
        if t == ADDR_OPS[name] and msg.address == a:
            return ("result", msg)
        if t == "BluetoothDeviceConnectionResponse" and msg.address == a:
            return ("dropped", msg)
        return None
    if name == "get_services":
        if t == "BluetoothGATTGetServicesResponse" and msg.address == a:
            acc.append(msg)
            return None
        if t == "BluetoothGATTGetServicesDoneResponse" and msg.address == a:
            return ("result", list(acc))
        if t == "BluetoothGATTErrorResponse" and msg.address == a:
            return ("gatt_error", msg)
        if t == "BluetoothDeviceConnectionResponse" and msg.address == a:
            return ("dropped", msg)
        return None
    if name == "device_connect":
        if t == "BluetoothDeviceConnectionResponse" and msg.address == a:
            return ("result", msg)
        return None
    if name == "device_disconnect":
        if t == "BluetoothDeviceConnectionResponse" and msg.address == a and not msg.connected:
            return ("result", msg)
        return None
    raise ValueError(name)


def run_case(case: dict[str, Any]) -> dict[str, Any]:
    from aioesphomeapi import api_pb2 as pb

    ops = case["ops"]
    set_values(case.get("values") or DEFAULT_VALUES)
    # a slow proxy / a peripheral going out of range: seconds, not milliseconds, between the request and what decides it (operation timeout raised
    # accordingly); the judge reads the same module value
    globals()["TIMEOUT"] = float(case.get("timeout", 1.0))
    with Sim() as sim:
        cfg = DeviceConfig()
        for n in ("BluetoothDeviceRequest", "BluetoothGATTGetServicesRequest", "BluetoothGATTReadRequest", "BluetoothGATTReadDescriptorRequest",
                  "BluetoothGATTWriteRequest", "BluetoothGATTWriteDescriptorRequest", "BluetoothGATTNotifyRequest"):
            cfg.handlers[n] = lambda c, m: None
        if case.get("answer_disconnect"):
            cfg.handlers["BluetoothDeviceRequest"] = lambda c, m: m.request_type == 1 and c.send("BluetoothDeviceConnectionResponse", address=m.address, connected=False)
        dev = sim.device(cfg)
        cli = sim.client(keepalive=1e5, debug=case.get("debug"))     # (None: the library's debug logging rotates; True / False: as the case says)
        c0 = sim.call("connect", lambda: cli.connect(login=False))
        sim.run(until=lambda: c0.done, max_time=sim.clock + 50)
        if c0.outcome != "ok":
            return {"error": f"connect: {c0.exc!r}"}
        conn = cli._connection  # noqa: SLF001
        dconn = dev.conn
        arrivals: list[tuple[int, float, Any]] = []
        by_id = dev.proto.by_id

        def hook(view: Any, ty: int, data: bytes) -> None:
            m = by_id.get(ty)
            if m is not None and m.name in BLE_TYPES:
                msg = getattr(pb, m.name)()
                msg.ParseFromString(bytes(data))
                arrivals.append((sim.next_seq(), sim.clock, msg))

        sim.packet_hook = hook
        cb_log: list[list[tuple[int, float, tuple[Any, ...]]]] = [[] for _ in ops]
        recs: list[Any] = []
        t0 = sim.clock

        def start(i: int, op: dict[str, Any]) -> Any:
            a, h, name = op["addr"], op.get("handle", H1), op["op"]
            if name == "read":
                return cli.bluetooth_gatt_read(a, h, timeout=TIMEOUT)
            if name == "read_descriptor":
                return cli.bluetooth_gatt_read_descriptor(a, h, timeout=TIMEOUT)
            if name == "write":
                return cli.bluetooth_gatt_write(a, h, b"\x01\x02", True, timeout=TIMEOUT)
            if name == "write_descriptor":
                return cli.bluetooth_gatt_write_descriptor(a, h, b"\x03", timeout=TIMEOUT)
            if name == "start_notify":
                return cli.bluetooth_gatt_start_notify(a, h, lambda hh, d: cb_log[i].append((sim.next_seq(), sim.clock, ("notify", hh, bytes(d)))), timeout=TIMEOUT)
            if name == "pair":
                return cli.bluetooth_device_pair(a, timeout=TIMEOUT)
            if name == "unpair":
                return cli.bluetooth_device_unpair(a, timeout=TIMEOUT)
            if name == "clear_cache":
                return cli.bluetooth_device_clear_cache(a, timeout=TIMEOUT)
            if name == "get_services":
                return cli.bluetooth_gatt_get_services(a)
            if name == "device_connect":
                return cli.bluetooth_device_connect(a, lambda *x: cb_log[i].append((sim.next_seq(), sim.clock, ("state", *x))), timeout=TIMEOUT,
                                                    disconnect_timeout=0.5, feature_flags=op.get("flags", 0), has_cache=op.get("cache", False),
                                                    address_type=op.get("atype"))
            if name == "device_disconnect":
                return cli.bluetooth_device_disconnect(a, timeout=TIMEOUT)
            raise ValueError(name)

        if case.get("free_subscription"):
            # the application also watches the proxy's connection slots (as Home Assistant does); the proxy reports all of them free - which says
            # nothing about a connect attempt in progress
            cli.subscribe_bluetooth_connections_free(lambda f, l: None)
            sim.run_for(0.001)
            dconn.send_msg(pb.BluetoothConnectionsFreeResponse(free=3, limit=3))
            sim.run_for(0.001)
        for i, op in enumerate(ops):
            recs.append(sim.call(f"{op['op']}#{i}", lambda i=i, op=op: start(i, op)))
        sim.run_for(0.001)
        n_requests = len(dconn.received)
        # case["groups"]: sizes of consecutive runs of replies that the device writes back to back, so that they reach the client in ONE
        # chunk (one data_received call: both are dispatched before any waiting task can run); default: every reply in its own chunk
        groups = case.get("groups") or [1] * len(case["replies"])
        k = 0
        for g in groups:
            dconn.outbox = []
            for item in case["replies"][k:k + g]:
                m_ = build_msg(pb, item, ops, k + 1)
                if case.get("newer_firmware"):
                    # a proxy running newer firmware: its messages carry fields this client's api.proto does not declare (kept as unknown fields by
                    # the protobuf runtime, so they are on the wire) - they match, complete and fail operations exactly like the plain ones
                    m2_ = type(m_)()
                    m2_.ParseFromString(m_.SerializeToString() + b"\xe0\x76\x2a" + b"\xea\x76\x03abc")
                    m_ = m2_
                dconn.send_msg(m_)
                k += 1
            out_, dconn.outbox = dconn.outbox, None
            if out_:
                dconn.deliver_items(out_, float(case.get("reply_gap", 0.01)) * k)
        cancels: dict[int, int] = {}
        for i, at in case.get("cancel", {}).items():
            def do_cancel(i: int = int(i)) -> None:
                if not recs[i].done:
                    cancels[i] = sim.next_seq()
                    sim.cancel(recs[i])
            if case.get("cancel_after_io"):
                # same loop iteration as the traffic of that instant, but BEHIND it (zero-delay timer): the answer has been dispatched,
                # the operation's task has not resumed yet
                sim.net.at(t0 + 0.001 + at, lambda f=do_cancel: sim.loop.call_at(sim.loop.time(), f))
            else:
                sim.at(t0 + 0.001 + at, do_cancel)
        horizon = 31.0 if any(o["op"] == "get_services" for o in ops) else 2.0 * TIMEOUT + 10.0 * float(case.get("reply_gap", 0.0)) * (len(case["replies"]) + 1)
        sim.run(until=lambda: all(r.done for r in recs), max_time=t0 + horizon + 0.5)
        sim.run_for(0.01)
        end_seq = sim.next_seq()
        # leftover probe: matching traffic for every operation after everything ended
        probe_start = len(arrivals)
        n = 50
        for i, op in enumerate(ops):
            n += 1
            if op["op"] in HANDLE_OPS or op["op"] in ADDR_OPS or op["op"] == "get_services":
                dconn.send_msg(build_msg(pb, ["T", i], ops, n))
                dconn.send_msg(build_msg(pb, ["err", i], ops, n))
            if op["op"] == "start_notify":
                a_, h_ = op["addr"], op.get("handle", H1)
                for aa, hh, dd in ((a_, h_, n), (a_, other_h(h_), n + 100), (other(a_), h_, n + 101), (a_, h_, n + 102)):
                    dconn.send_msg(pb.BluetoothGATTNotifyDataResponse(address=aa, handle=hh, data=bytes([dd % 256])))
            dconn.send_msg(build_msg(pb, ["conn", op["addr"], 0], ops, n))
        sim.run_for(0.01)
        handlers = getattr(conn, "_message_handlers", {})
        ble_regs = {t.__name__: len(hs) for t, hs in handlers.items() if t.__name__ in BLE_TYPES and hs}
        # release documented survivors and look again
        for i, r in enumerate(recs):
            if r.outcome == "ok" and ops[i]["op"] == "start_notify":
                r.result[1]()
            if r.outcome == "ok" and ops[i]["op"] == "device_connect":
                r.result()
        ble_regs_after_release = {t.__name__: len(hs) for t, hs in handlers.items() if t.__name__ in BLE_TYPES and hs}
        out = {"recs": recs, "arrivals": arrivals, "cb_log": cb_log, "cancels": cancels, "end_seq": end_seq, "probe_start": probe_start,
               "ble_regs": ble_regs, "ble_regs_after_release": ble_regs_after_release, "requests": dconn.received[:],
               "n_requests": n_requests, "harness_errors": list(sim.harness_errors), "trace": sim.trace(100), "t0": t0,
               "state": conn.connection_state.name}
        d = sim.call("bye", lambda: cli.disconnect(force=True))
        sim.run(until=lambda: d.done, max_time=sim.clock + 5)
        return out


def judge(case: dict[str, Any], o: dict[str, Any]) -> list[tuple[str, str]]:
    from aioesphomeapi.core import BluetoothConnectionDroppedError, BluetoothGATTAPIError, TimeoutAPIError

    out: list[tuple[str, str]] = []
    ops = case["ops"]
    survivors = {"BluetoothGATTNotifyDataResponse": 0, "BluetoothDeviceConnectionResponse": 0}
    for i, (op, rec) in enumerate(zip(ops, o["recs"])):
        name = op["op"]
        tag = f"{name}(addr={'A' if op['addr'] == A else 'B'}" + (f", handle={op.get('handle', 1)})" if name in HANDLE_OPS else ")")
        if not rec.done:
            out.append((f"C16/{name}/never-ended", f"{tag} still pending"))
            continue
        if rec.outcome == "never-started":
            continue
        timeout = 30.0 if name == "get_services" else TIMEOUT
        acc: list[Any] = []
        decision = None
        ambiguous = False
        for seq, t, msg in o["arrivals"][: o["probe_start"]]:
            if seq < rec.seq_call or t > rec.t_call + timeout + 1e-9:
                continue
            d = decide(op, msg, acc)
            if d is not None:
                if abs(t - (rec.t_call + timeout)) <= 1e-9:
                    ambiguous = True   # arrival in the very instant of the timeout: the order is the loop's
                    break
                decision = (d, t, seq)
                break
        cancelled = i in o["cancels"] and o["cancels"][i] < rec.seq_ret
        if cancelled:
            if rec.outcome != "cancelled":
                out.append((f"C16/{name}/cancel-not-propagated", f"{tag} cancelled by the caller but ended {rec.outcome} {rec.exc!r}"))
        elif ambiguous:
            pass
        elif decision is None:
            if not (rec.outcome == "raised" and isinstance(rec.exc, TimeoutAPIError)):
                got = rec.outcome if rec.exc is None else repr(rec.exc)[:100]
                out.append((f"C16/{name}/completed-by-foreign-message", f"{tag}: no deciding message arrived, yet it ended with {got}"))
            else:
                exp_t = rec.t_call + timeout
                if name == "device_connect":
                    disc = [r for r in o["requests"] if r["name"] == "BluetoothDeviceRequest" and r["msg"].request_type == 1
                            and r["msg"].address == op["addr"] and r["t"] >= exp_t - 1e-6]
                    if not disc:
                        out.append(("C16/device_connect/no-disconnect-on-timeout", f"{tag} timed out without sending a DISCONNECT request for its address"))
                    else:
                        if abs(disc[0]["t"] - exp_t) > 1e-6:  # noqa: SIM102
                            out.append(("C16/device_connect/disconnect-instant", f"DISCONNECT written at +{disc[0]['t'] - rec.t_call:.4f}s, timeout {timeout}s"))
                        if disc[0]["seq"] > rec.seq_ret:
                            out.append(("C16/device_connect/timeout-raised-before-disconnect", "TimeoutAPIError raised before the DISCONNECT request was written"))
                    lo, hi = exp_t, exp_t + 0.5
                    if not (lo - 1e-6 <= rec.t_ret <= hi + 1e-6):
                        out.append(("C16/device_connect/timeout-instant", f"raised at +{rec.t_ret - rec.t_call:.4f}s, expected within [{timeout}, {timeout + 0.5}]"))
                elif abs(rec.t_ret - exp_t) > 1e-6:
                    out.append((f"C16/{name}/timeout-instant", f"{tag} timed out at +{rec.t_ret - rec.t_call:.4f}s, timeout {timeout}s"))
        else:
            (kind, payload), t_dec, _ = decision
            if abs(rec.t_ret - t_dec) > 1e-6:
                when = "delayed" if rec.t_ret > t_dec else "early"
                out.append((f"C16/{name}/{when}", f"{tag}: deciding message arrived at +{t_dec - o['t0']:.3f}s, operation ended at +{rec.t_ret - o['t0']:.3f}s ({rec.outcome})"))
            if kind == "gatt_error":
                if not isinstance(rec.exc, BluetoothGATTAPIError):
                    out.append((f"C16/{name}/gatt-error-not-raised", f"{tag}: matching GATT error arrived, ended {rec.outcome} {rec.exc!r:.100}"))
                elif rec.exc.error.error != payload.error or rec.exc.error.address != payload.address or rec.exc.error.handle != payload.handle:
                    out.append((f"C16/{name}/gatt-error-foreign", f"{tag}: raised error {rec.exc.error}, deciding one was error={payload.error}"))
            elif kind == "dropped":
                if not isinstance(rec.exc, BluetoothConnectionDroppedError):
                    out.append((f"C16/{name}/drop-not-raised", f"{tag}: connection change for its address arrived, ended {rec.outcome} {rec.exc!r:.100}"))
            else:
                if rec.outcome != "ok":
                    out.append((f"C16/{name}/result-not-returned", f"{tag}: matching response arrived, ended {rec.outcome} {rec.exc!r:.100}"))
                else:
                    r = rec.result
                    if name in ("read", "read_descriptor") and bytes(r) != payload.data:
                        out.append((f"C16/{name}/foreign-result", f"{tag} returned {bytes(r)!r}, its response carried {payload.data!r}"))
                    if name == "pair" and (r.address != payload.address or r.error != payload.error or r.paired != payload.paired):
                        out.append(("C16/pair/foreign-result", f"{tag} returned {r}"))
                    if name in ("unpair", "clear_cache") and (r.address != payload.address or r.error != payload.error):
                        out.append((f"C16/{name}/foreign-result", f"{tag} returned {r}"))
                    if name == "get_services":
                        want = [s.handle for m in payload for s in m.services]
                        if r.address != op["addr"] or [s.handle for s in r.services] != want:
                            out.append(("C16/get_services/foreign-result", f"{tag} returned service handles {[s.handle for s in r.services]}, its chunks carried {want}"))
                    if name == "device_connect":
                        first = [c for c in o["cb_log"][i]][:1]
                        if not first or first[0][2] != ("state", payload.connected, payload.mtu, payload.error):
                            out.append(("C16/device_connect/state-callback", f"{tag}: callback log {first}, deciding message ({payload.connected}, {payload.mtu}, {payload.error})"))
                        survivors["BluetoothDeviceConnectionResponse"] += 1
                    if name == "start_notify":
                        survivors["BluetoothGATTNotifyDataResponse"] += 1
        if name == "start_notify" and rec.outcome == "ok":
            want = [bytes(m_.data) for sq, _, m_ in o["arrivals"] if sq > rec.seq_ret and type(m_).__name__ == "BluetoothGATTNotifyDataResponse"
                    and m_.address == op["addr"] and m_.handle == op.get("handle", H1)]
            # (notifications that arrive before the call has returned are outside the statement: judged from the return on)
            gotd = [ev[2] for sq_, _, ev in o["cb_log"][i] if ev[0] == "notify" and sq_ > rec.seq_ret]
            if gotd != want:
                out.append(("C16/start_notify/notify-data-mismatch", f"{tag}: notify callback received {gotd}, matching notifications carried {want}"))
        # callbacks of this operation: only matching traffic, and nothing after a non-success ending
        for seq, t, ev in o["cb_log"][i]:
            if name == "device_connect":
                pass
            if rec.outcome != "ok" and seq > rec.seq_ret:
                out.append((f"C16/{name}/callback-after-{'cancel' if rec.outcome == 'cancelled' else 'failure'}",
                            f"{tag} ended {rec.outcome} but its callback was still invoked afterwards: {ev}"))
                break
    # handler table after everything ended
    for tname, nreg in o["ble_regs"].items():
        allowed = survivors.get(tname, 0)
        if nreg > allowed:
            out.append((f"C16/handler-leftover/{tname}", f"{nreg} handlers still registered for {tname} after all operations ended, documented survivors {allowed}"))
    for tname, nreg in o["ble_regs_after_release"].items():
        out.append((f"C16/handler-leftover-after-release/{tname}", f"{nreg} handlers for {tname} remain after the unsubscribe functions were called"))
    if o["state"] != "CONNECTED":
        out.append(("C16/connection-closed", f"API connection state {o['state']} after BLE traffic"))
    return out


def reply_alphabet() -> list[list[Any]]:
    return [["T", 0], ["T_fa", 0], ["T_fh", 0], ["err", 0], ["err_fa", 0], ["err_fh", 0], ["conn", A, 0], ["conn", B, 1], ["conn", B, 0], ["data", 0]]


def gen_case(rng: Any) -> dict[str, Any]:
    vals = rng.choice(VALUE_SETS) if rng.random() < 0.5 else DEFAULT_VALUES
    set_values(vals)
    nops = rng.randint(1, 4)
    ops = []
    for _ in range(nops):
        name = rng.choice(OPS)
        op: dict[str, Any] = {"op": name, "addr": rng.choice([A, B])}
        if name in HANDLE_OPS:
            op["handle"] = rng.choice([H1, H2])
        if name == "device_connect":
            op["flags"] = rng.choice([0, 4])
            op["cache"] = rng.random() < 0.3
            op["atype"] = rng.choice([None, 0, 1])
        ops.append(op)
    replies = []
    for _ in range(rng.randint(0, 6)):
        i = rng.randrange(nops)
        r = rng.random()
        if r < 0.25:
            replies.append(["T", i])
        elif r < 0.4:
            replies.append([rng.choice(["T_fa", "T_fh"]), i])
        elif r < 0.55:
            replies.append([rng.choice(["err", "err_fa", "err_fh"]), i] + ([rng.choice(GATT_ERROR_CODES)] if rng.random() < 0.6 else []))
        elif r < 0.75:
            replies.append(["conn", rng.choice([A, B]), rng.randrange(2)])
        elif r < 0.9 and ops[i]["op"] == "get_services":
            replies.append(["svc", i, rng.randrange(2)])
        elif r >= 0.93:
            # an unsolicited notification for the operation's own address and handle (or a neighbouring one) ahead of / between the answers
            replies.append([rng.choice(["data", "data", "data_fa", "data_fh"]), i])
        else:
            replies.append(["T", i])
    case: dict[str, Any] = {"ops": ops, "replies": replies, "answer_disconnect": rng.random() < 0.5, "values": list(vals)}
    if rng.random() < 0.15:
        case["newer_firmware"] = True
    if rng.random() < 0.2:
        case["free_subscription"] = True
    if rng.random() < 0.12:
        case["timeout"] = 12.0
        case["reply_gap"] = rng.choice([1.4, 0.7, 3.0])
    if rng.random() < 0.2:
        case["cancel"] = {str(rng.randrange(nops)): rng.choice([0.0, 0.015, 0.035, 0.5])}
    if len(replies) >= 2 and rng.random() < 0.4:
        groups = []
        left = len(replies)
        while left:
            g = min(left, rng.choice((1, 2, 2, 3, 6)))
            groups.append(g)
            left -= g
        case["groups"] = groups
    return case


def one(ctx: Ctx, case: dict[str, Any], label: str) -> None:
    res = ctx.res
    o = run_case(case)
    res.evaluations += 1
    if o.get("error") or o["harness_errors"]:
        res.inconclusive.append(f"{label}: {o.get('error') or o['harness_errors'][0][-300:]}")
        return
    res.count(f"workload/{label}")
    ended = [r for r in o["recs"] if r.done and r.outcome != "never-started"]
    for op, r in zip(case["ops"], o["recs"]):
        res.count(f"op/{op['op']}/{r.outcome}" + (f"/{type(r.exc).__name__}" if r.exc is not None and r.outcome == "raised" else ""))
    res.count("ble_arrivals_seen", len(o["arrivals"]))
    if ended:
        res.sig(tuple((op["op"], op["addr"] == A, op.get("handle")) for op in case["ops"]), tuple(tuple(x) for x in case["replies"]),
                tuple(r.outcome for r in o["recs"]), tuple(case.get("cancel", {}).items()), tuple(case.get("groups") or ()))
        if case.get("groups") and max(case["groups"]) > 1:
            res.count("cases_with_several_replies_in_one_chunk")
    for key, what in judge(case, o):
        res.violation(key, what, {"case": case}, trace=o["trace"][-60:])
    if res.evaluations % 300 == 1:
        res.sample({"ops": [(op["op"], "A" if op["addr"] == A else "B", op.get("handle")) for op in case["ops"]], "replies": case["replies"],
                    "cancel": case.get("cancel"), "outcomes": [r.brief() for r in o["recs"]]})


def shard(ctx: Ctx) -> None:
    from vf.sim import device as _device_fw  # noqa: PLC0415

    _device_fw.ROTATE_FIRMWARE = True    # the firmware flavour of default devices rotates (hello without a name, API 1.2 / 1.8 / 1.12, deep sleep)
    from vf.sim import device as _device

    _device.AUTO_ROTATE = True   # chunking of the device's stream rotates: as written / replies coalesced / cut into 1..8-byte pieces
    rng = ctx.rng.__class__(f"C16/{ctx.seed}")
    n = 300000 if ctx.thorough else 10000
    for i in range(n):
        case = gen_case(rng)
        if ctx.mine(i):
            one(ctx, case, "random")
    # single operation x orderings of reply subsets (over every set of boundary addresses / handles)
    idx = 0
    sizes = (1, 2, 3, 4) if ctx.thorough else (1, 2)
    for vi, vals in enumerate(VALUE_SETS):
        set_values(vals)
        for name in OPS:
            base: dict[str, Any] = {"op": name, "addr": A}
            if name in HANDLE_OPS:
                base["handle"] = H1
            for k in sizes:
                if vi and k > 2:
                    continue
                for perm in itertools.permutations(reply_alphabet(), k):
                    idx += 1
                    if k >= 3 and not ctx.thorough:
                        continue
                    if k == 4 and idx % 7:
                        continue
                    if ctx.mine(idx):
                        one(ctx, {"ops": [base], "replies": [list(p) for p in perm], "answer_disconnect": idx % 2 == 0, "values": list(vals)}, "single-op-permutations")
                        if k >= 2 and (k == 2 or idx % 3 == 0):
                            # the same replies written back to back: they arrive in one chunk
                            one(ctx, {"ops": [base], "replies": [list(p) for p in perm], "answer_disconnect": idx % 2 == 0, "values": list(vals), "groups": [k]},
                                "single-op-permutations-one-chunk")
    set_values(DEFAULT_VALUES)
    # a connection drop with every reason code, for every operation (the text of the error is built from the code)
    for oi, name in enumerate(OPS):
        for reason in DROP_REASONS:
            if not (ctx.thorough or name in ("write", "start_notify", "unpair", "get_services", "device_connect") or (reason + oi) % 4 == 1):
                continue
            idx += 1
            if ctx.mine(idx):
                base = {"op": name, "addr": A, "handle": H1}
                one(ctx, {"ops": [base], "replies": [["conn", A, 0, reason]]}, "drop-reason-codes")
    cleanup_inside_state_callback(ctx)
    operation_started_inside_state_callback(ctx)
    retry_after_unanswered(ctx)
    # scale: dozens of operations outstanding at once on distinct handles of two peripherals, answered in a shuffled order, one per chunk or
    # all in one chunk; a few never answered (timeout), one peripheral dropping in the middle
    for n_ops in ((24, 60, 150) if ctx.thorough else (24, 60)):
        for variant in range(4):
            idx += 1
            if not ctx.mine(idx):
                continue
            r2 = rng.__class__(f"C16/scale/{n_ops}/{variant}")
            ops_ = []
            for k in range(n_ops):
                name = ("read", "write", "read_descriptor", "write_descriptor", "start_notify")[k % 5]
                ops_.append({"op": name, "addr": A if k % 3 else B, "handle": 1000 + k // 5})
            order = list(range(n_ops))
            r2.shuffle(order)
            unanswered = set(order[:3])
            replies = [["T", i] for i in order if i not in unanswered]
            if variant == 2:
                replies.insert(len(replies) // 2, ["conn", B, 0])
            if variant == 3:
                replies = [x for i in order if i not in unanswered for x in (["T_fa", i], ["T", i])]
            case = {"ops": ops_, "replies": replies, "values": list(DEFAULT_VALUES)}
            if variant == 1:
                case["groups"] = [len(replies)]
            one(ctx, case, "many-operations-at-once")
    # cancellation of every operation at several instants, followed by matching traffic (leftover probe)
    for name in OPS:
        for at in (0.0, 0.005, 0.5):
            idx += 1
            if ctx.mine(idx):
                base = {"op": name, "addr": A, "handle": H1}
                one(ctx, {"ops": [base], "replies": [["T_fa", 0]], "cancel": {"0": at}}, "cancel-then-matching-traffic")
        # nothing answers at all (timeout path), with the library's debug logging off and on
        for dbg in (False, True):
            idx += 1
            if ctx.mine(idx):
                one(ctx, {"ops": [{"op": name, "addr": A, "handle": H1}], "replies": [], "answer_disconnect": dbg, "debug": dbg}, "nothing-answers")
        # the deciding answer followed IN THE SAME CHUNK by more traffic the operation's filter accepts: a duplicate, a GATT error, a
        # connection change for its address (peripheral answers and drops at once) -- the first one decides, the rest has no effect
        for second in (["T", 0], ["err", 0], ["conn", A, 0], ["conn", A, 1], ["T_fa", 0]):
            for first in (["T", 0], ["err", 0]):
                idx += 1
                if ctx.mine(idx):
                    base = {"op": name, "addr": A, "handle": H1}
                    one(ctx, {"ops": [base], "replies": [first, second, second], "groups": [3]}, "answer-and-more-in-one-chunk")
        # cancel in the very loop iteration in which the deciding answer arrives, ahead of it and behind it
        for after_io in (False, True):
            idx += 1
            if ctx.mine(idx):
                base = {"op": name, "addr": A, "handle": H1}
                one(ctx, {"ops": [base], "replies": [["T", 0], ["T", 0]], "cancel": {"0": 0.01}, "cancel_after_io": after_io}, "cancel-races-answer")


def cleanup_inside_state_callback(ctx: Ctx) -> None:
    """The documented clean-up pattern: when the connection-state callback reports the peripheral gone, the application calls - from inside that
    callback - the unsub returned by bluetooth_device_connect and the remove function returned by bluetooth_gatt_start_notify. Operations on
    OTHER peripherals pending at that moment, and the API connection itself, must not notice."""
    from aioesphomeapi import api_pb2 as pb
    from aioesphomeapi.core import BluetoothConnectionDroppedError

    res = ctx.res
    idx = 0
    for with_notify in (False, True):
        for same_chunk in (False, True):
            for pending_on_a in (False, True):
                idx += 1
                if not ctx.mine(idx):
                    continue
                with Sim() as sim:
                    cfg = DeviceConfig()
                    for n in ("BluetoothDeviceRequest", "BluetoothGATTReadRequest", "BluetoothGATTNotifyRequest"):
                        cfg.handlers[n] = lambda c, m: None
                    dev = sim.device(cfg)
                    cli = sim.client(keepalive=1e5)
                    c0 = sim.call("connect", lambda: cli.connect(login=False))
                    sim.run(until=lambda: c0.done, max_time=sim.clock + 50)
                    dconn = dev.conn
                    holder: dict[str, Any] = {}
                    states: list[Any] = []

                    def on_state(connected: bool, mtu: int, error: int) -> None:
                        states.append((connected, mtu, error))
                        if not connected:
                            holder["unsub"]()
                            if "remove_notify" in holder:
                                holder["remove_notify"]()

                    r_conn = sim.call("device_connect", lambda: cli.bluetooth_device_connect(A, on_state, timeout=5.0))
                    sim.run_for(0.001)
                    dconn.send_msg(pb.BluetoothDeviceConnectionResponse(address=A, connected=True, mtu=50))
                    sim.run(until=lambda: r_conn.done, max_time=sim.clock + 6)
                    if r_conn.outcome != "ok":
                        res.inconclusive.append(f"C16 cleanup scenario: device_connect {r_conn.exc!r}")
                        continue
                    holder["unsub"] = r_conn.result
                    if with_notify:
                        r_n = sim.call("start_notify", lambda: cli.bluetooth_gatt_start_notify(A, 7, lambda h, d: None, timeout=5.0))
                        sim.run_for(0.001)
                        dconn.send_msg(pb.BluetoothGATTNotifyResponse(address=A, handle=7))
                        sim.run(until=lambda: r_n.done, max_time=sim.clock + 6)
                        if r_n.outcome == "ok":
                            holder["remove_notify"] = r_n.result[1]
                    r_b = sim.call("read(B)", lambda: cli.bluetooth_gatt_read(B, 1, timeout=5.0))
                    r_a = sim.call("read(A)", lambda: cli.bluetooth_gatt_read(A, 2, timeout=5.0)) if pending_on_a else None
                    sim.run_for(0.001)
                    msgs = [pb.BluetoothDeviceConnectionResponse(address=A, connected=False, error=8), pb.BluetoothGATTReadResponse(address=B, handle=1, data=b"ok")]
                    if same_chunk:
                        dconn.outbox = []
                        for m_ in msgs:
                            dconn.send_msg(m_)
                        out, dconn.outbox = dconn.outbox, None
                        dconn.deliver_items(out, 0.0)
                    else:
                        for m_ in msgs:
                            dconn.send_msg(m_)
                            sim.run_for(0.001)
                    sim.run(until=lambda: r_b.done and (r_a is None or r_a.done), max_time=sim.clock + 6)
                    res.evaluations += 1
                    res.count("workload/cleanup-inside-state-callback")
                    res.sig("cleanup-inside-cb", with_notify, same_chunk, pending_on_a)
                    case = {"kind": "cleanup-inside-state-callback", "with_notify": with_notify, "same_chunk": same_chunk, "pending_on_a": pending_on_a}
                    st = sim.conns[0].obj.connection_state.name
                    if r_b.outcome != "ok" or bytes(r_b.result) != b"ok":
                        res.violation("C16/read/disturbed-by-foreign-cleanup", f"read on peripheral B ended {r_b.outcome} {r_b.exc!r} when peripheral A's drop was cleaned up inside "
                                      "its state callback", case, trace=sim.trace(40))
                    if r_a is not None and not (r_a.outcome == "raised" and isinstance(r_a.exc, BluetoothConnectionDroppedError)):
                        res.violation("C16/read/drop-not-raised", f"read on the dropped peripheral A ended {r_a.outcome} {r_a.exc!r}", case, trace=sim.trace(40))
                    if st != "CONNECTED":
                        res.violation("C16/connection-closed", f"API connection state {st} after the clean-up inside the callback", case, trace=sim.trace(40))
                    if states != [(True, 50, 0), (False, 0, 8)]:
                        res.violation("C16/device_connect/state-callback", f"state callback saw {states}", case)


def operation_started_inside_state_callback(ctx: Ctx) -> None:
    """The application reacts to the connection-state callback by starting the next Bluetooth operation AT ONCE (an eager task, as Home Assistant
    creates them): the operation writes its request and subscribes - also for BluetoothDeviceConnectionResponse - while the connection is still
    dispatching the very response that triggered the callback.  That response is not the new operation's answer; the operation completes with its
    own answer, other pending operations and the API connection do not notice."""
    from aioesphomeapi import api_pb2 as pb

    res = ctx.res
    idx = 0
    for trigger in ("connected", "dropped"):
        for op in ("read(A)", "services(A)", "notify(A)", "connect(B)", "read(B2)", "reconnect(A)"):
            for same_chunk in (False, True):
                idx += 1
                if (op == "reconnect(A)") != (trigger == "dropped") or not ctx.mine(idx):
                    continue
                with Sim() as sim:
                    cfg = DeviceConfig()
                    for n in ("BluetoothDeviceRequest", "BluetoothGATTReadRequest", "BluetoothGATTNotifyRequest", "BluetoothGATTGetServicesRequest"):
                        cfg.handlers[n] = lambda c, m: None
                    dev = sim.device(cfg)
                    cli = sim.client(keepalive=1e5)
                    c0 = sim.call("connect", lambda: cli.connect(login=False))
                    sim.run(until=lambda: c0.done, max_time=sim.clock + 50)
                    dconn = dev.conn
                    states: list[Any] = []
                    inner: dict[str, Any] = {}

                    def start_inner() -> None:
                        if op == "read(A)":
                            inner["rec"] = sim.call(op, lambda: cli.bluetooth_gatt_read(A, 3, timeout=5.0), eager=True)
                        elif op == "read(B2)":
                            inner["rec"] = sim.call(op, lambda: cli.bluetooth_gatt_read(B, 9, timeout=5.0), eager=True)
                        elif op == "services(A)":
                            inner["rec"] = sim.call(op, lambda: cli.bluetooth_gatt_get_services(A), eager=True)
                        elif op == "notify(A)":
                            inner["rec"] = sim.call(op, lambda: cli.bluetooth_gatt_start_notify(A, 7, lambda h, d: None, timeout=5.0), eager=True)
                        elif op == "connect(B)":
                            inner["rec"] = sim.call(op, lambda: cli.bluetooth_device_connect(B, lambda *a: inner.setdefault("b_states", []).append(a), timeout=5.0), eager=True)
                        else:
                            inner["rec"] = sim.call(op, lambda: cli.bluetooth_device_connect(A, lambda *a: inner.setdefault("a2_states", []).append(a), timeout=5.0), eager=True)

                    def on_state(connected: bool, mtu: int, error: int) -> None:
                        states.append((connected, mtu, error))
                        if "rec" not in inner and connected == (trigger == "connected"):
                            start_inner()

                    r_conn = sim.call("device_connect", lambda: cli.bluetooth_device_connect(A, on_state, timeout=5.0))
                    r_b = sim.call("read(B)", lambda: cli.bluetooth_gatt_read(B, 1, timeout=5.0))
                    sim.run_for(0.001)
                    first = [pb.BluetoothDeviceConnectionResponse(address=A, connected=True, mtu=50)]
                    if trigger == "dropped":
                        dconn.send_msg(first[0])
                        sim.run(until=lambda: r_conn.done, max_time=sim.clock + 6)
                        first = [pb.BluetoothDeviceConnectionResponse(address=A, connected=False, error=8)]
                    answer = {"read(A)": pb.BluetoothGATTReadResponse(address=A, handle=3, data=b"inner"),
                              "read(B2)": pb.BluetoothGATTReadResponse(address=B, handle=9, data=b"inner"),
                              "services(A)": pb.BluetoothGATTGetServicesDoneResponse(address=A),
                              "notify(A)": pb.BluetoothGATTNotifyResponse(address=A, handle=7),
                              "connect(B)": pb.BluetoothDeviceConnectionResponse(address=B, connected=True, mtu=23),
                              "reconnect(A)": pb.BluetoothDeviceConnectionResponse(address=A, connected=True, mtu=77)}[op]
                    msgs = first + [pb.BluetoothGATTReadResponse(address=B, handle=1, data=b"ok")]
                    if same_chunk:
                        dconn.outbox = []
                        for m_ in msgs:
                            dconn.send_msg(m_)
                        out, dconn.outbox = dconn.outbox, None
                        dconn.deliver_items(out, 0.0)
                    else:
                        for m_ in msgs:
                            dconn.send_msg(m_)
                            sim.run_for(0.001)
                    sim.run_for(0.01)
                    started = "rec" in inner
                    early = started and inner["rec"].done
                    early_what = (inner["rec"].outcome, repr(inner["rec"].exc)) if early else None
                    dconn.send_msg(answer)
                    sim.run(until=lambda: r_b.done and r_conn.done and (not started or inner["rec"].done), max_time=sim.clock + 12)
                    res.evaluations += 1
                    res.count("workload/operation-started-inside-state-callback")
                    res.sig("op-inside-cb", trigger, op, same_chunk)
                    case = {"kind": "operation-started-inside-state-callback", "trigger": trigger, "op": op, "same_chunk": same_chunk}
                    st = sim.conns[0].obj.connection_state.name
                    if sim.harness_errors:
                        res.inconclusive.append("C16 inside-callback scenario: " + sim.harness_errors[0][-300:])
                        continue
                    if not started:
                        res.inconclusive.append(f"C16 inside-callback scenario: the state callback never reported {trigger}")
                        continue
                    tag = op.split("(")[0].replace("re", "", 1) if op == "reconnect(A)" else op.split("(")[0]
                    rec = inner["rec"]
                    if st != "CONNECTED":
                        res.violation("C16/connection-closed", f"API connection state {st} after {op} was started from inside the state callback ({trigger})", case,
                                      trace=sim.trace(40))
                    if early:
                        res.violation(f"C16/{tag}/completed-by-the-triggering-response", f"{op}, started from inside the callback for {type(first[0]).__name__}"
                                      f"({trigger}), ended {early_what} before its own answer was sent", case, trace=sim.trace(40))
                    elif rec.outcome != "ok":
                        res.violation(f"C16/{tag}/inner-operation-failed", f"{op} started from inside the state callback ended {rec.outcome} {rec.exc!r} although the device "
                                      "answered it", case, trace=sim.trace(40))
                    elif op.startswith("read") and bytes(rec.result) != b"inner":
                        res.violation(f"C16/read/wrong-result", f"{op} returned {bytes(rec.result)!r}", case)
                    elif op == "reconnect(A)" and inner.get("a2_states") != [(True, 77, 0)]:
                        res.violation("C16/device_connect/state-callback", f"second connect's callback saw {inner.get('a2_states')}", case)
                    if r_b.outcome != "ok" or bytes(r_b.result) != b"ok":
                        res.violation("C16/read/disturbed-by-foreign-operation", f"read on peripheral B ended {r_b.outcome} {r_b.exc!r} when an operation was started from inside "
                                      "A's state callback", case, trace=sim.trace(40))
                    exp_states = [(True, 50, 0)] if trigger == "connected" else [(True, 50, 0), (False, 0, 8)]
                    if states[:len(exp_states)] != exp_states or (op != "reconnect(A)" and states != exp_states):
                        res.violation("C16/device_connect/state-callback", f"state callback saw {states}, expected {exp_states}", case)


def retry_after_unanswered(ctx: Ctx) -> None:
    """An operation the proxy never answered ends with its timeout error; the same operation on the same peripheral and handle, issued again and
    answered normally (once), completes with that answer - for every kind of operation; an unrelated operation in between changes nothing.  Then every
    declared GATT error code, sent for a pending read / write / notify, fails it with the GATT error carrying that code."""
    from aioesphomeapi import api_pb2 as pb
    from aioesphomeapi.core import BluetoothGATTAPIError, TimeoutAPIError

    res = ctx.res
    set_values(DEFAULT_VALUES)
    ops = {
        "read": (lambda cli: cli.bluetooth_gatt_read(A, 5, timeout=1.5), lambda: pb.BluetoothGATTReadResponse(address=A, handle=5, data=b"again"),
                 lambda r: bytes(r) == b"again"),
        "read_descriptor": (lambda cli: cli.bluetooth_gatt_read_descriptor(A, 6, timeout=1.5), lambda: pb.BluetoothGATTReadResponse(address=A, handle=6, data=b"d"),
                            lambda r: bytes(r) == b"d"),
        "write": (lambda cli: cli.bluetooth_gatt_write(B, 6, b"\x01", True, timeout=1.5), lambda: pb.BluetoothGATTWriteResponse(address=B, handle=6), lambda r: r is None),
        "write_descriptor": (lambda cli: cli.bluetooth_gatt_write_descriptor(B, 7, b"\x02", timeout=1.5), lambda: pb.BluetoothGATTWriteResponse(address=B, handle=7),
                             lambda r: r is None),
        "start_notify": (lambda cli: cli.bluetooth_gatt_start_notify(A, 8, lambda h, d: None, timeout=1.5), lambda: pb.BluetoothGATTNotifyResponse(address=A, handle=8),
                         lambda r: isinstance(r, tuple) and len(r) == 2),
        "pair": (lambda cli: cli.bluetooth_device_pair(A, timeout=1.5), lambda: pb.BluetoothDevicePairingResponse(address=A, paired=True), lambda r: r.paired is True),
        "unpair": (lambda cli: cli.bluetooth_device_unpair(A, timeout=1.5), lambda: pb.BluetoothDeviceUnpairingResponse(address=A, success=True), lambda r: r.success is True),
        "clear_cache": (lambda cli: cli.bluetooth_device_clear_cache(B, timeout=1.5), lambda: pb.BluetoothDeviceClearCacheResponse(address=B, success=True),
                        lambda r: r.success is True),
    }
    idx = 0
    for name, (call, answer, good) in ops.items():
        for between in (False, True):
            idx += 1
            if not ctx.mine(idx):
                continue
            with Sim() as sim:
                cfg = DeviceConfig()
                for n in ("BluetoothDeviceRequest", "BluetoothGATTReadRequest", "BluetoothGATTReadDescriptorRequest", "BluetoothGATTWriteRequest",
                          "BluetoothGATTWriteDescriptorRequest", "BluetoothGATTNotifyRequest"):
                    cfg.handlers[n] = lambda c, m: None
                dev = sim.device(cfg)
                cli = sim.client(keepalive=1e5)
                c0 = sim.call("connect", lambda: cli.connect(login=False))
                sim.run(until=lambda: c0.done, max_time=sim.clock + 50)
                dconn = dev.conn
                case = {"kind": "retry-after-unanswered", "op": name, "unrelated_operation_between": between}
                outcomes = []
                for rnd in range(3):
                    a = sim.call(f"{name}#{rnd}", lambda: call(cli))
                    sim.run(until=lambda: a.done, max_time=sim.clock + 5)
                    res.evaluations += 1
                    res.count("workload/retry-after-unanswered")
                    if not isinstance(a.exc, TimeoutAPIError) or abs((a.t_ret - a.t_call) - 1.5) > 1e-6:
                        res.violation(f"C16/{name}/timeout", f"{name} never answered (round {rnd}): ended {a.outcome} {a.exc!r:.80} after "
                                      f"{0 if a.t_ret is None else a.t_ret - a.t_call:.3f}s, timeout 1.5s", case, trace=sim.trace(30))
                        break
                    if between:
                        o_ = sim.call("other", lambda: cli.bluetooth_gatt_read(B, 99, timeout=1.0))
                        sim.run_for(0.01)
                        dconn.send_msg(pb.BluetoothGATTReadResponse(address=B, handle=99, data=b"o"))
                        sim.run(until=lambda: o_.done, max_time=sim.clock + 3)
                    b = sim.call(f"{name}#{rnd}-again", lambda: call(cli))
                    sim.run_for(0.01)
                    dconn.send_msg(answer())
                    sim.run(until=lambda: b.done, max_time=sim.clock + 5)
                    res.evaluations += 1
                    res.sig("retry-after-unanswered", name, between, rnd)
                    outcomes.append(b.outcome)
                    if b.outcome != "ok" or not good(b.result):
                        res.violation(f"C16/{name}/result-not-returned", f"{name}: the previous identical operation timed out unanswered; this one was answered by the proxy "
                                      f"after 10 ms but ended {b.outcome} {b.exc!r:.100} after {0 if b.t_ret is None else b.t_ret - b.t_call:.3f}s", case, trace=sim.trace(40))
                        break
                    elif abs((b.t_ret - b.t_call) - 0.01) > 2e-3:
                        res.violation(f"C16/{name}/delayed", f"{name}: answered after 10 ms, completed after {b.t_ret - b.t_call:.3f}s", case)
                if sim.harness_errors:
                    res.inconclusive.append("C16 retry scenario: " + sim.harness_errors[0][-300:])
    # every error code
    for j, code in enumerate(GATT_ERROR_CODES):
        for name in ("read", "write", "start_notify"):
            idx += 1
            if not ctx.mine(idx):
                continue
            call, answer, good = ops[name]
            a_, h_ = {"read": (A, 5), "write": (B, 6), "start_notify": (A, 8)}[name]
            with Sim() as sim:
                cfg = DeviceConfig()
                for n in ("BluetoothGATTReadRequest", "BluetoothGATTWriteRequest", "BluetoothGATTNotifyRequest"):
                    cfg.handlers[n] = lambda c, m: None
                dev = sim.device(cfg)
                cli = sim.client(keepalive=1e5)
                c0 = sim.call("connect", lambda: cli.connect(login=False))
                sim.run(until=lambda: c0.done, max_time=sim.clock + 50)
                a = sim.call(name, lambda: call(cli))
                sim.run_for(0.01)
                dev.conn.send_msg(pb.BluetoothGATTErrorResponse(address=a_, handle=h_, error=code))
                sim.run(until=lambda: a.done, max_time=sim.clock + 5)
                res.evaluations += 1
                res.count("workload/gatt-error-codes")
                res.sig("gatt-error-code", name, code)
                case = {"kind": "gatt-error-code", "op": name, "error": code}
                if not isinstance(a.exc, BluetoothGATTAPIError):
                    res.violation(f"C16/{name}/gatt-error-not-raised", f"{name}: error response for its address and handle with code {code} arrived; ended {a.outcome} "
                                  f"{a.exc!r:.100}", case, trace=sim.trace(30))
                elif a.exc.error.error != code or a.exc.error.address != a_ or a.exc.error.handle != h_:
                    res.violation(f"C16/{name}/gatt-error-foreign", f"{name}: raised {a.exc.error}, sent code {code}", case)


def replay(spec: dict[str, Any]) -> int:
    if spec["case"].get("kind") in ("retry-after-unanswered", "gatt-error-code"):
        print(spec["what"])
        return 1
    if spec["case"].get("kind") == "operation-started-inside-state-callback":
        print(spec["what"])
        return 1
    if spec["case"].get("kind") == "cleanup-inside-state-callback":
        print(spec["what"])
        return 1
    case = spec["case"]["case"]
    o = run_case(case)
    print("\n".join(o["trace"]))
    found = judge(case, o)
    print(found)
    return 1 if found else 0

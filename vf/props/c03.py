"""C03 — Noise sessions interoperate with any conformant responder, for any chunking.

The responder is vf.refnoise (written from the Noise spec).  Monitored: the
client's writes, ready_future after every data_received call, process_packet
calls stamped with the call index, errors.
"""

from __future__ import annotations

import itertools
import os
from typing import Any

from vf import noisew, refcodec, wire
from vf.common import Ctx

LEVEL = "exploration"
RULE = ("cases = (psk, server name variant, expected-name setting, message sequence, segmentation of the server byte stream, buffer type); "
        "each case is a fresh handshake of the real APINoiseFrameHelper against the independent responder. Non-trivial = handshake "
        "outcome was judged (readiness call index or BadName) and, for accepted sessions with data, deliveries compared; distinct = "
        "(name relation, cut-position classes incl. which frame/header is straddled, message-size classes, buffer type)"
        " Part S: real APIClient.connect() on the simulated loop against the independent Noise device with its first chunk (hello + handshake [+ 2 data "
        "frames written right behind the handshake]) cut at EVERY offset, name rule end to end (BadNameAPIError.received_name, nothing sent on), and "
        "send_messages before readiness (ConnectionNotEstablishedAPIError, zero transport writes)."
        " Long sessions: 1100-4200 (quick) / 9000-70000 (thorough) frames in ONE session, delivered whole, frame by frame, in 1460-byte segments and with random cuts (receive counter boundaries).")
ASSUMPTIONS = [
    "independent NNpsk0 responder (spec-derived, cross-checked against noiseprotocol default backend at setup)",
    "a hello without a device name is accepted whatever the expected name (nothing announced to reject): recorded, not judged",
    "API-level 'no send before readiness' is observed in engine S (C03 part S); engine W checks that the helper writes nothing but hello+handshake",
    "'the same key' is the 32 bytes: base64 text carrying ASCII white space around or inside it (trailing newline, wrapped line) that the standard decoder reads as those 32 bytes configures the same key (part S, key_spellings); C04's rejection clause is judged only on texts that do NOT decode to 32 bytes",
]
BUDGET_S = {"quick": 240, "thorough": 2400}
MIN_EVALS = {"quick": 2000, "thorough": 40000}

# the server hello is `01 <name> 00` and, with current firmware, further NUL-terminated fields behind it (MAC address, ...): a value with an
# embedded NUL below stands for "<name> 00 <more fields>" (the responder appends the final 00); the announced name is what precedes the first NUL
NAMES: list[tuple[str, bytes | None]] = [
    ("absent", None), ("empty", b""), ("ascii", b"livingroom"), ("utf8", "küche-日本".encode()), ("long", b"n" * 200),
    ("ascii+mac", b"livingroom\x00aabbccddeeff"), ("utf8+two-fields", "küche".encode() + b"\x00aabbccddeeff\x00esp32"), ("empty+mac", b"\x00aabbccddeeff"),
]


def announced(name: bytes) -> bytes:
    return name.split(b"\x00")[0]


def expected_variants(name: bytes | None) -> list[tuple[str, str | None]]:
    out: list[tuple[str, str | None]] = [("unset", None)]
    if name is None:
        out.append(("set-vs-absent", "livingroom"))
        return out
    s = announced(name).decode()
    out.append(("equal", s))
    out.append(("different", s + "x"))
    if s.lower() != s.upper():
        out.append(("case-differs", s.swapcase()))
    if s:
        out.append(("prefix", s[:-1]))
    return out


def run_case(psk: bytes, name: bytes | None, expected: str | None, msgs: list[tuple[int, bytes]],
             cuts: tuple[int, ...], kind: str) -> dict[str, Any]:
    problems: list[tuple[str, str]] = []
    h, c, t, d = wire.make_noise(noisew.b64(psk), expected)
    d.start()
    srv = noisew.NoiseServer(psk, name)
    info: dict[str, Any] = {"judged": None}
    if len(t.writes) != 1:
        problems.append(("client-first-write", f"{len(t.writes)} writes in connection_made"))
        return {"problems": problems, **info}
    try:
        srv.accept_client_first_write(t.writes[0])
    except Exception as e:  # noqa: BLE001
        problems.append(("client-handshake-rejected", f"conformant responder rejects the client's hello/handshake: {e!r}"))
        return {"problems": problems, **info}
    if srv.client_payload != b"":
        problems.append(("client-handshake-payload", f"handshake payload {srv.client_payload!r}"))
    st = noisew.ServerStream()
    srv.server_handshake(st)
    for ty, p in msgs:
        srv.add_message(st, ty, p)
    stream = st.stream
    chunks = wire.cuts_to_chunks(stream, cuts)
    bounds = list(itertools.accumulate(len(x) for x in chunks))
    ends = st.frame_ends()
    hello_end, hs_end, data_ends = ends[0], ends[1], ends[2:]

    def call_of(off: int) -> int:
        return next(j for j, b in enumerate(bounds) if b >= off)

    must_reject = name is not None and expected is not None and announced(name).decode() != expected
    for ch in chunks:
        obj, ba = wire.wrap_chunk(ch, kind)
        cont = d.feed(obj)
        wire.scrub(ba)
        if not cont:
            break
    from aioesphomeapi.core import BadNameAPIError

    if must_reject:
        info["judged"] = "reject"
        if not c.fatal or not isinstance(c.fatal[0][0], BadNameAPIError):
            problems.append(("name-mismatch-accepted", f"device name {name!r} != expected {expected!r} but first error is "
                             f"{c.fatal[0][0]!r}" if c.fatal else f"device name {name!r} != expected {expected!r} accepted"))
        else:
            e = c.fatal[0][0]
            if e.received_name != announced(name).decode():
                problems.append(("bad-name-wrong-received-name", f"received_name={e.received_name!r} want {announced(name).decode()!r}"))
            if c.fatal[0][1] != call_of(hello_end):
                problems.append(("bad-name-timing", f"reported in call {c.fatal[0][1]}, hello complete in call {call_of(hello_end)}"))
        if not isinstance(d.ready_exc, BadNameAPIError):
            problems.append(("bad-name-ready-future", f"ready_future outcome {d.ready_exc!r} (done={h.ready_future.done()})"))
        if c.packets:
            problems.append(("delivered-after-bad-name", f"{len(c.packets)} packets delivered"))
        if not t.closing:
            problems.append(("bad-name-not-closed", "transport not closed"))
        if len(t.writes) + len(t.writes_after_close) != 1:
            problems.append(("wrote-after-bad-name", "extra client writes"))
        return {"problems": problems, **info}

    info["judged"] = "accept"
    if c.fatal:
        problems.append(("fatal-on-conformant", f"report_fatal_error({c.fatal[0][0]!r}) in call {c.fatal[0][1]}"))
    if d.escaped:
        problems.append(("escaped", f"{d.escaped[0]!r}"))
    if t.closing:
        problems.append(("closed-on-conformant", "transport closed"))
    exp_ready = call_of(hs_end)
    if d.ready_at is None:
        problems.append(("never-ready", "ready_future never resolved"))
    elif d.ready_exc is not None:
        problems.append(("ready-exception", f"ready_future failed with {d.ready_exc!r}"))
    elif d.ready_at != exp_ready:
        when = "early" if d.ready_at < exp_ready else "late"
        problems.append((f"ready-{when}", f"ready in call {d.ready_at}, handshake frame complete in call {exp_ready}"))
    if len(t.writes) != 1 or t.writes_after_close:
        problems.append(("extra-writes", f"{len(t.writes)} writes during receive"))
    if len(c.packets) != len(msgs):
        problems.append(("count", f"{len(c.packets)} deliveries, expected {len(msgs)}"))
    for i, ((gt, gp, gj), (et, ep)) in enumerate(zip(c.packets, msgs)):
        if gt != et or bytes(gp) != ep:
            problems.append(("mismatch", f"message {i}: got ({gt}, {len(gp)} bytes) want ({et}, {len(ep)} bytes)"))
        ej = call_of(data_ends[i])
        if gj != ej:
            problems.append(("timing-" + ("early" if gj < ej else "late"), f"message {i} delivered in call {gj}, complete in call {ej}"))
        if d.ready_at is not None and gj < d.ready_at:
            problems.append(("delivered-before-ready", f"message {i} in call {gj} < ready {d.ready_at}"))
    info["n_delivered"] = len(c.packets)
    info["layout"] = (hello_end, hs_end, data_ends)
    info["stream_len"] = len(stream)
    return {"problems": problems, **info}


def run_interleaved(sessions: list[tuple[bytes, bytes | None, list[tuple[int, bytes]], tuple[int, ...]]], kind: str) -> list[tuple[str, str]]:
    """Several Noise sessions (own key, own name) alive in one process, their server streams fed alternately chunk by chunk: each connection
    gets exactly the messages its responder encrypted - cipher state, buffers and counters belong to one helper."""
    live = []
    problems: list[tuple[str, str]] = []
    for psk, name, msgs, cuts in sessions:
        h, c, t, d = wire.make_noise(noisew.b64(psk), None)
        d.start()
        srv = noisew.NoiseServer(psk, name)
        srv.accept_client_first_write(t.writes[0])
        st = noisew.ServerStream()
        srv.server_handshake(st)
        for ty, p in msgs:
            srv.add_message(st, ty, p)
        live.append({"c": c, "d": d, "t": t, "msgs": msgs, "chunks": wire.cuts_to_chunks(st.stream, cuts), "pos": 0})
    k = 0
    while any(x["pos"] < len(x["chunks"]) for x in live):
        x = live[k % len(live)]
        k += 1
        if x["pos"] >= len(x["chunks"]):
            continue
        obj, ba = wire.wrap_chunk(x["chunks"][x["pos"]], kind)
        x["pos"] += 1
        x["d"].feed(obj)
        wire.scrub(ba)
    for i, x in enumerate(live):
        got = [(g[0], bytes(g[1])) for g in x["c"].packets]
        if got != list(x["msgs"]) or x["c"].fatal or x["d"].escaped or x["t"].closing or x["d"].ready_exc is not None:
            problems.append(("interleaved-sessions", f"session {i} of {len(live)} fed alternately: delivered {[(a, len(b)) for a, b in got][:5]} of "
                             f"{[(a, len(b)) for a, b in x['msgs']][:5]}; fatal={[repr(f[0]) for f in x['c'].fatal][:1]} escaped={x['d'].escaped[:1]}"))
    return problems


def cut_classes(cuts: tuple[int, ...], hello_end: int, hs_end: int, data_ends: list[int]) -> list[str]:
    out = set()
    frames = [("hello", 0, hello_end), ("handshake", hello_end, hs_end)]
    prev = hs_end
    for i, e in enumerate(data_ends):
        frames.append(("data", prev, e))
        prev = e
    for cpos in cuts:
        for name, a, b in frames:
            if cpos == b or cpos == a:
                out.add(f"boundary-after-{name}" if cpos == b else f"boundary-before-{name}")
                break
            if a < cpos < b:
                out.add(f"in-{name}-header" if cpos - a < 3 else (f"after-{name}-header" if cpos - a == 3 else f"in-{name}-body"))
                break
    return sorted(out)


def msg_sets(rng: Any, thorough: bool) -> list[list[tuple[int, bytes]]]:
    out: list[list[tuple[int, bytes]]] = [[], [(2, b"")], [(2, b"\x08\x01\x10\x0a"), (4, b"")],
                                          [(25, os.urandom(9)), (7, b""), (8, b""), (29, os.urandom(300))]]
    out.append([(1, os.urandom(65515))])
    for _ in range(6 if thorough else 2):
        k = rng.randint(1, 6)
        out.append([(rng.randint(1, 123), os.urandom(rng.choice([0, 1, 2, 16, 255, 256, 1000]))) for _ in range(k)])
    return out


def shard(ctx: Ctx) -> None:
    rng = ctx.rng
    res = ctx.res
    idx = 0
    keys = [bytes(32), b"\xff" * 32, os.urandom(32)]
    kinds = wire.BUF_KINDS
    for (nlabel, name) in NAMES:
        for (elabel, expected) in expected_variants(name):
            for mi, msgs in enumerate(msg_sets(rng, ctx.thorough)):
                idx += 1
                if not ctx.mine(idx):
                    continue
                # layout does not depend on key material
                hello_len = 3 + len(noisew.NoiseServer(bytes(32), name).hello_body())
                hs_end = hello_len + 3 + 1 + 48
                data_ends = list(itertools.accumulate((3 + 4 + len(p) + 16 for _, p in msgs), initial=hs_end))[1:]
                n = data_ends[-1] if data_ends else hs_end
                boundaries = [3, hello_len, hello_len + 3, hello_len + 4, hs_end]
                prev = hs_end
                for e in data_ends:
                    boundaries += [prev + 3, prev + 7, e]
                    prev = e
                big = n > 3000
                rejecting = name is not None and expected is not None and announced(name).decode() != expected
                gen = wire.chunkings(
                    n, boundaries, rng,
                    n_random=(8 if big else 25) * (4 if ctx.thorough else 1),
                    pairs=(6 if big else 25) * (4 if ctx.thorough else 1),
                    exhaustive_upto=0,
                    single_cap=(60 if big else (n if ctx.thorough else 90)) if not rejecting else 30,
                )
                for ci, (clabel, cuts) in enumerate(gen):
                    if big and clabel == "bytewise":
                        continue
                    if rejecting and clabel in ("pair", "random") and ci % 4:
                        continue
                    psk = keys[(ci + idx) % len(keys)] if ci % 5 else os.urandom(32)
                    kind = kinds[(ci + mi) % len(kinds)]
                    r = run_case(psk, name, expected, msgs, cuts, kind)
                    res.evaluations += 1
                    res.count(f"name/{nlabel}/{elabel}")
                    res.count(f"chunking/{clabel}")
                    res.count(f"judged/{r['judged']}")
                    classes = cut_classes(cuts, hello_len, hs_end, data_ends)
                    for cl in classes:
                        res.count(f"cutclass/{cl}")
                    if r["judged"]:
                        res.sig(nlabel, elabel, tuple(classes), tuple(min(len(p), 300) for _, p in msgs), kind,
                                len(cuts) if len(cuts) < 3 else "many")
                    if r.get("n_delivered"):
                        res.count("messages_delivered_and_checked", r["n_delivered"])
                    for key, what in r["problems"]:
                        res.violation(f"C03/{key}", what, {
                            "psk": psk.hex(), "name": None if name is None else name.hex(), "expected": expected,
                            "msgs": [(ty, p.hex() if len(p) < 400 else f"random({len(p)})") for ty, p in msgs],
                            "cuts": list(cuts[:60]), "kind": kind})
                    if res.evaluations % 900 == 1:
                        res.sample({"name": nlabel, "expected": elabel, "msgs": [(ty, len(p)) for ty, p in msgs],
                                    "cuts": list(cuts[:12]), "n_cuts": len(cuts), "cut_classes": classes, "buffer": kind,
                                    "judged": r["judged"], "stream_len": n})
    # long sessions: thousands of frames in one session (receive-nonce / counter boundaries 255|256, 1023|1024, 4095|4096, 65535|65536)
    if ctx.shard < 4:
        n_frames = (70000 if ctx.shard == 0 else 9000) if ctx.thorough else (1300, 1100, 2100, 4200)[ctx.shard]
        long_msgs = [(25, bytes([k & 0xFF, (k >> 8) & 0xFF, (k >> 16) & 0xFF])) for k in range(n_frames)]
        per = 3 + 4 + 3 + 16
        hello_len = 3 + len(noisew.NoiseServer(bytes(32), b"dev").hello_body())
        hs_end = hello_len + 3 + 1 + 48
        total = hs_end + per * n_frames
        chunk_plans = {"whole": (), "per-frame": tuple(range(hs_end, total, per)), "1460-byte-segments": tuple(range(1460, total, 1460)),
                       "random-40-cuts": tuple(sorted(rng.sample(range(1, total), 40)))}
        for clabel, cuts in chunk_plans.items():
            if ctx.thorough and ctx.shard == 0 and clabel != "1460-byte-segments":
                continue
            r = run_case(os.urandom(32), b"dev", None, long_msgs, cuts, "bytes")
            res.evaluations += 1
            res.count("chunking/long-session/" + clabel)
            res.count("messages_delivered_and_checked", r.get("n_delivered") or 0)
            res.sig("long-session", n_frames, clabel)
            for key, what in r["problems"]:
                res.violation(f"C03/{key}", f"[session of {n_frames} frames, {clabel}] {what}"[:600], {"psk": "random", "name": b"dev".hex(), "expected": None,
                              "msgs": [[25, f"counter x {n_frames}"]], "cuts": list(cuts[:20]), "kind": "bytes", "long_session": n_frames})
    # large reads: the application's loop was busy while a chatty device kept the (2 MiB) socket buffer filling - asyncio then hands over up to
    # 256 KiB per data_received call, after a chunk that ended in the middle of a frame
    if 4 <= ctx.shard < 8 or ctx.nshards < 8:
        sizes = [(60000, 12), (20000, 30), (1200, 500), (65000, 9)][ctx.shard % 4]
        big_msgs = [(25 + k % 3, os.urandom(sizes[0] - (k * 37) % 900)) for k in range(sizes[1])]
        hello_len = 3 + len(noisew.NoiseServer(bytes(32), b"dev").hello_body())
        hs_end = hello_len + 3 + 1 + 48
        total = hs_end + sum(3 + 4 + len(p) + 16 for _, p in big_msgs)
        plans = {"40067+242553+rest": (40067, 40067 + 242553), "partial-then-256KiB-reads": tuple(range(hs_end + 777, total, 262144)),
                 "256KiB-reads": tuple(range(262144, total, 262144)), "whole": ()}
        for clabel, cuts in plans.items():
            cuts = tuple(c for c in cuts if 0 < c < total)
            r = run_case(os.urandom(32), b"dev", None, big_msgs, cuts, "bytes")
            res.evaluations += 1
            res.count("chunking/large-reads/" + clabel)
            res.count("messages_delivered_and_checked", r.get("n_delivered") or 0)
            res.sig("large-reads", sizes, clabel)
            for key, what in r["problems"]:
                res.violation(f"C03/{key}", f"[{sizes[1]} messages of ~{sizes[0]} bytes, reads {clabel}] {what}"[:600], {"psk": "random", "name": b"dev".hex(), "expected": None,
                              "msgs": [[25, f"random({sizes[0]})"]] * min(sizes[1], 20), "cuts": list(cuts[:20]), "kind": "bytes"})
    interleaved(ctx)
    try:
        from vf.props import c03_s  # noqa: PLC0415
    except ImportError:
        res.notes["part_S"] = "not built"
        return
    c03_s.shard(ctx)
    # the same end-to-end reassembly scenarios as C01 part S, on an encrypted session (real connection behind the real Noise helper)
    from vf.props import c01_s  # noqa: PLC0415

    c01_s.shard(ctx, framing="noise", prop="C03")


def interleaved(ctx: Ctx) -> None:
    rng = ctx.rng
    res = ctx.res
    sets = msg_sets(rng, False)
    for j in range(48 if ctx.thorough else 16):
        if not ctx.mine(j):
            continue
        sess = []
        for q in range(2 + j % 2):
            msgs = [m for m in sets[(j + q) % len(sets)] if len(m[1]) < 5000][:6] or [(7, b"")]
            name = NAMES[(j + q) % len(NAMES)][1]
            n = 3 + (1 if name is None else len(name) + 2) + 3 + 49 + sum(3 + 4 + len(p) + 16 for _, p in msgs)
            cuts = tuple(sorted(rng.sample(range(1, n), min(n - 1, rng.randint(2, 12)))))
            sess.append((os.urandom(32), name, msgs, cuts))
        kind = wire.BUF_KINDS[j % len(wire.BUF_KINDS)]
        res.evaluations += 1
        res.count("chunking/interleaved-sessions")
        try:
            probs = run_interleaved(sess, kind)
        except Exception as e:  # noqa: BLE001
            res.inconclusive.append(f"interleaved sessions harness: {e!r}")
            continue
        if not probs:
            res.count("messages_delivered_and_checked", sum(len(x[2]) for x in sess))
            res.sig("interleaved", j)
        for key, what in probs:
            res.violation(f"C03/{key}", what, {"interleaved": True, "psk": "random", "name": None, "expected": None,
                                               "msgs": [[(ty, len(p)) for ty, p in x[2]] for x in sess], "cuts": [list(x[3]) for x in sess], "kind": kind})


def replay(spec: dict[str, Any]) -> int:
    if spec["case"].get("part") == "S" and spec["case"].get("framing") == "noise" and ("plan" in spec["case"] or "write_buffer" in spec["case"]):
        from vf.common import Ctx as _Ctx  # noqa: PLC0415
        from vf.props import c01_s  # noqa: PLC0415

        c = _Ctx("C03", 0, 1, "quick", 0)
        c01_s.shard(c, framing="noise", prop="C03")
        for v in c.res.violations:
            print(v["key"], v["what"])
        return 1 if c.res.violations else 0
    if spec["case"].get("interleaved"):
        c_ = spec["case"]
        sess = [(os.urandom(32), b"dev", [(ty, os.urandom(n)) for ty, n in ms], tuple(cs)) for ms, cs in zip(c_["msgs"], c_["cuts"])]
        probs = run_interleaved(sess, c_["kind"])
        print("C03 replay (interleaved sessions, fresh keys/payloads of the recorded sizes):", probs)
        return 1 if probs else 0
    case = spec["case"]
    msgs = []
    for ty, p in case["msgs"]:
        msgs.append((ty, bytes.fromhex(p) if not p.startswith("random(") else os.urandom(int(p[7:-1]))))
    r = run_case(bytes.fromhex(case["psk"]), None if case["name"] is None else bytes.fromhex(case["name"]),
                 case["expected"], msgs, tuple(case["cuts"]), case["kind"])
    print("C03 replay:", case)
    print("problems:", r["problems"])
    return 1 if r["problems"] else 0

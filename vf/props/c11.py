"""C11 — request-response calls get exactly their responses and leave nothing behind (engine S + per-call sequential model)."""

from __future__ import annotations

import base64
import functools
import itertools
from typing import Any

from vf.common import Ctx
from vf.sim.device import DeviceConfig, DeviceConn
from vf.sim import sweep
from vf.sim.scenario import Sim

LEVEL = "exploration"
RULE = ("scripts over 1-3 concurrent send_messages_await_response_complex calls (own or shared response types out of 3, timeouts 0.5/1/2 s, "
        "harness-owned accept/stop predicates keyed by bits in the message) with events {start call i (+ device replies emitted the moment the "
        "request is received = readable in the very next loop turn), arrival(type, accept bits, stop bits), cancel call i, toggle the library's debug flag, add a passive subscriber on a response type / call its remove function (repeatedly), close(eof|ETIMEDOUT from the kernel|ping timeout|the application's own graceful disconnect acknowledged late|garbage|force|peer DisconnectRequest|the next write raising at the transport|the next send refused by the socket; garbage and peer optionally in the same chunk as the answers before them)} "
        "and gaps {same instant, same chunk as the previous arrival (one TCP segment), +1 ms, exactly at call j's timeout instant}; instant replies optionally coalesced into one chunk; seeded random scripts, all orderings of small event sets at thorough; "
        "plus the public wrappers, plus (lifecycle engine) calls outstanding on a stalled connect with disconnect() on top when the link is lost: every one ends in that instant. Oracle: per-call sequential model over the recorded arrival history (process_packet order), exact timeout "
        "instant, connection's error at close, cancellation; leftovers after every ending: predicates never invoked after the call returned, "
        "no handle_timeout timer beyond the calls still pending, handler table / waiter set hold nothing of finished calls. Non-trivial = at least "
        "one call ended and was compared; distinct = (script shape, outcomes)")
ASSUMPTIONS = [
    "an arrival at exactly a call's timeout instant may be decided either way (order is the loop's): both outcomes accepted, leftovers still judged",
    "handler table / waiter set are introspected through APIConnection._message_handlers / _read_exception_futures when those attributes exist",
    "engine S doubles as in C05",
]
BUDGET_S = {"quick": 300, "thorough": 3000}
MIN_EVALS = {"quick": 1500, "thorough": 30000}
PSK = bytes(range(3, 35))

TYPES = ("SensorStateResponse", "BinarySensorStateResponse", "TextSensorStateResponse")
REQUESTS = ("DeviceInfoRequest", "ListEntitiesRequest", "SubscribeStatesRequest")
TIMEOUTS = (0.5, 1.0, 2.0)
EDGE_TIMEOUTS = (0.0, -1.0, -0.001)   # a caller passing `deadline - now` after its budget is used up: the call times out at once, leaving nothing


def key_of(n: int, accept: int, stop: int) -> int:
    return (n & 0xFF) | (accept & 7) << 8 | (stop & 7) << 16


def run_script(script: dict[str, Any]) -> dict[str, Any]:
    """script = {framing, calls:[{types:[idx], timeout, instant:[(type, accept, stop)]}], events:[(gap, kind, args...)]}"""
    from aioesphomeapi import api_pb2 as pb

    calls = script["calls"]
    with Sim() as sim:
        cfg = DeviceConfig()
        if script["framing"] == "noise":
            cfg.noise_psk = PSK
        cfg.coalesce_replies = bool(script.get("coalesce"))   # replies produced while handling one request share one chunk
        counter = itertools.count(1)

        def mk_instant(i: int) -> Any:
            def h(c: DeviceConn, m: Any) -> None:
                for ty, acc, stp in calls[i].get("instant", []):
                    c.send(TYPES[ty], key=key_of(next(counter), acc, stp))
            return h

        same_req = bool(script.get("same_request"))    # every call writes the IDENTICAL request message (two parts of an application asking the same thing)
        if same_req:
            nth = itertools.count(0)
            order: list[int] = []       # call indices in the order their requests were written

            def h_same(c: DeviceConn, m: Any) -> None:
                k = next(nth)
                if k < len(order):
                    mk_instant(order[k])(c, m)

            cfg.handlers[REQUESTS[0]] = h_same
        else:
            for i in range(len(calls)):
                cfg.handlers[REQUESTS[i]] = mk_instant(i)
        dev = sim.device(cfg)
        kw: dict[str, Any] = {}
        if script["framing"] == "noise":
            kw["noise_psk"] = base64.b64encode(PSK).decode()
        if script.get("keepalive"):
            kw["keepalive"] = script["keepalive"]      # small enough for a ping timeout to end the session while calls are outstanding
        if script.get("slow_disconnect_answer"):
            cfg.handlers["DisconnectRequest"] = lambda c, m, d=script["slow_disconnect_answer"]: c.send("DisconnectResponse", _delay=d)
        cli = sim.client(**kw)
        c0 = sim.call("connect", lambda: cli.connect(on_stop=sim.on_stop_cb(), login=False))
        sim.run(until=lambda: c0.done, max_time=sim.clock + 50)
        if c0.outcome != "ok":
            return {"error": f"connect: {c0.exc!r}"}
        conn = cli._connection  # noqa: SLF001
        dconn = dev.conn
        arrivals: list[tuple[int, float, str, int]] = []

        def hook(view: Any, ty: int, data: bytes) -> None:
            m = dev.proto.by_id.get(ty)
            if m is not None and m.name in TYPES:
                msg = getattr(pb, m.name)()
                msg.ParseFromString(bytes(data))
                arrivals.append((sim.next_seq(), sim.clock, m.name, msg.key))

        sim.packet_hook = hook
        v0 = sim.view(conn)
        recs: list[Any] = [None] * len(calls)
        pred_log: list[list[tuple[int, str, int]]] = [[] for _ in calls]
        cancels: dict[int, int] = {}
        audits: list[dict[str, Any]] = []

        def start_call(i: int, eager: bool = False) -> None:
            spec = calls[i]
            if recs[i] is not None:
                return

            def do_append(msg: Any, i: int = i) -> bool:
                pred_log[i].append((sim.next_seq(), "append", msg.key))
                return bool(msg.key >> 8 >> i & 1)

            def do_stop(msg: Any, i: int = i) -> bool:
                pred_log[i].append((sim.next_seq(), "stop", msg.key))
                return bool(msg.key >> 16 >> i & 1)

            types = tuple(getattr(pb, TYPES[t]) for t in spec["types"])
            req = getattr(pb, REQUESTS[0 if same_req else i])()
            if same_req:
                order.append(i)
            # (None is a legal predicate: "accept every message" / "stop at the first message")
            ap = None if spec.get("append_none") else do_append
            st = None if spec.get("stop_none") else do_stop
            amb = spec.get("ambient")
            if amb:
                # the caller awaits the call from INSIDE an exception handler (clean-up in an `except TimeoutError:` body after its own deadline,
                # as the library's BLE connect does with its disconnect): sys.exc_info() is not empty while the call runs and when it ends
                import asyncio as _asyncio  # noqa: PLC0415

                from aioesphomeapi.core import TimeoutAPIError as _TimeoutAPIError  # noqa: PLC0415

                exc_cls = {"TimeoutError": TimeoutError, "CancelledError": _asyncio.CancelledError, "KeyError": KeyError, "TimeoutAPIError": _TimeoutAPIError}[amb]

                async def inside_handler() -> Any:
                    try:
                        raise exc_cls("the caller is handling this one")
                    except exc_cls:
                        return await conn.send_messages_await_response_complex((req,), ap, st, types, spec["timeout"])

                recs[i] = sim.call(f"call{i}", inside_handler, eager=eager)
            else:
                recs[i] = sim.call(f"call{i}", lambda: conn.send_messages_await_response_complex((req,), ap, st, types, spec["timeout"]), eager=eager)
            if eager:
                t_call[i] = sim.clock

        subs: list[Any] = []
        sub_log: list[tuple[int, int, int]] = []
        internal: list[Any] = []     # disconnect() calls of the script: each is itself one request-response call of the library (timer + 1 handler + waiter)

        def subscribe(ty: int) -> None:
            k = len(subs)
            if v0.closed_seq is None:
                subs.append(conn.add_message_callback(lambda m, k=k: sub_log.append((sim.next_seq(), k, m.key)), (getattr(pb, TYPES[ty]),)))

        stillborn: list[Any] = []

        def stillborn_call(i: int) -> None:
            # the caller builds the call (evaluates the call expression), wraps it in a task and cancels that task before it ever ran
            # (`asyncio.wait_for(call, 0)`, a TaskGroup that is already failing): a call that never started must not have done anything
            if v0.closed_seq is not None:
                return
            spec = calls[i]
            types = tuple(getattr(pb, TYPES[t]) for t in spec["types"])
            n_w = len(dconn.received)
            try:
                coro = conn.send_messages_await_response_complex((getattr(pb, REQUESTS[i])(),), None, None, types, spec["timeout"])
            except Exception as e:  # noqa: BLE001
                stillborn.append(("raised", repr(e)))
                return
            task = sim.loop.create_task(coro, name="harness:stillborn")
            task.cancel()
            stillborn.append(("cancelled-before-start", task))

        def subscribe_then_call(ty: int, j: int) -> None:
            # a subscriber that reacts to the first message of that type by starting call j AT ONCE (eager task: the request is written and the
            # call registered from inside the callback, while the connection is still dispatching that very message)
            k = len(subs)

            def cb(m: Any) -> None:
                sub_log.append((sim.next_seq(), k, m.key))
                if v0.closed_seq is None:
                    start_call(j, eager=True)

            if v0.closed_seq is None:
                subs.append(conn.add_message_callback(cb, (getattr(pb, TYPES[ty]),)))

        def unsubscribe(k: int) -> None:
            if k < len(subs):
                subs[k]()

        def cancel_call(i: int) -> None:
            if recs[i] is not None and not recs[i].done:
                cancels[i] = sim.next_seq()
                sim.cancel(recs[i])

        # absolute schedule
        t = sim.clock
        t_call: dict[int, float] = {}
        chunk: list[tuple[Any, ...]] = []      # arrivals collected for ONE chunk (gap "chunk" = same TCP segment as the previous arrival)
        chunk_t = t

        def flush() -> None:
            if chunk:
                dconn.deliver_items(list(chunk), chunk_t - sim.clock)
                chunk.clear()

        for ev in script["events"]:
            gap, kind = ev[0], ev[1]
            in_chunk = gap == "chunk" and chunk and (kind == "arrive" or (kind == "close" and ev[2] in ("garbage", "peer")))
            if not in_chunk:
                flush()
            if gap == "ms":
                t += 0.001
            elif isinstance(gap, list) and gap[0] == "to":
                j = gap[1]
                if j in t_call:
                    t = max(t, t_call[j] + calls[j]["timeout"])
            if kind == "call":
                i = ev[2]
                t_call[i] = t  # entered one iteration later, same virtual instant
                sim.at(t, functools.partial(start_call, i))
            elif kind == "arrive":
                _, _, ty, acc, stp = ev
                msg = getattr(pb, TYPES[ty])(key=key_of(next(counter), acc, stp))
                if not chunk:
                    chunk_t = t
                chunk.append(("msg", dev.proto.id_of(TYPES[ty]), msg.SerializeToString()))
            elif kind == "cancel":
                sim.at(t, functools.partial(cancel_call, ev[2]))
            elif kind == "sub":
                # a passive subscriber on one of the response types (another part of the application listening to the same messages)
                sim.at(t, functools.partial(subscribe, ev[2]))
            elif kind == "subcall":
                sim.at(t, functools.partial(subscribe_then_call, ev[2], ev[3]))
            elif kind == "stillborn":
                sim.at(t, functools.partial(stillborn_call, ev[2]))
            elif kind == "unsub":
                # its remove function is called -- possibly for the second or third time (clean-up paths commonly do): a repeated removal
                # has no effect on anything else registered for that type
                sim.at(t, functools.partial(unsubscribe, ev[2]))
            elif kind == "debug":
                # the application toggles the library's debug logging while calls are outstanding (Home Assistant does on a log-level change)
                sim.at(t, functools.partial(cli.set_debug, bool(ev[2])))
            elif kind == "close":
                cause = ev[2]
                if cause == "eof":
                    dconn.eof(t - sim.clock)
                elif cause == "etimedout":
                    # the kernel gives up on an unreachable peer (retransmissions exhausted / keep-alive probes unanswered): recv() fails with
                    # ETIMEDOUT, which Python raises as the builtin TimeoutError -- the very class asyncio.TimeoutError is an alias of
                    dconn.rst(t - sim.clock, exc=TimeoutError(110, "Connection timed out"))
                elif cause in ("garbage", "peer"):
                    item = ("raw", b"\x42\x42\x42" if script["framing"] == "plain" else b"\x07\x00\x00") if cause == "garbage" else \
                        ("msg", dev.proto.id_of("DisconnectRequest"), b"")
                    if in_chunk:
                        chunk.append(item)      # the closing event shares the chunk with the answers in front of it
                    else:
                        flush()
                        dconn.deliver_items([item], t - sim.clock)
                elif cause == "force":
                    sim.at(t, lambda: conn.force_disconnect())
                elif cause == "pingfail":
                    # the device stops answering pings (and sends nothing more): the keep-alive ends the session with PingFailedAPIError
                    sim.at(t, lambda: setattr(cfg, "answer_ping", False))
                elif cause == "disconnect":
                    # the application's own graceful disconnect; the device acknowledges it a little later - until then the session is up and
                    # responses to outstanding calls keep arriving
                    sim.at(t, lambda: internal.append(sim.call("disconnect", lambda: cli.disconnect())))
                elif cause == "writeraise":
                    # from now on the transport's write() raises (what uvloop does on a closed handle): the NEXT request written is the
                    # one that closes the connection, from inside its own send
                    def arm_write_raise() -> None:
                        for tr in sim.transports:
                            if tr._fake is dconn.sock:  # noqa: SLF001
                                tr.write_raises = RuntimeError("unable to perform operation on <TCPTransport closed=True>; the handler is closed")
                    sim.at(t, arm_write_raise)
                elif cause == "sendfail":
                    # the kernel refuses the next send (peer vanished): asyncio turns it into connection_lost one iteration later
                    sim.at(t, lambda: setattr(dconn.sock, "send_fault", BrokenPipeError(32, "Broken pipe")))

        flush()

        def audit() -> None:
            if not sim.end_of_instant():
                return
            pending = [r for r in recs if r is not None and not r.done]
            n_int = sum(1 for r in internal if not r.done and r.seq_call is not None and r.seq_call < sim.next_seq() - 1)
            timers = [x for x in sim.live_timers() if x == "handle_timeout"]
            handlers = getattr(conn, "_message_handlers", None)
            n_partials = None
            if handlers is not None:
                n_partials = sum(1 for hs in handlers.values() for h in hs
                                 if isinstance(h, functools.partial) and getattr(h.func, "__name__", "") == "handle_complex_message")
            waiters = getattr(conn, "_read_exception_futures", None)
            audits.append({"t": sim.clock, "pending": len(pending) + n_int, "timeout_timers": len(timers),
                           "handler_registrations": n_partials,
                           "expected_registrations": sum(len(calls[i]["types"]) for i, r in enumerate(recs) if r is not None and not r.done) + n_int,
                           "waiters": None if waiters is None else len(waiters)})

        sim.post_step.append(audit)
        sim.run(max_time=t + 4.0)
        v = sim.view(conn)
        out = {
            "recs": recs, "arrivals": arrivals, "pred_log": pred_log, "cancels": cancels, "audits": audits,
            "closed_seq": v.closed_seq, "closed_t": v.closed_t, "fatals": v.fatals, "harness_errors": list(sim.harness_errors),
            "final_timers": [x for x in sim.live_timers() if x == "handle_timeout"], "trace": sim.trace(120),
            "t_call": t_call,
            "requests_at_device": [r["name"] for r in dconn.received if r["name"] in REQUESTS],
            "stillborn": len(stillborn),
            "closed_inside_dispatch_of": next((x[0] for a, b in sim.packet_spans if v.closed_seq is not None and a < v.closed_seq < b
                                               for x in arrivals if a <= x[0] < v.closed_seq), None),
        }
        if v.closed_seq is None:
            d = sim.call("bye", lambda: cli.disconnect(force=True))
            sim.run(until=lambda: d.done, max_time=sim.clock + 5)
        return out


def model_call(spec: dict[str, Any], i: int, rec: Any, o: dict[str, Any], skip: int | None = None) -> dict[str, Any]:
    """Sequential model for one call over the recorded arrival history (skip: sequence number of an arrival to leave out)."""
    names = {TYPES[t] for t in spec["types"]}
    deadline = rec.t_call + max(0.0, spec["timeout"])     # a zero or negative timeout expires in the instant of the call
    if o["closed_seq"] is not None and o["closed_seq"] < rec.seq_call:
        return {"kind": "closed", "t": rec.t_call, "ambiguous": False, "refused": True}
    result: list[int] = []
    ambiguous = False
    for seq, t, name, key in o["arrivals"]:
        if seq < rec.seq_call or name not in names or seq == skip:
            continue
        if o["closed_seq"] is not None and seq > o["closed_seq"]:
            break
        if t > deadline + 1e-9:
            break
        if abs(t - deadline) <= 1e-9:
            ambiguous = True
        if spec.get("append_none") or key >> 8 >> i & 1:
            result.append(key)
        if spec.get("stop_none") or key >> 16 >> i & 1:
            return {"kind": "result", "keys": result, "t": t, "ambiguous": ambiguous, "alt_timeout": ambiguous}
    if o["closed_t"] is not None and o["closed_t"] <= deadline + 1e-9 and (o["closed_seq"] or 0) > rec.seq_call:
        return {"kind": "closed", "t": o["closed_t"], "ambiguous": abs(o["closed_t"] - deadline) <= 1e-9}
    return {"kind": "timeout", "t": deadline, "ambiguous": ambiguous}


def judge_call(calls: list[dict[str, Any]], i: int, rec: Any, m: dict[str, Any], o: dict[str, Any]) -> list[tuple[str, str]]:
    from aioesphomeapi.core import APIConnectionError, TimeoutAPIError

    out: list[tuple[str, str]] = []
    if rec.outcome == "ok":
        got = [msg.key for msg in rec.result]
        if m["kind"] != "result":
            if not (m["ambiguous"]):
                out.append((f"C11/result-instead-of-{m['kind']}", f"call{i} returned {got} but the model says {m['kind']} at t={m['t']:.6f}"))
        elif got != m["keys"]:
            extra = [k for k in got if k not in m["keys"]]
            missing = [k for k in m["keys"] if k not in got]
            key = "missed-response" if missing and not extra else "foreign-response" if extra and not missing else "wrong-responses"
            out.append((f"C11/{key}", f"call{i} returned keys {[hex(k) for k in got]}, model {[hex(k) for k in m['keys']]}"))
        elif abs(rec.t_ret - m["t"]) > 1e-6:
            out.append(("C11/completion-instant", f"call{i} completed at {rec.t_ret:.6f}, deciding arrival at {m['t']:.6f}"))
    elif rec.outcome == "raised":
        e = rec.exc
        if isinstance(e, TimeoutAPIError):
            if m["kind"] != "timeout" and not m["ambiguous"] and not m.get("alt_timeout"):
                out.append((f"C11/timeout-instead-of-{m['kind']}", f"call{i} timed out but the model says {m['kind']}"))
            elif abs(rec.t_ret - (rec.t_call + max(0.0, calls[i]["timeout"]))) > 1e-6:
                out.append(("C11/timeout-instant", f"call{i} timed out at +{rec.t_ret - rec.t_call:.6f}s, timeout {calls[i]['timeout']}s"))
        elif isinstance(e, APIConnectionError):
            if m["kind"] != "closed":
                if not m["ambiguous"]:
                    out.append((f"C11/error-instead-of-{m['kind']}", f"call{i} raised {e!r} but the model says {m['kind']}"))
            else:
                first = None
                for fs, ft, fe in ([] if m.get("refused") else o["fatals"]):
                    if o["closed_seq"] is not None and fs < o["closed_seq"]:
                        first = fe
                        break
                if first is not None and isinstance(first, APIConnectionError) and e is not first:
                    out.append(("C11/close-error-not-first-cause", f"call{i} raised {e!r}, connection's first fatal {first!r}"))
                if abs(rec.t_ret - m["t"]) > 1e-6:
                    out.append(("C11/close-instant", f"call{i} failed at {rec.t_ret:.6f}, connection closed at {m['t']:.6f}"))
        else:
            out.append((f"C11/raw-exception/{type(e).__name__}", f"call{i} raised {e!r}"))
    elif rec.outcome == "cancelled":
        out.append(("C11/unrequested-cancel", f"call{i} ended cancelled without a caller cancel"))
    return out


def judge(script: dict[str, Any], o: dict[str, Any]) -> list[tuple[str, str]]:
    from aioesphomeapi.core import APIConnectionError, TimeoutAPIError

    out: list[tuple[str, str]] = []
    calls = script["calls"]
    for i, rec in enumerate(o["recs"]):
        if rec is None:
            continue
        if not rec.done:
            out.append((f"C11/call-never-ended", f"call{i} still pending at the end"))
            continue
        if rec.outcome == "never-started":
            continue
        if i in o["cancels"] and o["cancels"][i] < rec.seq_ret:
            if rec.outcome != "cancelled":
                out.append(("C11/cancel-not-propagated", f"call{i} was cancelled by the caller before it returned but ended {rec.outcome} ({rec.exc!r})"))
        else:
            # the connection was closed from INSIDE the dispatch of an arrival (a callback for that message wrote a request and the write failed, or
            # called force_disconnect): whether the handlers that had not run yet still get that message is the library's choice - both readings
            # of that one arrival are accepted
            alts = [model_call(calls[i], i, rec, o)]
            if o.get("closed_inside_dispatch_of") is not None:
                alts.append(model_call(calls[i], i, rec, o, skip=o["closed_inside_dispatch_of"]))
            verdicts = [judge_call(calls, i, rec, m, o) for m in alts]
            out.extend(min(verdicts, key=len))
        # leftovers: predicates after return
        late = [p for p in o["pred_log"][i] if p[0] > rec.seq_ret]
        if late:
            out.append(("C11/predicate-invoked-after-return", f"call{i} returned at seq {rec.seq_ret}; its predicates were still invoked: {late[:3]}"))
    # every call writes its request (also when another call has just written the identical one): judged on sessions that never closed
    if o["closed_seq"] is None and "requests_at_device" in o:
        started = [i for i, r in enumerate(o["recs"]) if r is not None and r.outcome != "never-started"]
        want = sorted(REQUESTS[0 if script.get("same_request") else i] for i in started)
        if sorted(o["requests_at_device"]) != want:
            out.append(("C11/request-not-written", f"{len(started)} calls were made ({want}); the device received {sorted(o['requests_at_device'])}"))
    for a in o["audits"]:
        if a["timeout_timers"] != a["pending"]:
            out.append(("C11/timeout-timer-leftover" if a["timeout_timers"] > a["pending"] else "C11/timeout-timer-missing",
                        f"t={a['t']:.6f}: {a['timeout_timers']} armed handle_timeout timers, {a['pending']} calls pending"))
            break
    for a in o["audits"]:
        if a["handler_registrations"] is not None and a["handler_registrations"] != a["expected_registrations"]:
            out.append(("C11/handler-leftover" if a["handler_registrations"] > a["expected_registrations"] else "C11/handler-missing",
                        f"t={a['t']:.6f}: {a['handler_registrations']} response handlers registered, pending calls account for {a['expected_registrations']}"))
            break
    for a in o["audits"]:
        if a["waiters"] is not None and o["closed_seq"] is None and a["waiters"] != a["pending"]:
            out.append(("C11/waiter-leftover" if a["waiters"] > a["pending"] else "C11/waiter-missing",
                        f"t={a['t']:.6f}: {a['waiters']} waiters in the read-exception set, {a['pending']} calls pending"))
            break
    if o["final_timers"] and all(r is None or r.done for r in o["recs"]):
        out.append(("C11/timeout-timer-leftover", f"{len(o['final_timers'])} handle_timeout timers armed after every call ended"))
    return out


def gen_script(rng: Any, framing: str) -> dict[str, Any]:
    ncalls = rng.randint(1, 3)
    calls = []
    for i in range(ncalls):
        k = rng.randint(1, 3)
        types = sorted(rng.sample(range(3), k)) if rng.random() < 0.7 else [0]
        inst = []
        if rng.random() < 0.5:
            for _ in range(rng.randint(1, 3)):
                inst.append((rng.choice(types) if rng.random() < 0.8 else rng.randrange(3), rng.randrange(8), rng.randrange(8) if rng.random() < 0.5 else 0))
        calls.append({"types": types, "timeout": rng.choice(TIMEOUTS) if rng.random() < 0.93 else rng.choice(EDGE_TIMEOUTS), "instant": inst})
        if rng.random() < 0.12:
            calls[-1]["append_none"] = True
        if rng.random() < 0.12:
            calls[-1]["stop_none"] = True
    events: list[Any] = [["0", "call", 0]]
    started = {0}
    n = rng.randint(2, 7)
    for _ in range(n):
        r = rng.random()
        gaps: list[Any] = ["0", "0", "ms", "ms"]
        if started and rng.random() < 0.3:
            gaps = [["to", rng.choice(sorted(started))]]
        gap = rng.choice(gaps)
        if r < 0.2 and len(started) < ncalls:
            i = min(set(range(ncalls)) - started)
            started.add(i)
            if rng.random() < 0.35:
                # started from inside a callback for a type the call itself listens to (or another one), by whichever message of that type comes first
                events.append([gap, "subcall", rng.choice(calls[i]["types"]) if rng.random() < 0.8 else rng.randrange(3), i])
            else:
                events.append([gap, "call", i])
        elif r < 0.8:
            if events[-1][1] == "arrive" and rng.random() < 0.4:
                gap = "chunk"
            events.append([gap, "arrive", rng.randrange(3), rng.randrange(8), rng.randrange(8) if rng.random() < 0.45 else 0])
        elif r < 0.84:
            events.append([gap, "cancel", rng.choice(sorted(started))])
        elif r < 0.87:
            nsub = sum(1 for e in events if e[1] == "sub")
            if nsub and rng.random() < 0.7:
                events.append([gap, "unsub", rng.randrange(nsub)])
            else:
                events.append([gap, "sub", rng.randrange(3)])
        elif r < 0.885:
            events.append([gap, "stillborn", rng.randrange(ncalls)])
        elif r < 0.9:
            events.append([gap, "debug", rng.random() < 0.7])
        else:
            cause = rng.choice(["eof", "garbage", "force", "peer", "garbage", "peer", "writeraise", "sendfail", "etimedout", "disconnect"])
            if cause in ("garbage", "peer") and events[-1][1] == "arrive" and rng.random() < 0.6:
                gap = "chunk"
            events.append([gap, "close", cause])
    out = {"framing": framing, "calls": calls, "events": events, "coalesce": rng.random() < 0.5}
    if rng.random() < 0.25:
        calls[rng.randrange(ncalls)]["ambient"] = rng.choice(["TimeoutError", "TimeoutError", "CancelledError", "KeyError", "TimeoutAPIError"])
    if ncalls > 1 and rng.random() < 0.25:
        out["same_request"] = True
    if any(e[1] == "close" and e[2] == "disconnect" for e in events):
        out["slow_disconnect_answer"] = rng.choice([0.0015, 0.3, 0.7])
    return out


def small_exhaustive() -> Any:
    """All orderings of a small event multiset after call 0 (two calls sharing a type)."""
    base_calls = [{"types": [0, 1], "timeout": 0.5, "instant": []}, {"types": [0], "timeout": 1.0, "instant": [(0, 2, 0)]}]
    atoms = [["call", 1], ["arrive", 0, 3, 0], ["arrive", 0, 3, 1], ["arrive", 1, 1, 2], ["arrive", 0, 2, 2], ["cancel", 0], ["close", "eof"], ["close", "peer"], ["debug", True],
             ["subcall", 0, 1]]
    for k in (3, 4, 5):
        for combo in itertools.permutations(atoms, k):
            for gaps in itertools.product(("0", "ms", "chunk"), repeat=k) if k <= 3 else (itertools.product(("0", "chunk"), repeat=k) if k == 4 else [("0",) * k, ("ms",) * k, ("chunk",) * k]):
                ev = [["0", "call", 0]] + [[g, *a] for g, a in zip(gaps, combo)]
                yield {"framing": "plain", "calls": base_calls, "events": ev}


def one(ctx: Ctx, script: dict[str, Any], label: str) -> None:
    res = ctx.res
    o = run_script(script)
    res.evaluations += 1
    if o.get("error") or o["harness_errors"]:
        res.inconclusive.append(f"{label}: {o.get('error') or o['harness_errors'][0][-300:]}")
        return
    res.count(f"workload/{label}")
    ended = [r for r in o["recs"] if r is not None and r.done and r.outcome != "never-started"]
    for r in ended:
        res.count(f"call-outcome/{r.outcome}" + (f"/{type(r.exc).__name__}" if r.exc is not None and r.outcome == "raised" else ""))
    res.count("arrivals_seen_by_process_packet", len(o["arrivals"]))
    res.count("predicate_invocations", sum(len(p) for p in o["pred_log"]))
    res.count("leftover_audits", len(o["audits"]))
    for c_ in script["calls"]:
        if c_.get("ambient"):
            res.count(f"caller-inside-exception-handler/{c_['ambient']}")
    if ended:
        res.sig(script["framing"], tuple((tuple(c["types"]), c["timeout"], len(c["instant"])) for c in script["calls"]),
                tuple((e[1], e[0] if isinstance(e[0], str) else "to") + tuple(e[2:]) for e in script["events"]),
                tuple(r.outcome for r in ended))
    for key, what in judge(script, o):
        res.violation(key, what, {"script": script}, trace=o["trace"][-70:])
    if res.evaluations % 300 == 1:
        res.sample({"script": script, "outcomes": [None if r is None else r.brief() for r in o["recs"]],
                    "arrival_keys": [hex(a[3]) for a in o["arrivals"]]})


def wrappers(ctx: Ctx) -> None:
    """Public request-response wrappers against a device answering in the very next turn."""
    from aioesphomeapi import api_pb2 as pb

    res = ctx.res
    for framing in ("plain", "noise"):
        with Sim() as sim:
            cfg = DeviceConfig(device_info={"friendly_name": "F"}, entities=[pb.ListEntitiesSensorResponse(key=1, object_id="a", name="A"),
                                                                             pb.ListEntitiesServicesResponse(key=2, name="svc")])
            if framing == "noise":
                cfg.noise_psk = PSK
            cfg.handlers["VoiceAssistantConfigurationRequest"] = lambda c, m: c.send("VoiceAssistantConfigurationResponse", max_active_wake_words=2)
            sim.device(cfg)
            cli = sim.client(**({"noise_psk": base64.b64encode(PSK).decode()} if framing == "noise" else {}))
            c0 = sim.call("connect", lambda: cli.connect(login=False))
            sim.run(until=lambda: c0.done, max_time=sim.clock + 50)
            a = sim.call("device_info", lambda: cli.device_info())
            b = sim.call("list_entities", lambda: cli.list_entities_services())
            c = sim.call("va_config", lambda: cli.get_voice_assistant_configuration(5.0))
            sim.run(until=lambda: a.done and b.done and c.done, max_time=sim.clock + 100)
            res.evaluations += 1
            res.count("workload/public-wrappers")
            ok = (a.outcome == "ok" and a.result.friendly_name == "F" and b.outcome == "ok" and len(b.result[0]) == 1 and len(b.result[1]) == 1
                  and c.outcome == "ok" and c.result.max_active_wake_words == 2 and a.t_ret == a.t_call)
            res.sig("wrappers", framing, ok)
            if not ok:
                res.violation("C11/public-wrapper", f"{framing}: {a.brief()} {b.brief()} {c.brief()}", {"script": None, "framing": framing})
            d = sim.call("bye", lambda: cli.disconnect(force=True))
            sim.run(until=lambda: d.done, max_time=sim.clock + 5)


def wrapper_histories(ctx: Ctx) -> None:
    """The public request-response wrappers over HISTORIES on one session: a request the device never answered (ends with a timeout error exactly at
    the wrapper's timeout - 10 s, 60 s, the caller's value - wherever on the clock it started), then the same request again, answered at once
    (completes with that answer); two overlapping calls of one wrapper, one of them cancelled by its caller before the device answers (the other still
    gets its answer, and the device received one request per call)."""
    from aioesphomeapi import api_pb2 as pb
    from aioesphomeapi.core import TimeoutAPIError

    res = ctx.res
    idx = 0
    wrappers_ = {
        "device_info": (lambda cli: cli.device_info(), 10.0, "DeviceInfoRequest", lambda c: c.send("DeviceInfoResponse", name="dev", friendly_name="F"),
                        lambda r: r.friendly_name == "F"),
        "list_entities": (lambda cli: cli.list_entities_services(), 60.0, "ListEntitiesRequest",
                          lambda c: (c.send("ListEntitiesSensorResponse", key=1, object_id="a", name="A"), c.send("ListEntitiesDoneResponse")), lambda r: len(r[0]) == 1),
        "va_config(7.5)": (lambda cli: cli.get_voice_assistant_configuration(7.5), 7.5, "VoiceAssistantConfigurationRequest",
                           lambda c: c.send("VoiceAssistantConfigurationResponse", max_active_wake_words=2), lambda r: r.max_active_wake_words == 2),
        "va_config(0.75)": (lambda cli: cli.get_voice_assistant_configuration(0.75), 0.75, "VoiceAssistantConfigurationRequest",
                            lambda c: c.send("VoiceAssistantConfigurationResponse", max_active_wake_words=2), lambda r: r.max_active_wake_words == 2),
    }
    for framing in ("plain", "noise"):
        for name, (call, bound, reqname, answer, good) in wrappers_.items():
            for offset in (0.0, 0.4, 0.998):
                idx += 1
                if not ctx.mine(idx):
                    continue
                with Sim() as sim:
                    cfg = DeviceConfig(answer_ping=True)
                    if framing == "noise":
                        cfg.noise_psk = PSK
                    mode = {"answer": False}
                    seen: list[float] = []

                    def handler(c: Any, m: Any) -> None:
                        seen.append(sim.clock)
                        if mode["answer"]:
                            answer(c)

                    cfg.handlers[reqname] = handler
                    sim.device(cfg)
                    cli = sim.client(keepalive=20.0, **({"noise_psk": base64.b64encode(PSK).decode()} if framing == "noise" else {}))
                    c0 = sim.call("connect", lambda: cli.connect(login=False))
                    sim.run(until=lambda: c0.done, max_time=sim.clock + 50)
                    if c0.outcome != "ok":
                        res.inconclusive.append(f"wrapper histories: connect failed {c0.exc!r}")
                        continue
                    sim.run_for(offset)       # (where on the clock the call starts must not matter)
                    case = {"script": None, "wrapper": name, "framing": framing, "clock_offset": offset}
                    a = sim.call(name, lambda: call(cli))
                    sim.run(until=lambda: a.done, max_time=sim.clock + bound + 30)
                    res.evaluations += 1
                    res.count("workload/wrapper-histories")
                    res.sig("wrapper-history", name, framing, offset)
                    if not a.done or not isinstance(a.exc, TimeoutAPIError):
                        res.violation("C11/public-wrapper/unanswered-not-timeout", f"{name} against a device that does not answer it: {a.brief()}", case, trace=sim.trace(30))
                        continue
                    if abs((a.t_ret - a.t_call) - bound) > 1e-6:
                        res.violation("C11/timeout-instant", f"{name} (timeout {bound}s) started at clock {a.t_call:.3f}, unanswered: timed out after "
                                      f"{a.t_ret - a.t_call:.6f}s", case, trace=sim.trace(30))
                    # the same request again; this time the device answers at once
                    mode["answer"] = True
                    b = sim.call(name + "#2", lambda: call(cli))
                    sim.run(until=lambda: b.done, max_time=sim.clock + bound + 30)
                    if b.outcome != "ok" or not good(b.result):
                        res.violation("C11/missed-response", f"{name}: first call timed out unanswered; the same call again was answered at once by the device but ended "
                                      f"{b.brief()}", case, trace=sim.trace(30))
                    elif abs(b.t_ret - b.t_call) > 1e-6:
                        res.violation("C11/completion-instant", f"{name}#2 answered at once completed after {b.t_ret - b.t_call:.6f}s", case)
                    # two overlapping calls; the caller of the first gives up before the device answers
                    mode["answer"] = False
                    n_seen = len(seen)
                    x = sim.call(name + "#x", lambda: call(cli))
                    y = sim.call(name + "#y", lambda: call(cli))
                    sim.run_for(0.2)
                    sim.cancel(x)
                    sim.run_for(0.1)
                    conn = sim.conns[0]
                    dconn = sim.devices[0].conn
                    dconn.outbox = []
                    answer(dconn)
                    out, dconn.outbox = dconn.outbox, None
                    dconn.deliver_items(out, 0.0)
                    sim.run(until=lambda: x.done and y.done, max_time=sim.clock + bound + 30)
                    if x.outcome != "cancelled":
                        res.violation("C11/cancel-not-propagated", f"{name}#x was cancelled by its caller but ended {x.brief()}", case)
                    if y.outcome != "ok" or not good(y.result):
                        res.violation("C11/call-disturbed-by-sibling", f"two overlapping {name} calls, the first cancelled by its caller; the device then answered: the second "
                                      f"ended {y.brief()}", case, trace=sim.trace(30))
                    if len(seen) - n_seen != 2:
                        res.violation("C11/request-not-written", f"two overlapping {name} calls were made; the device received {len(seen) - n_seen} requests", case)
                    d = sim.call("bye", lambda: cli.disconnect(force=True))
                    sim.run(until=lambda: d.done, max_time=sim.clock + 5)
    # a device that is alive (answers every ping of a short keep-alive) but slow on one request: an answer arriving at 0.65 x the wrapper's timeout -
    # later than the keep-alive's own dead-peer time - still completes the call, at its arrival
    for framing in ("plain", "noise"):
        for name, (call, bound, reqname, answer, good) in wrappers_.items():
            idx += 1
            if not ctx.mine(idx):
                continue
            with Sim() as sim:
                cfg = DeviceConfig(answer_ping=True)
                if framing == "noise":
                    cfg.noise_psk = PSK
                delay = round(0.65 * bound, 3)

                def slow(c: Any, m: Any, delay: float = delay) -> None:
                    c.outbox = []
                    answer(c)
                    out, c.outbox = c.outbox, None
                    c.deliver_items(out, delay)

                cfg.handlers[reqname] = slow
                sim.device(cfg)
                K = round(bound / 10.0, 3)     # dead-peer time 4.5 K = 0.45 x bound < delay
                cli = sim.client(keepalive=K, **({"noise_psk": base64.b64encode(PSK).decode()} if framing == "noise" else {}))
                c0 = sim.call("connect", lambda: cli.connect(login=False))
                sim.run(until=lambda: c0.done, max_time=sim.clock + 50)
                a = sim.call(name, lambda: call(cli))
                sim.run(until=lambda: a.done, max_time=sim.clock + bound + 30)
                res.evaluations += 1
                res.count("workload/wrapper-histories/slow-answer-on-live-session")
                res.sig("wrapper-slow", name, framing)
                case = {"script": None, "wrapper": name, "framing": framing, "keepalive": K, "answered_after": delay}
                if a.outcome != "ok" or not good(a.result):
                    res.violation("C11/missed-response", f"{name} (timeout {bound}s) answered after {delay}s by a device that answers every ping (keepalive {K}s): "
                                  f"{a.brief()} after {0 if a.t_ret is None else a.t_ret - a.t_call:.3f}s", case, trace=sim.trace(30))
                elif abs((a.t_ret - a.t_call) - delay) > 2e-3:
                    res.violation("C11/completion-instant", f"{name} answered after {delay}s completed after {a.t_ret - a.t_call:.6f}s", case)
                d = sim.call("bye", lambda: cli.disconnect(force=True))
                sim.run(until=lambda: d.done, max_time=sim.clock + 5)


def shard(ctx: Ctx) -> None:
    from vf.sim import device as _device_fw  # noqa: PLC0415

    _device_fw.ROTATE_FIRMWARE = True    # the firmware flavour of default devices rotates (hello without a name, API 1.2 / 1.8 / 1.12, deep sleep)
    from vf.sim import device as _device

    _device.AUTO_ROTATE = True   # chunking of the device's stream rotates: as written / replies coalesced / cut into 1..8-byte pieces
    rng = ctx.rng.__class__(f"C11/{ctx.seed}")
    n = 400000 if ctx.thorough else 16000
    for i in range(n):
        script = gen_script(rng, "noise" if i % 5 == 0 else "plain")
        if ctx.mine(i):
            one(ctx, script, "random-script")
    if ctx.thorough:
        for i, script in enumerate(small_exhaustive()):
            if ctx.mine(i):
                one(ctx, script, "small-permutations")
    else:
        for i, script in enumerate(small_exhaustive()):
            if i % 23 == 0 and ctx.mine(i // 23):
                one(ctx, script, "small-permutations-sample")
    if ctx.shard == 0:
        wrappers(ctx)
    wrapper_histories(ctx)
    # the session ends by ping timeout / by the application's own graceful disconnect while calls are outstanding
    idx = 0
    for cause in ("pingfail", "disconnect"):
        for ncalls in (1, 2):
            for arrive_between in (False, True):
                for gap in ("0", "ms"):
                    idx += 1
                    if not ctx.mine(idx):
                        continue
                    calls = [{"types": [0, 1], "timeout": 2.0, "instant": []}, {"types": [1], "timeout": 2.0, "instant": []}][:ncalls]
                    ev = [["0", "call", i] for i in range(ncalls)] + [[gap, "close", cause]]
                    if arrive_between:
                        # answers that arrive after the close was initiated but before the connection is closed still complete their calls
                        ev += [["ms", "arrive", 0, 1, 0], ["ms", "arrive", 1, 3, 3 if ncalls == 2 else 1]]
                    sc: dict[str, Any] = {"framing": "plain", "calls": calls, "events": ev}
                    if cause == "pingfail":
                        sc["keepalive"] = 0.2
                    else:
                        sc["slow_disconnect_answer"] = 0.4
                    one(ctx, sc, f"session-ended-by-{cause}")
    # zero and negative timeouts, alone and next to a normal call on the same type
    idx = 0
    for to in EDGE_TIMEOUTS:
        for other in (False, True):
            for gap in ("0", "ms"):
                idx += 1
                if not ctx.mine(idx):
                    continue
                calls = [{"types": [0, 1], "timeout": to, "instant": []}] + ([{"types": [0], "timeout": 1.0, "instant": []}] if other else [])
                ev = [["0", "call", 0]] + ([[gap, "call", 1]] if other else []) + [["ms", "arrive", 0, 3, 3], ["ms", "arrive", 1, 3, 3], [gap, "call", 0] if False else ["ms", "arrive", 0, 3, 3]]
                one(ctx, {"framing": "plain", "calls": calls, "events": ev}, "edge-timeouts")
    # the request's own write fails (transport raises / kernel refuses), alone and with another call already outstanding
    idx = 0
    for cause in ("writeraise", "sendfail", "etimedout"):
        for first in (True, False):
            for gap in ("0", "ms"):
                for shared in (True, False):
                    idx += 1
                    if not ctx.mine(idx):
                        continue
                    calls = [{"types": [0], "timeout": 1.0, "instant": []}, {"types": [0] if shared else [1], "timeout": 2.0, "instant": []}]
                    ev = ([["0", "call", 0]] if first else []) + [[gap, "close", cause], [gap, "call", 1], ["ms", "arrive", 0, 3, 3], ["ms", "arrive", 1, 3, 3]]
                    one(ctx, {"framing": "plain", "calls": calls, "events": ev}, "request-write-fails")
    # a passive subscriber on the call's response type removed once, twice, three times around the call
    idx = 0
    for ty in range(3):
        for pattern in (["sub", "call", "unsub", "unsub", "arrive"], ["sub", "call", "unsub", "arrive"], ["call", "sub", "unsub", "unsub", "unsub", "arrive"],
                        ["sub", "unsub", "call", "unsub", "arrive"], ["sub", "sub", "call", "unsub", "unsub", "arrive"], ["sub", "unsub", "unsub", "call", "arrive"]):
            for gap in ("0", "ms"):
                for ncalls in (1, 2):
                    idx += 1
                    if not ctx.mine(idx):
                        continue
                    calls = [{"types": [ty], "timeout": 1.0, "instant": []} for _ in range(ncalls)]
                    ev: list[Any] = []
                    for p in pattern:
                        if p == "call":
                            ev += [[gap, "call", i] for i in range(ncalls)]
                        elif p == "sub":
                            ev.append([gap, "sub", ty])
                        elif p == "unsub":
                            ev.append([gap, "unsub", 0])
                        else:
                            ev.append(["ms", "arrive", ty, 7, 7])
                    one(ctx, {"framing": "plain", "calls": calls, "events": ev}, "subscriber-removed-repeatedly")
    # calls outstanding on a connection whose connect is stalled, disconnect() waiting on top, then the link is lost (lifecycle engine)
    sweep.stalled_connect_sweep(ctx, "C11")
    sweep.high_water_sweep(ctx, "C11")


def exhaustive(tier: str) -> Any:
    if tier == "thorough":
        return ["all orderings of 3-5 events out of a 9-event alphabet (2 calls sharing a type), gaps {0, 1ms}^k for k<=4"]
    return False


def replay(spec: dict[str, Any]) -> int:
    if "spec" in spec["case"]:
        return sweep.replay("C11", spec)
    script = spec["case"]["script"]
    o = run_script(script)
    print("\n".join(o["trace"]))
    found = judge(script, o)
    print(found)
    return 1 if found else 0

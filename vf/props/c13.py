"""C13 — message-id registry equals api.proto ids; traffic respects direction (engine T + S)."""

from __future__ import annotations

from typing import Any

from vf import protoparse
from vf.common import Ctx

LEVEL = "exploration"
RULE = ("T: the live module tables (core.MESSAGE_TYPE_TO_PROTO, connection.MESSAGE_NUMBER_TO_PROTO, connection.PROTO_TO_MESSAGE_TYPE) and the "
        "compiled descriptors are walked completely and compared with the (message, id, source, fields, enums) set parsed from the api.proto TEXT "
        "by an independent parser - one evaluation per (message x obligation). S: API-surface sweep (every public APIClient method found by "
        "introspection, per framing and under several negotiated API versions) with direction monitors: every type the device received must be "
        "marked client- or both-originated, every type the client subscribed to server- or both-originated. Non-trivial = a table entry / "
        "descriptor / observed traffic type was compared; distinct = (obligation, message or type)")
ASSUMPTIONS = [
    "api.proto text is the source of truth (parsed by vf.protoparse, ~200 lines, cross-checked against the descriptors here)",
    "public methods without a recipe (added after the recipe table was written) are called with arguments guessed from their signature; what cannot be called is listed as unswept in the evidence",
    "engine S doubles as in C05",
]
BUDGET_S = {"quick": 200, "thorough": 900}
MIN_EVALS = {"quick": 800, "thorough": 800}
NSHARDS = 4


def exhaustive(tier: str) -> Any:
    return ["T part: every message declared in api.proto x every obligation; every id 1..max; every enum value; every field"]


TYPE_MAP = {
    "double": "TYPE_DOUBLE", "float": "TYPE_FLOAT", "int32": "TYPE_INT32", "int64": "TYPE_INT64", "uint32": "TYPE_UINT32",
    "uint64": "TYPE_UINT64", "sint32": "TYPE_SINT32", "sint64": "TYPE_SINT64", "fixed32": "TYPE_FIXED32", "fixed64": "TYPE_FIXED64",
    "sfixed32": "TYPE_SFIXED32", "sfixed64": "TYPE_SFIXED64", "bool": "TYPE_BOOL", "string": "TYPE_STRING", "bytes": "TYPE_BYTES",
}
SRC = {"SOURCE_BOTH": 0, "SOURCE_SERVER": 1, "SOURCE_CLIENT": 2}


def tables(ctx: Ctx) -> None:
    from google.protobuf.descriptor import FieldDescriptor as FD

    from aioesphomeapi import api_options_pb2 as opts
    from aioesphomeapi import api_pb2 as pb
    from aioesphomeapi import connection, core

    res = ctx.res
    pr = protoparse.load_api()

    def ob(kind: str, subject: Any, ok: bool, what: str) -> None:
        res.evaluations += 1
        res.count(f"T/{kind}")
        res.sig("T", kind, subject)
        if not ok:
            res.violation(f"C13/{kind}", what, {"obligation": kind, "subject": str(subject)})

    text_ids: dict[int, str] = {}
    for m in pr.messages.values():
        if m.id is not None:
            ob("id-unique-in-text", m.name, m.id not in text_ids, f"id {m.id} declared for both {text_ids.get(m.id)} and {m.name}")
            text_ids[m.id] = m.name
    ids = sorted(text_ids)
    ob("ids-contiguous-from-1", "all", ids == list(range(1, len(ids) + 1)), f"declared ids are not 1..{len(ids)}: gaps {sorted(set(range(1, max(ids) + 1)) - set(ids))[:5]}")
    table = core.MESSAGE_TYPE_TO_PROTO
    ob("table-keys-equal-text-ids", "all", sorted(table) == ids,
       f"table-only ids {sorted(set(table) - set(ids))[:5]}, text-only ids {sorted(set(ids) - set(table))[:5]}")
    ob("table-key-order", "all", list(table) == sorted(table), "MESSAGE_TYPE_TO_PROTO is not in ascending id order (positional tuple would be misaligned)")
    for i in ids:
        name = text_ids[i]
        cls = table.get(i)
        ob("table-entry-class", i, cls is not None and cls.DESCRIPTOR.name == name and cls is getattr(pb, name, None),
           f"MESSAGE_TYPE_TO_PROTO[{i}] is {getattr(cls, '__name__', None)}, api.proto says {name}")
        pos = connection.MESSAGE_NUMBER_TO_PROTO[i - 1] if i - 1 < len(connection.MESSAGE_NUMBER_TO_PROTO) else None
        ob("positional-lookup", i, pos is not None and pos.DESCRIPTOR.name == name,
           f"connection.MESSAGE_NUMBER_TO_PROTO[{i}-1] is {getattr(pos, '__name__', None)}, api.proto says {name}")
        ob("inverse-table", i, cls is not None and connection.PROTO_TO_MESSAGE_TYPE.get(cls) == i,
           f"PROTO_TO_MESSAGE_TYPE[{name}] = {connection.PROTO_TO_MESSAGE_TYPE.get(cls)} != {i}")
    ob("positional-length", "all", len(connection.MESSAGE_NUMBER_TO_PROTO) == len(ids), f"{len(connection.MESSAGE_NUMBER_TO_PROTO)} positional entries, {len(ids)} ids")
    ob("inverse-size", "all", len(connection.PROTO_TO_MESSAGE_TYPE) == len(ids), f"{len(connection.PROTO_TO_MESSAGE_TYPE)} inverse entries, {len(ids)} ids")
    core_pos = getattr(core, "MESSAGE_NUMBER_TO_PROTO", None)
    if core_pos is not None:
        ob("core-positional", "all", [c.DESCRIPTOR.name for c in core_pos] == [text_ids[i] for i in ids], "core.MESSAGE_NUMBER_TO_PROTO differs from the text order")
    # compiled descriptors vs text
    for m in pr.messages.values():
        cls = getattr(pb, m.name, None)
        ob("message-compiled", m.name, cls is not None, f"{m.name} is declared in api.proto but missing from api_pb2")
        if cls is None:
            continue
        o = cls.DESCRIPTOR.GetOptions()
        did = o.Extensions[opts.id]
        dsrc = o.Extensions[opts.source]
        ob("descriptor-id-option", m.name, did == (m.id or 0), f"{m.name}: compiled option id={did}, text id={m.id}")
        ob("descriptor-source-option", m.name, dsrc == SRC[m.source], f"{m.name}: compiled source={dsrc}, text {m.source}")
        dfields = {f.name: f for f in cls.DESCRIPTOR.fields}
        ob("field-set", m.name, set(dfields) == {f.name for f in m.fields},
           f"{m.name}: compiled fields {sorted(set(dfields) - {f.name for f in m.fields})} vs text {sorted({f.name for f in m.fields} - set(dfields))}")
        for f in m.fields:
            d = dfields.get(f.name)
            if d is None:
                continue
            if f.type in TYPE_MAP:
                tok = d.type == getattr(FD, TYPE_MAP[f.type])
            elif f.type in pr.enums:
                tok = d.type == FD.TYPE_ENUM and d.enum_type.name == f.type
            else:
                tok = d.type == FD.TYPE_MESSAGE and d.message_type.name == f.type
            ob("field-descriptor", f"{m.name}.{f.name}", d.number == f.number and tok and bool(d.is_repeated) == f.repeated,
               f"{m.name}.{f.name}: compiled (number {d.number}, type {d.type}, repeated {d.is_repeated}) vs text ({f.number}, {f.type}, {f.repeated})")
            if f.repeated:
                # wire layout of a repeated field: proto3 packs scalar numeric / enum fields unless the text says [packed=false]
                packable = (f.type in TYPE_MAP and f.type not in ("string", "bytes")) or f.type in pr.enums
                want_packed = packable and f.options.get("packed", "true").strip().lower() != "false"
                got_packed = bool(getattr(d, "is_packed", None)) if hasattr(d, "is_packed") else bool(d.GetOptions().packed)
                ob("field-packed", f"{m.name}.{f.name}", got_packed == want_packed,
                   f"{m.name}.{f.name}: compiled descriptor says packed={got_packed}, the .proto text says packed={want_packed} (option {f.options.get('packed')!r})")
    for mname in [n for n in dir(pb) if hasattr(getattr(pb, n), "DESCRIPTOR") and hasattr(getattr(pb, n).DESCRIPTOR, "fields")]:
        if getattr(pb, mname).DESCRIPTOR.file.name.endswith("api.proto"):
            ob("compiled-message-in-text", mname, mname in pr.messages, f"api_pb2.{mname} is not declared in api.proto")
    for e in pr.enums.values():
        ed = pb.DESCRIPTOR.enum_types_by_name.get(e.name)
        ob("enum-compiled", e.name, ed is not None, f"enum {e.name} missing from api_pb2")
        if ed is not None:
            ob("enum-values", e.name, {v.name: v.number for v in ed.values} == e.values,
               f"enum {e.name}: compiled {dict(list({v.name: v.number for v in ed.values}.items())[:4])}... vs text")
    res.notes["T_summary"] = f"{len(ids)} ids, {len(pr.messages)} messages, {len(pr.enums)} enums compared"


def direction(ctx: Ctx, framing: str, api: tuple[int, int], silent: bool = False) -> None:
    from vf.sim import apisweep

    res = ctx.res
    pr = protoparse.load_api()
    o = apisweep.run(framing, api, silent=silent)
    if o.get("error") or o.get("harness_errors"):
        res.inconclusive.append(f"api sweep: {o.get('error') or o['harness_errors'][0][-300:]}")
        return
    res.notes.setdefault("unswept_public_methods", []).extend(o["unswept"])
    res.notes.setdefault("public_methods_without_recipe_called_with_guessed_arguments", []).extend(o.get("auto_swept", []))
    res.count("S/methods_swept", len(o["methods"]))
    res.count("S/methods_unswept", len(o["unswept"]))
    for name, m in o["methods"].items():
        if m["outcome"] != "ok" and not silent:
            res.notes.setdefault("sweep_method_problems", []).append(f"{framing} {api} {name}: {m['outcome'][:120]}")
        for tname, tid in m["device_received"]:
            res.evaluations += 1
            res.count("S/sent-type-observations")
            res.sig("S-sent", tname or tid)
            res.seen("types_sent_by_client", tname or tid)
            pm = pr.messages.get(tname) if tname else None
            if pm is None:
                res.violation("C13/sent-undefined-type", f"{name}() made the client send type id {tid} that api.proto does not define", {"method": name, "framing": framing})
            elif pm.source == "SOURCE_SERVER":
                res.violation(f"C13/sent-server-only-type/{tname}", f"{name}() made the client send {tname}, marked SOURCE_SERVER", {"method": name, "framing": framing})
        for tname in m["subscribed"]:
            res.evaluations += 1
            res.count("S/subscribed-type-observations")
            res.sig("S-sub", tname)
            res.seen("types_subscribed_by_client", tname)
            pm = pr.messages.get(tname)
            if pm is None or pm.id is None:
                res.violation("C13/subscribed-undefined-type", f"{name}() subscribed to {tname}, which has no id in api.proto", {"method": name, "framing": framing})
            elif pm.source == "SOURCE_CLIENT":
                res.violation(f"C13/subscribed-client-only-type/{tname}", f"{name}() subscribed to {tname}, marked SOURCE_CLIENT", {"method": name, "framing": framing})
    # connect phase + internal handlers (not tied to a public method)
    for tname in o["all_subscribed"]:
        pm = pr.messages.get(tname)
        res.seen("types_subscribed_by_client", tname)
        if pm is not None and pm.source == "SOURCE_CLIENT":
            res.violation(f"C13/subscribed-client-only-type/{tname}", f"the connection subscribed to {tname}, marked SOURCE_CLIENT", {"method": "<connection>", "framing": framing})
    for tname in o["all_sent"]:
        pm = pr.messages.get(tname)
        res.seen("types_sent_by_client", tname)
        if pm is None or pm.source == "SOURCE_SERVER":
            res.violation(f"C13/sent-server-only-type/{tname}", f"the client sent {tname} (undefined or SOURCE_SERVER)", {"method": "<connection>", "framing": framing})
    if o["decode_errors"]:
        res.violation("C13/device-could-not-decode", str(o["decode_errors"][:2]), {"framing": framing})
    if ctx.res.evaluations % 2 == 0 and "light_command" in o["methods"]:
        res.sample({"framing": framing, "api": api, "method": "light_command", "device_received": o["methods"]["light_command"]["device_received"],
                    "subscribe_states_subscribed": o["methods"]["subscribe_states"]["subscribed"][:5]})


def passive_direction(ctx: Ctx) -> None:
    """Direction monitors on the workloads of other properties' checks (voice assistant sequences, subscriptions and unsubscriptions,
    BLE operations, re-entrant dispatch histories, multi-session client histories, reconnect-manager histories): every type the
    independent device decoded from the client's bytes must be client- or both-originated, every type subscribed server- or both-originated."""
    from vf.props import c12, c16, c17, c18, c19
    from vf.sim import scenario as scen

    res = ctx.res
    scen.DIRECTION_SENT.clear()
    scen.DIRECTION_SUBSCRIBED.clear()
    scen.DIRECTION_FLAGS.clear()
    sub = Ctx("C13-passive", ctx.shard, ctx.nshards, "quick", ctx.seed)
    jobs = [("C17 voice assistant", c17.voice_assistant), ("C17 other subscriptions", c17.other_subscriptions), ("C17 unsubscribe positions", c17.unsubscribe_positions),
            ("C17 state streams", c17.state_streams), ("C16 BLE operations", c16.shard), ("C12 dispatch histories", c12.histories),
            ("C12 peer requests during connect", c12.peer_requests_during_connect)]
    for label, fn in jobs:
        before = sub.res.evaluations
        saved_sub = dict(scen.DIRECTION_SUBSCRIBED)
        n_flags = len(scen.DIRECTION_FLAGS)
        try:
            fn(sub)
        except Exception as e:  # noqa: BLE001
            res.inconclusive.append(f"passive direction workload {label} crashed: {e!r}")
            continue
        if label.startswith("C12"):
            # the C12 harness itself subscribes a recording callback to EVERY class (client-originated ones too): its subscriptions say
            # nothing about the library; only what the client SENT during those runs is kept
            scen.DIRECTION_SUBSCRIBED.clear()
            scen.DIRECTION_SUBSCRIBED.update(saved_sub)
            scen.DIRECTION_FLAGS[n_flags:] = [f for f in scen.DIRECTION_FLAGS[n_flags:] if f["kind"] == "sent"]
        res.count(f"S/passive-workload-runs/{label}", sub.res.evaluations - before)
    rng = ctx.rng.__class__(f"C13/{ctx.seed}/{ctx.shard}")
    for i in range(12 if ctx.thorough else 4):
        c19.run_history(c19.gen_history(rng))
        c18.run_history({"variant": rng.choice(c18.VARIANTS), "hist": c18.gen_history(rng)})
        res.count("S/passive-workload-runs/C18+C19 histories", 2)
    pr = protoparse.load_api()
    for name, n in scen.DIRECTION_SENT.items():
        res.evaluations += 1
        res.count("S/passive-sent-observations", n)
        res.seen("types_sent_by_client", name)
        res.sig("S-sent", name)
    for name, n in scen.DIRECTION_SUBSCRIBED.items():
        res.evaluations += 1
        res.count("S/passive-subscribed-observations", n)
        res.seen("types_subscribed_by_client", name)
        res.sig("S-sub", name)
    for f in scen.DIRECTION_FLAGS:
        pm = pr.messages.get(f["type"])
        if f["kind"] == "sent":
            key = "C13/sent-undefined-type" if pm is None else f"C13/sent-server-only-type/{f['type']}"
            res.violation(key, f"the client sent {f['type']} ({'not defined in api.proto' if pm is None else 'marked SOURCE_SERVER'}) during a passive workload",
                          {"method": "<passive>", "type": f["type"]}, trace=f["trace"])
        else:
            res.violation(f"C13/subscribed-client-only-type/{f['type']}", f"the client subscribed to {f['type']} (undefined, without id or SOURCE_CLIENT) during a passive workload",
                          {"method": "<passive>", "type": f["type"]}, trace=f["trace"])


def lookup_behaviour(ctx: Ctx) -> None:
    """Positional lookup as the receive path performs it: a frame of EVERY declared id (empty payload and a generated valid payload), sent to a
    live session that has a recording subscriber for every class, must reach the subscriber as an instance of exactly the class api.proto names."""
    from vf import msggen
    from vf.props import c12
    from vf.sim.scenario import Sim

    res = ctx.res
    pr = protoparse.load_api()
    internal = {"PingRequest", "GetTimeRequest", "DisconnectRequest"}   # answered by the connection itself; DisconnectRequest closes it
    for fi, framing in enumerate(("plain", "noise")):
        if fi % ctx.nshards != ctx.shard % 2 or ctx.shard > 1:
            continue
        with Sim() as sim:
            live = c12.Live(sim, framing)
            rng = ctx.rng.__class__(f"C13/lookup/{ctx.seed}")
            for ty in sorted(pr.by_id):
                m = pr.by_id[ty]
                if m.name == "DisconnectRequest":
                    continue
                cls = getattr(live.pb, m.name)
                for payload in (b"", msggen.random_message(cls, rng).SerializeToString()):
                    live.ensure()
                    n0 = len(live.log)
                    live.dconn.send_id(ty, payload, 0.0)
                    sim.run_for(0.01)
                    got = [type(x).__name__ for _, x in live.log[n0:]]
                    res.evaluations += 1
                    res.count("S/lookup-behaviour-frames")
                    res.sig("lookup", ty, bool(payload))
                    if got != [m.name]:
                        res.violation(f"C13/lookup-behaviour/{'dropped' if not got else 'wrong-class'}",
                                      f"{framing}: frame with id {ty} ({m.name}, {len(payload)} payload bytes) reached subscribers as {got or 'nothing'}",
                                      {"id": ty, "framing": framing, "payload": payload.hex()}, trace=sim.trace(20))
            # the class is selected by the id ALONE: consecutive frames of different ids carrying byte-identical non-empty payloads (entities of
            # different domains with the same name hash to the same key), each in its own chunk and all in one chunk
            same = b"\xe0\x76\x2a"      # (one unknown varint field: a valid payload for every message)
            ids_ = [ty for ty in sorted(pr.by_id) if pr.by_id[ty].name not in internal and pr.by_id[ty].name not in ("HelloResponse", "ConnectResponse")]
            for one_chunk in (False, True):
                live.ensure()
                n0 = len(live.log)
                if one_chunk:
                    live.dconn.outbox = []
                for ty in ids_:
                    live.dconn.send_id(ty, same, None if one_chunk else 0.0)
                if one_chunk:
                    out_, live.dconn.outbox = live.dconn.outbox, None
                    live.dconn.deliver_items(out_, 0.0)
                sim.run_for(0.05)
                got_ = [type(x).__name__ for _, x in live.log[n0:]]
                want_ = [pr.by_id[ty].name for ty in ids_]
                res.evaluations += 1
                res.count("S/lookup-behaviour-frames/identical-payload-runs")
                if got_ != want_:
                    k_ = next((i for i, (a_, b_) in enumerate(zip(got_, want_)) if a_ != b_), min(len(got_), len(want_)))
                    res.violation("C13/lookup-behaviour/wrong-class", f"{framing}: {len(ids_)} consecutive frames of different ids with the identical payload "
                                  f"({'one chunk' if one_chunk else 'separate chunks'}): frame #{k_} (id {ids_[k_] if k_ < len(ids_) else '?'}, "
                                  f"{want_[k_] if k_ < len(want_) else '?'}) reached subscribers as {got_[k_] if k_ < len(got_) else 'nothing'}",
                                  {"framing": framing, "identical_payload": same.hex(), "one_chunk": one_chunk}, trace=sim.trace(20))
            # "... and nothing else is": a type number that api.proto does not declare selects NO class, whatever its low bits / low byte /
            # value modulo a power of two happen to be (plaintext carries the number as a varint, Noise as a 16-bit field)
            top = max(pr.by_id)
            lows = sorted({1, 5, 7, 8, 25, 36, 37, top})   # hello, disconnect, ping, pong, a state, time request/response, the last id
            if framing == "plain":
                undeclared = [0, top + 1, top + 2, 200, 255] + [b + k for b in (256, 512, 0x4000, 0x8000, 0xFF00, 1 << 16, 1 << 17, 1 << 21, 1 << 24, 1 << 28, 1 << 31, 1 << 32, 1 << 35, 1 << 63, 1 << 64) for k in lows] \
                    + [(1 << 32) - 1, (1 << 16) - 1]
            else:
                undeclared = [0, top + 1, top + 2, 200, 255] + [b + k for b in (256, 512, 0x4000, 0x8000, 0xFF00) for k in lows] + [0xFFFF]
            for ty in undeclared:
                if ty in pr.by_id:
                    continue
                for payload in (b"", b"\x08\x01"):
                    live.ensure()
                    n0 = len(live.log)
                    w0 = len(live.dconn.received)
                    conn0 = live.cli._connection  # noqa: SLF001
                    live.dconn.send_id(ty, payload, 0.0)
                    sim.run_for(0.01)
                    got = [type(x).__name__ for _, x in live.log[n0:]]
                    wrote = [r["name"] or r["id"] for r in live.dconn.received[w0:]]
                    res.evaluations += 1
                    res.count("S/undeclared-id-frames")
                    res.sig("undeclared", framing, ty, bool(payload))
                    case = {"id": ty, "framing": framing, "payload": payload.hex()}
                    if got:
                        res.violation("C13/undeclared-id-selected-a-class", f"{framing}: frame with undeclared type number {ty} (low byte {ty & 0xFF}, mod 65536 = {ty & 0xFFFF}) "
                                      f"reached subscribers as {got}", case, trace=sim.trace(20))
                    if wrote:
                        res.violation("C13/undeclared-id-answered", f"{framing}: frame with undeclared type number {ty} made the client write {wrote}", case, trace=sim.trace(20))
                    if live.cli._connection is not conn0 or conn0 is None or not conn0.is_connected:  # noqa: SLF001
                        res.violation("C13/undeclared-id-ended-session", f"{framing}: frame with undeclared type number {ty} ended the session", case, trace=sim.trace(20))


def sent_ids_behind_backlog(ctx: Ctx, framing: str, first: Any, drain: Any) -> None:
    """What a public method puts on the wire carries the id api.proto gives that message ALSO when the frame waits in the transport's queue first
    (device not reading) and other frames are produced meanwhile: the sequence the slow device finally decodes equals, id by id and payload by payload,
    what a device that reads at once gets for the same calls."""
    from vf.sim import apisweep

    res = ctx.res
    pr = protoparse.load_api()
    a = apisweep.run_backlog(framing, False)
    b = apisweep.run_backlog(framing, True, first, drain)
    for o in (a, b):
        if o.get("error") or o.get("harness_errors"):
            res.inconclusive.append(f"backlog sweep: {o.get('error') or o['harness_errors'][0][-300:]}")
            return
    case = {"framing": framing, "backlog": True, "first": repr(first), "drain": repr(drain)}
    for name, e in b["raised"]:
        if (name, e) not in a["raised"]:
            res.evaluations += 1
            res.violation(f"C13/backlog/call-raised/{name.split('/')[0]}", f"{name}() raised {e} while the device was reading slowly; with a device that reads at once it does not", case)
    ref = [(name, x) for name, lst in a["calls"] if (name, None) in b["calls"] for x in lst or []]
    got = b["received"]
    res.count(f"S/backlog/{framing}/frames_queued_behind_a_backlog", len(got))
    res.count(f"S/backlog/{framing}/payload-less_frames_among_them", sum(1 for x in got if not x[2]))
    if b["decode_errors"]:
        res.evaluations += 1
        res.violation("C13/device-could-not-decode", f"behind a backlog: {b['decode_errors'][:2]}", case)
    for i, (name, x) in enumerate(ref):
        res.evaluations += 1
        res.sig("S-backlog", framing, x[0])
        y = got[i] if i < len(got) else None
        if y is None:
            res.violation("C13/backlog/frame-missing", f"{name}(): {x[0]} (id {x[1]}) never reached the slow device; {len(got)} of {len(ref)} frames arrived", case)
            break
        pm = pr.messages.get(x[0])
        if y[1] != x[1] or (pm is not None and pm.id != y[1]):
            res.violation(f"C13/backlog/sent-under-wrong-id/{x[0]}", f"{name}() sends {x[0]} (id {x[1]} in api.proto); queued behind a backlog it reached the device as "
                          f"id {y[1]} ({y[0]})", {**case, "method": name})
        elif y[2] != x[2]:
            res.violation(f"C13/backlog/payload-differs/{x[0]}", f"{name}(): payload of {x[0]} differs when the frame waited behind a backlog", {**case, "method": name})
    if len(got) > len(ref):
        res.evaluations += 1
        res.violation("C13/backlog/extra-frames", f"slow device decoded {len(got)} frames, the same calls produce {len(ref)}: extra {[g[0] for g in got[len(ref):]][:4]}", case)


def sent_ids_over_payload_sizes(ctx: Ctx) -> None:
    """The type number a request leaves under does not depend on how long its payload is: commands with string / bytes arguments sized so that the
    serialized request sits on and around every boundary of the length encodings (2^7, 2^14, 2^16, 2^17, 2^21 bytes; the Noise frame limit) reach
    the device under the id api.proto gives their message, with the payload length they were given."""
    import base64

    from aioesphomeapi import api_pb2 as pb
    from vf.sim.device import DeviceConfig
    from vf.sim.scenario import Sim

    res = ctx.res
    pr = protoparse.load_api()
    psk = bytes(range(7, 39))
    sizes = list(range(118, 140)) + list(range(16376, 16392)) + list(range(65520, 65545)) + [131070, 131072, 131075, 2097150, 2097152, 2097155]
    methods = {
        "text_command": (lambda c, n: c.text_command(1, "x" * n), "TextCommandRequest", lambda n: pb.TextCommandRequest(key=1, state="x" * n)),
        "select_command": (lambda c, n: c.select_command(2, "y" * n), "SelectCommandRequest", lambda n: pb.SelectCommandRequest(key=2, state="y" * n)),
        "send_home_assistant_state": (lambda c, n: c.send_home_assistant_state("sensor.s", None, "z" * n), "HomeAssistantStateResponse",
                                      lambda n: pb.HomeAssistantStateResponse(entity_id="sensor.s", state="z" * n)),
        "send_voice_assistant_audio": (lambda c, n: c.send_voice_assistant_audio(b"\x01" * n), "VoiceAssistantAudio", lambda n: pb.VoiceAssistantAudio(data=b"\x01" * n)),
        "text_command/non-bmp": (lambda c, n: c.text_command(1, "\U0001F600" * (n // 4)), "TextCommandRequest", lambda n: pb.TextCommandRequest(key=1, state="\U0001F600" * (n // 4))),
    }
    idx = 0
    for framing in ("plain", "noise"):
        for mname, (call, wname, build) in methods.items():
            idx += 1
            if not ctx.mine(300 + idx):
                continue
            with Sim() as sim:
                dev = sim.device(DeviceConfig(noise_psk=psk if framing == "noise" else None))
                cli = sim.client(keepalive=1e5, **({"noise_psk": base64.b64encode(psk).decode()} if framing == "noise" else {}))
                c0 = sim.call("connect", lambda: cli.connect(login=False))
                sim.run(until=lambda: c0.done, max_time=sim.clock + 50)
                if c0.outcome != "ok":
                    res.inconclusive.append(f"payload sizes: connect failed {c0.exc!r}")
                    continue
                want_id = pr.messages[wname].id
                for n in sizes:
                    exp = build(n).SerializeToString()
                    if framing == "noise" and len(exp) > 65515:
                        continue
                    # (aim the SERIALIZED size at the boundary: shrink the argument by the fixed overhead of the message)
                    n2 = max(0, n - (len(exp) - n))
                    exp = build(n2).SerializeToString()
                    n0 = len(dev.conn.received)
                    case = {"framing": framing, "method": mname, "payload_bytes": len(exp)}
                    try:
                        call(cli, n2)
                    except Exception as e:  # noqa: BLE001
                        res.evaluations += 1
                        res.violation(f"C13/payload-size/call-raised/{mname.split('/')[0]}", f"{mname} with a {len(exp)}-byte request raised {e!r}", case)
                        break
                    sim.run_for(0.01)
                    got = dev.conn.received[n0:]
                    res.evaluations += 1
                    res.count("S/payload-size-observations")
                    res.sig("S-size", framing, mname, len(exp))
                    if dev.conn.decode_errors or len(got) != 1 or got[0]["id"] != want_id or got[0]["payload"] != exp:
                        seen = [(g["id"], g["name"], len(g["payload"])) for g in got][:3]
                        res.violation(f"C13/payload-size/sent-under-wrong-id/{wname}", f"{mname}: a {len(exp)}-byte {wname} (id {want_id}) reached the device as {seen} "
                                      f"{dev.conn.decode_errors[:1]}", case, trace=sim.trace(20))
                        break


def undeclared_ids_seen_by_devices(ctx: Ctx) -> None:
    """Device-side monitor over everything this worker process did (both framings, many sessions, in whatever order the workloads ran): every frame
    a simulated device decoded carried a type number api.proto declares.  All client traffic in this check is written by the library itself, so
    a frame under an undeclared number is a message the client sent under a type the protocol does not mark as client-originated."""
    from vf.sim import device as _dev  # noqa: PLC0415

    res = ctx.res
    res.evaluations += 1
    seen = list(_dev.UNDECLARED_IDS_RECEIVED)
    res.count("S/frames-under-undeclared-ids-seen-by-devices", len(seen))
    if seen:
        first = seen[0]
        res.violation("C13/client-sent-undeclared-id", f"{len(seen)} frames reached a device under type numbers api.proto does not declare; first: id {first['id']} "
                      f"({first['framing']} framing, {first['payload_bytes']} payload bytes); ids {sorted({x['id'] for x in seen})[:8]}",
                      {"undeclared": seen[:5], "shard": ctx.shard, "note": "process-wide monitor: replay by running the shard"})


def shard(ctx: Ctx) -> None:
    try:
        _shard(ctx)
    finally:
        undeclared_ids_seen_by_devices(ctx)


def _shard(ctx: Ctx) -> None:
    if ctx.shard == 0:
        # first: the structural obligations need nothing but the modules and the text (and the workloads below assume some of them)
        tables(ctx)
        ctx.res.sample({"obligation": "positional-lookup", "id": 25, "expected": "SensorStateResponse"})
    for j, (framing, first, drain) in enumerate((("plain", ("partial", 1000), ("rate", 7)), ("plain", "block", None), ("noise", ("partial", 1500), ("rate", 40)),
                                                 ("noise", "block", ("rate", 2000)), ("plain", ("partial", 2990), ("rate", 1)))):
        if ctx.mine(700 + j):
            sent_ids_behind_backlog(ctx, framing, first, drain)
    sent_ids_over_payload_sizes(ctx)
    passive_direction(ctx)
    lookup_behaviour(ctx)
    jobs: list[tuple[Any, ...]] = [("plain", (1, 10), False), ("noise", (1, 10), False), ("plain", (1, 10), True), ("noise", (1, 10), True)]
    if ctx.thorough:
        jobs += [("plain", (1, 0), False), ("plain", (1, 2), False), ("noise", (1, 4), False), ("plain", (1, 9), False), ("plain", (2, 0), False), ("plain", (1, 2), True)]
    for i, (framing, api, silent) in enumerate(jobs):
        if i % ctx.nshards == ctx.shard:
            direction(ctx, framing, api, silent)


def replay(spec: dict[str, Any]) -> int:
    ctx = Ctx("C13", 0, 1, "quick", 0)
    tables(ctx)
    if "undeclared" in str(spec)[:4000]:
        # the process-wide monitor: sessions of both framings in one process, in both orders
        for fr in ("noise", "plain", "noise"):
            direction(ctx, fr, (1, 10))
        undeclared_ids_seen_by_devices(ctx)
    else:
        direction(ctx, "plain", (1, 10))
    for v in ctx.res.violations:
        print(v["key"], v["what"])
    return 1 if ctx.res.violations else 0

"""C17 — one converted callback per subscribed message; camera images reassemble per key (engine S + models)."""

from __future__ import annotations

import itertools
from typing import Any

from vf import msggen
from vf.common import Ctx
from vf.props import c14
from vf.sim.device import DeviceConfig
from vf.sim.scenario import Sim

LEVEL = "exploration"
RULE = ("(1) seeded mixed streams of all 21 state message types (descriptor-generated values) interleaved with camera chunks, delivered one per "
        "chunk or coalesced; (2) ALL order-preserving interleavings of 2-3 cameras' chunk streams up to 9 chunks, with empty chunks and key reuse; "
        "(3) log / service-call / home-assistant-state (once and not) / advertisement (parsed, raw) / connections-free subscriptions; "
        "(4) voice-assistant request/audio/announce sequences x handler outcomes {port, None, pending then unsubscribed, raises}; (5) unsubscribe "
        "at every position of a message stream. Oracles: one-callback-per-message in arrival order with the C14 expected model value; per-key "
        "camera reassembly model; exact reply frames at the device for voice assistant. Non-trivial = a subscribed message was delivered and "
        "compared; distinct = (subscription kind, stream shape)")
ASSUMPTIONS = [
    "expected model values come from the C14 descriptor-driven oracle (vf.props.c14), the message->model table is written here from the naming in api.proto",
    "a voice-assistant start handler that raises is recorded, not judged (the statement does not cover it)",
    "engine S doubles as in C05",
]
BUDGET_S = {"quick": 300, "thorough": 3000}
MIN_EVALS = {"quick": 1500, "thorough": 20000}

STATE_MODELS = {
    "AlarmControlPanelStateResponse": "AlarmControlPanelEntityState", "BinarySensorStateResponse": "BinarySensorState", "ClimateStateResponse": "ClimateState",
    "CoverStateResponse": "CoverState", "DateStateResponse": "DateState", "DateTimeStateResponse": "DateTimeState", "EventResponse": "Event",
    "FanStateResponse": "FanState", "LightStateResponse": "LightState", "LockStateResponse": "LockEntityState", "MediaPlayerStateResponse": "MediaPlayerEntityState",
    "NumberStateResponse": "NumberState", "SelectStateResponse": "SelectState", "SensorStateResponse": "SensorState", "SirenStateResponse": "SirenState",
    "SwitchStateResponse": "SwitchState", "TextSensorStateResponse": "TextSensorState", "TextStateResponse": "TextState", "TimeStateResponse": "TimeState",
    "UpdateStateResponse": "UpdateState", "ValveStateResponse": "ValveState",
}


def exhaustive(tier: str) -> Any:
    return ["all order-preserving interleavings of the chunk streams of 2-3 cameras with <= 9 chunks in total (several chunk-count profiles)"]


def session(sim: Sim, outside_loop: bool = False) -> tuple[Any, Any]:
    dev = sim.device(DeviceConfig())
    cli = sim.client(keepalive=1e5, outside_loop=outside_loop)
    c = sim.call("connect", lambda: cli.connect(login=False))
    sim.run(until=lambda: c.done, max_time=sim.clock + 50)
    if c.outcome != "ok":
        raise RuntimeError(f"connect failed {c.exc!r}")
    return cli, dev.conn


def send_stream(sim: Sim, dconn: Any, msgs: list[Any], coalesce: list[int]) -> None:
    """Send messages; `coalesce` = sizes of consecutive groups that share one chunk."""
    i = 0
    for g in coalesce:
        group = msgs[i:i + g]
        i += g
        if not group:
            continue
        dconn.outbox = []
        for m in group:
            dconn.send_msg(m)
        out, dconn.outbox = dconn.outbox, None
        dconn.deliver_items(out, 0.0)
        sim.run_for(0.001)
    for m in msgs[i:]:
        dconn.send_msg(m)
        sim.run_for(0.001)


def camera_model(chunks: list[tuple[int, bytes, bool]]) -> list[tuple[int, bytes]]:
    buf: dict[int, bytes] = {}
    out = []
    for key, data, done in chunks:
        buf[key] = buf.get(key, b"") + data
        if done:
            out.append((key, buf.pop(key)))
    return out


def state_streams(ctx: Ctx) -> None:
    from aioesphomeapi import api_pb2 as pb
    from aioesphomeapi import model as M

    res = ctx.res
    rng = ctx.rng.__class__(f"C17-states/{ctx.seed}")
    conv = c14.Conv()
    names = sorted(STATE_MODELS)
    n = 200000 if ctx.thorough else 8000
    Rnd = rng.__class__
    for si in range(n):
        if not ctx.mine(si):
            continue
        rng = Rnd(f"C17-states/{ctx.seed}/{si}")   # per-case generator: the set of cases does not depend on the sharding
        length = rng.randint(1, 14)
        if si % 500 == 7:
            length = rng.choice([150, 400, 1200])      # a device dumping the states of hundreds of entities at once / a long-running stream
        msgs: list[Any] = []
        cam_open: dict[int, int] = {}
        for _ in range(length):
            if rng.random() < 0.25:
                key = rng.choice([1, 2, 3])
                done = rng.random() < 0.4
                msgs.append(pb.CameraImageResponse(key=key, data=bytes(rng.getrandbits(8) for _ in range(rng.choice([0, 1, 5, 40]))), done=done))
            else:
                nm = rng.choice(names)
                msgs.append(msggen.random_message(getattr(pb, nm), rng, fill=rng.choice([0.3, 0.8, 1.0])))
        if si % 5 == 2:
            # newer firmware: every state message carries two fields this client's api.proto does not know (kept by the protobuf runtime as
            # unknown fields, so they really are on the wire): delivered as if they were not there
            withx: list[Any] = []
            for m in msgs:
                m2 = type(m)()
                m2.ParseFromString(m.SerializeToString() + b"\xe0\x76\x2a" + b"\xea\x76\x03abc")
                withx.append(m2)
            msgs = withx
            res.count("workload/state-stream/with-unknown-fields")
        if si % 4 == 3:
            # an entity reporting the same value again (and again): every message is a message - identical consecutive ones, and identical ones
            # separated by other traffic, each produce their callback
            rep: list[Any] = []
            for m in msgs:
                rep.append(m)
                if type(m).__name__ != "CameraImageResponse":
                    for _ in range(rng.choice([1, 1, 2])):
                        c = type(m)()
                        c.CopyFrom(m)
                        rep.append(c)
            msgs = rep + [type(m).FromString(m.SerializeToString()) for m in msgs[:3] if type(m).__name__ != "CameraImageResponse"]
            res.count("workload/state-stream/with-identical-repeats")
        if not ctx.mine(si):
            continue
        groups = []
        left = len(msgs)
        while left > 0:
            g = rng.choice([1, 1, 2, 3, left])
            g = min(g, left)
            groups.append(g)
            left -= g
        with Sim() as sim:
            cli, dconn = session(sim)
            got: list[Any] = []
            cli.subscribe_states(got.append)
            send_stream(sim, dconn, msgs, groups)
            res.evaluations += 1
            res.count("workload/state-stream")
            res.count("state_messages_sent", len(msgs))
            if sim.harness_errors:
                res.inconclusive.append("harness: " + sim.harness_errors[0][-300:])
                continue
            # expected sequence
            exp: list[tuple[str, Any]] = []
            cam_chunks: list[tuple[int, bytes, bool]] = []
            for m in msgs:
                if type(m).__name__ == "CameraImageResponse":
                    cam_chunks.append((m.key, m.data, m.done))
                    before = len(camera_model(cam_chunks[:-1]))
                    after = camera_model(cam_chunks)
                    if len(after) > before:
                        exp.append(("camera", after[-1]))
                else:
                    exp.append((type(m).__name__, m))
            case = {"kind": "state-stream", "types": [type(m).__name__ for m in msgs], "groups": groups, "seed_index": si}
            res.sig("states", tuple(case["types"]), tuple(groups))
            if len(got) != len(exp):
                res.violation("C17/state/callback-count", f"{len(got)} callbacks for a stream that should produce {len(exp)} "
                              f"({[type(g).__name__ for g in got][:8]} vs {[e[0] for e in exp][:8]})", case, trace=sim.trace(30))
                continue
            for g, (nm, m) in zip(got, exp):
                res.count("state_callbacks_compared")
                if nm == "camera":
                    if type(g).__name__ != "CameraState" or g.key != m[0] or bytes(g.data) != m[1]:
                        res.violation("C17/camera/image-mismatch", f"camera key {m[0]}: got {type(g).__name__}(key={getattr(g, 'key', None)}, {len(getattr(g, 'data', b''))} bytes), "
                                      f"model says {len(m[1])} bytes", case)
                        break
                    continue
                mcls = getattr(M, STATE_MODELS[nm])
                if type(g) is not mcls:
                    res.violation(f"C17/state/wrong-model-class/{nm}", f"{nm} delivered as {type(g).__name__}, expected {mcls.__name__} (or out of order)", case)
                    break
                bad = c14.compare_fields(ctx, conv, type(m), mcls, m, g, "stream")
                if bad:
                    res.violation(f"C17/state/value/{nm}", f"{bad[0][1]}", case)
                    break
            if res.evaluations % 100 == 1:
                res.sample({**case, "callbacks": [type(g).__name__ for g in got]})


def interleavings(counts: list[int]) -> Any:
    """All order-preserving interleavings of streams with the given chunk counts (as sequences of stream indices)."""
    left = list(counts)
    cur: list[int] = []

    def rec() -> Any:
        if not any(left):
            yield tuple(cur)
            return
        for s_ in range(len(left)):
            if left[s_]:
                left[s_] -= 1
                cur.append(s_)
                yield from rec()
                cur.pop()
                left[s_] += 1

    yield from rec()


def camera_interleavings(ctx: Ctx) -> None:
    from aioesphomeapi import api_pb2 as pb

    res = ctx.res
    profiles = [[1, 1], [2, 1], [2, 2], [3, 2], [1, 1, 1], [2, 2, 1], [3, 3], [4, 2], [3, 2, 1], [2, 2, 2], [5, 1], [3, 3, 2], [4, 4], [3, 3, 3], [5, 4]]
    if not ctx.thorough:
        profiles = profiles[:12]
    idx = 0
    for counts in profiles:
        for order in interleavings(counts):
            idx += 1
            if not ctx.mine(idx):
                continue
            pos = [0] * len(counts)
            chunks: list[tuple[int, bytes, bool]] = []
            for s in order:
                pos[s] += 1
                data = b"" if (idx + pos[s]) % 5 == 0 else bytes([s * 16 + pos[s]]) * (1 + (idx + s) % 3)
                chunks.append((10 + s, data, pos[s] == counts[s]))
            # key reuse after completion: a second short image for stream 0
            chunks += [(10, b"\xaa", False), (10, b"\xbb", True)]
            with Sim() as sim:
                cli, dconn = session(sim)
                got: list[Any] = []
                cli.subscribe_states(got.append)
                msgs = [pb.CameraImageResponse(key=k, data=d, done=dn) for k, d, dn in chunks]
                if idx % 3 == 0 and len(msgs) > 2:
                    # the application talks to the device while images are in flight: the periodic keep-alive of a camera stream
                    # (request_image_stream), a snapshot request, a command, another subscription - the transfer simply continues
                    p = 1 + (idx // 3) % (len(msgs) - 1)
                    send_stream(sim, dconn, msgs[:p], [1] * p)
                    action = ("request_image_stream", "request_single_image", "switch_command", "subscribe_logs")[(idx // 3) % 4]
                    res.count(f"camera_client_action_mid_transfer/{action}")
                    if action == "switch_command":
                        cli.switch_command(5, True)
                    elif action == "subscribe_logs":
                        cli.subscribe_logs(lambda m: None)
                    else:
                        getattr(cli, action)()
                    sim.run_for(0.001)
                    send_stream(sim, dconn, msgs[p:], [len(msgs) - p] if idx % 2 else [1] * (len(msgs) - p))
                else:
                    send_stream(sim, dconn, msgs, [len(msgs)] if idx % 2 else [1] * len(msgs))
                res.evaluations += 1
                res.count("workload/camera-interleaving")
                res.count("camera_chunks_sent", len(chunks))
                exp = camera_model(chunks)
                g = [(x.key, bytes(x.data)) for x in got if type(x).__name__ == "CameraState"]
                res.sig("cam", tuple(counts), order)
                if g != exp:
                    res.violation("C17/camera/image-mismatch", f"interleaving {order} of {counts}: images {[(k, d.hex()) for k, d in g]}, model {[(k, d.hex()) for k, d in exp]}",
                                  {"kind": "camera", "counts": counts, "order": list(order)})
                else:
                    res.count("camera_images_compared", len(exp))


def other_subscriptions(ctx: Ctx) -> None:
    from aioesphomeapi import api_pb2 as pb
    from aioesphomeapi import model as M

    res = ctx.res
    rng = ctx.rng
    for rep in range(240 if ctx.thorough else 48):
        with Sim() as sim:
            cli, dconn = session(sim, outside_loop=rep % 4 == 1)
            log: list[tuple[str, Any]] = []
            cli.subscribe_logs(lambda m: log.append(("log", m)))
            cli.subscribe_service_calls(lambda m: log.append(("svc", m)))
            with_req = rep % 3 != 0   # the 'once' handler is optional: without it every message, once or not, belongs to the state handler
            if with_req:
                cli.subscribe_home_assistant_states(lambda e, a: log.append(("ha", (e, a))), lambda e, a: log.append(("ha_once", (e, a))))
            else:
                cli.subscribe_home_assistant_states(lambda e, a: log.append(("ha", (e, a))))
            un_adv = cli.subscribe_bluetooth_le_advertisements(lambda a: log.append(("adv", a)))
            un_free = cli.subscribe_bluetooth_connections_free(lambda f, l: log.append(("free", (f, l))))
            msgs: list[Any] = []
            exp: list[tuple[str, Any]] = []
            for k in range(rng.randint(5, 25)):
                r = rng.randrange(6)
                if r == 0:
                    m = pb.SubscribeLogsResponse(level=rng.randrange(8), message=bytes(rng.getrandbits(8) for _ in range(rng.randint(0, 30))), send_failed=bool(k % 2))
                    exp.append(("log", m))
                elif r == 1:
                    m = msggen.random_message(pb.HomeassistantServiceResponse, rng)
                    exp.append(("svc", m))
                elif r == 2:
                    m = pb.SubscribeHomeAssistantStateResponse(entity_id=f"sensor.e{k}", attribute=rng.choice(["", "attr"]), once=bool(rng.randrange(2)))
                    exp.append(("ha_once" if (m.once and with_req) else "ha", (m.entity_id, m.attribute)))
                elif r == 3:
                    # local names are raw bytes from the radio: shortened in the middle of a multi-byte character, Latin-1, NUL, empty, long
                    nm = rng.choice((b"n%d" % k, b"", b"K\xc3", b"Capteur \xe9t\xe9", "gerät".encode(), b"\xff\xfe\x00x", b"a\x00b", b"\xf0\x9f\x92", b"N" * 248))
                    res.count("adv_names/" + ("valid-utf8" if nm.decode("utf-8", "ignore").encode() == nm else "not-utf8"))
                    m = pb.BluetoothLEAdvertisementResponse(address=k, name=nm, rssi=-k, service_uuids=["0x180F"] if k % 3 else [])
                    exp.append(("adv", m))
                elif r == 4:
                    m = pb.BluetoothConnectionsFreeResponse(free=k, limit=k + 3)
                    exp.append(("free", (k, k + 3)))
                else:
                    m = pb.SensorStateResponse(key=k, state=1.0)   # not subscribed: no callback
                msgs.append(m)
                if rep % 3 == 2 and r != 5 and rng.random() < 0.6:
                    # the same message again (a beacon advertising unchanged data, a repeated log line, an event fired twice): delivered again
                    dup = type(m).FromString(m.SerializeToString())
                    msgs.append(dup)
                    exp.append((exp[-1][0], dup if exp[-1][0] in ("log", "svc", "adv") else exp[-1][1]))
                    res.count("workload/other-subscriptions/identical-message-repeated")
            send_stream(sim, dconn, msgs, [1] * len(msgs) if rep % 2 else [len(msgs)])
            res.evaluations += 1
            res.count("workload/other-subscriptions")
            res.sig("other", tuple(type(m).__name__ for m in msgs), rep % 2)
            case = {"kind": "other-subscriptions", "types": [type(m).__name__ for m in msgs]}
            if [k for k, _ in log] != [k for k, _ in exp]:
                res.violation("C17/other/callback-sequence", f"callbacks {[k for k, _ in log]}, expected {[k for k, _ in exp]}", case)
                continue
            for (k, g), (_, e) in zip(log, exp):
                res.count("other_callbacks_compared")
                ok = True
                if k == "log":
                    ok = type(g).__name__ == "SubscribeLogsResponse" and g == e
                elif k == "svc":
                    ok = (type(g) is M.HomeassistantServiceCall and g.service == e.service and g.is_event == e.is_event and
                          g.data == {x.key: x.value for x in e.data} and g.data_template == {x.key: x.value for x in e.data_template} and
                          g.variables == {x.key: x.value for x in e.variables})
                elif k == "adv":
                    ex = c14.adv_expected(e)
                    ok = all(c14.same(getattr(g, f), v) for f, v in ex.items())
                else:
                    ok = g == e
                if not ok:
                    res.violation(f"C17/other/{k}-value", f"{k} callback got {g!r:.100}, message was {str(e)!r:.100}", case)
                    break
            # unsubscribe stops deliveries at once; raw advertisements after unsubscribing parsed ones
            n0 = len(log)
            un_adv()
            un_free()
            raw: list[Any] = []
            un_raw = cli.subscribe_bluetooth_le_raw_advertisements(raw.append)
            dconn.send_msg(pb.BluetoothLEAdvertisementResponse(address=1))
            dconn.send_msg(pb.BluetoothConnectionsFreeResponse(free=1, limit=2))
            rawmsg = pb.BluetoothLERawAdvertisementsResponse(advertisements=[pb.BluetoothLERawAdvertisement(address=5, rssi=-3, data=b"\x01")])
            dconn.send_msg(rawmsg)
            sim.run_for(0.001)
            un_raw()
            dconn.send_msg(rawmsg)
            sim.run_for(0.001)
            res.count("unsubscribe_checks")
            if len(log) != n0:
                res.violation("C17/unsubscribe/still-delivered", f"after unsubscribing: {[k for k, _ in log[n0:]]} still delivered", case)
            if len(raw) != 1 or raw[0] != rawmsg:
                res.violation("C17/raw-advertisements", f"{len(raw)} raw advertisement callbacks, expected exactly 1 before its unsubscribe", case)
            sent_names = [r["name"] for r in dconn.received]
            if sent_names.count("UnsubscribeBluetoothLEAdvertisementsRequest") != 2:
                res.violation("C17/unsubscribe/no-unsubscribe-request", f"client wrote {sent_names[-6:]}", case)


def same_callable_twice(ctx: Ctx) -> None:
    """The application subscribes the SAME callable again (the only way to change the log level of subscribe_logs; two consumers sharing one
    advertisement handler): the handler is still invoked once per message, and one unsubscribe call removes it."""
    from aioesphomeapi import api_pb2 as pb

    res = ctx.res
    idx = 0
    for which in ("logs", "raw_advertisements"):
        for n_sub in (2, 3):
            for coalesce in (False, True):
                idx += 1
                if not ctx.mine(idx):
                    continue
                with Sim() as sim:
                    cli, dconn = session(sim)
                    got: list[Any] = []
                    handler = got.append
                    unsubs = []
                    for k in range(n_sub):
                        if which == "logs":
                            unsubs.append(cli.subscribe_logs(handler, log_level=(3, 5, 4)[k]))
                        else:
                            unsubs.append(cli.subscribe_bluetooth_le_raw_advertisements(handler))
                        sim.run_for(0.001)
                    if which == "logs":
                        msgs = [pb.SubscribeLogsResponse(level=3, message=b"line %d" % i) for i in range(5)]
                    else:
                        msgs = [pb.BluetoothLERawAdvertisementsResponse(advertisements=[pb.BluetoothLERawAdvertisement(address=i + 1, rssi=-i, data=b"x")]) for i in range(5)]
                    send_stream(sim, dconn, msgs, [len(msgs)] if coalesce else [1] * len(msgs))
                    res.evaluations += 1
                    res.count("workload/same-callable-subscribed-again")
                    res.sig("same-callable", which, n_sub, coalesce)
                    case = {"kind": "same-callable-twice", "subscription": which, "times": n_sub, "same_chunk": coalesce}
                    if len(got) != len(msgs):
                        res.violation("C17/other/handler-count-for-callable-subscribed-again", f"{which}: the same handler subscribed {n_sub}x; {len(msgs)} messages "
                                      f"produced {len(got)} handler calls", case, trace=sim.trace(30))


def unsubscribe_positions(ctx: Ctx) -> None:
    from aioesphomeapi import api_pb2 as pb

    res = ctx.res
    for pos in range(0, 7):
        for coalesce in (False, True):
            with Sim() as sim:
                cli, dconn = session(sim)
                got: list[Any] = []
                unsub = cli.subscribe_bluetooth_connections_free(lambda f, l: got.append(f))
                msgs = [pb.BluetoothConnectionsFreeResponse(free=i, limit=9) for i in range(6)]
                send_stream(sim, dconn, msgs[:pos], [pos] if coalesce and pos else [1] * pos)
                unsub()
                send_stream(sim, dconn, msgs[pos:], [6 - pos] if coalesce and pos < 6 else [1] * (6 - pos))
                res.evaluations += 1
                res.count("workload/unsubscribe-positions")
                res.sig("unsub-pos", pos, coalesce)
                if got != list(range(pos)):
                    res.violation("C17/unsubscribe/position", f"unsubscribed after {pos} of 6 messages: callbacks for {got}", {"kind": "unsub", "pos": pos})


def voice_assistant(ctx: Ctx) -> None:
    from aioesphomeapi import api_pb2 as pb

    res = ctx.res
    idx = 0
    for outcome in ("port", "none", "pending-then-unsub", "raises", "pending-then-port"):
        for with_audio in (True, False):
            for seq_kind in ("start", "start-stop", "start-audio-end", "announce", "two-starts", "announce-no-handler"):
                idx += 1
                if not ctx.mine(idx):
                    continue
                with_ann = seq_kind != "announce-no-handler"   # the announcement handler is optional too
                outside = idx % 3 == 0   # client object built before the loop that runs the session was current (sync set-up code)
                with Sim() as sim:
                    cli, dconn = session(sim, outside_loop=outside)
                    ev: list[tuple[str, Any]] = []
                    gates: list[Any] = []     # one per pending start handler (a handler task cancelled by the library takes only its own gate with it)

                    async def h_start(conv: str, flags: int, settings: Any, wake: Any) -> Any:
                        ev.append(("start", (conv, flags, wake)))
                        if outcome == "port":
                            return 5000 + len(ev)
                        if outcome == "none":
                            return None
                        if outcome == "raises":
                            raise ValueError("no server")
                        g_ = sim.loop.create_future()
                        gates.append(g_)
                        await g_
                        return 6000

                    async def h_stop(abort: bool) -> None:
                        ev.append(("stop", abort))

                    async def h_audio(data: bytes) -> None:
                        ev.append(("audio", data))

                    async def h_ann(fin: Any) -> None:
                        ev.append(("announce", fin.success))

                    kw: dict[str, Any] = {"handle_start": h_start, "handle_stop": h_stop}
                    if with_ann:
                        kw["handle_announcement_finished"] = h_ann
                    if with_audio:
                        kw["handle_audio"] = h_audio
                    unsub = cli.subscribe_voice_assistant(**kw)
                    sim.run_for(0.001)
                    n0 = len(dconn.received)
                    sub_req = [r["msg"] for r in dconn.received if r["name"] == "SubscribeVoiceAssistantRequest"]
                    msgs: list[Any] = []
                    if seq_kind in ("start", "start-stop", "start-audio-end", "two-starts"):
                        msgs.append(pb.VoiceAssistantRequest(start=True, conversation_id="c1", flags=3, wake_word_phrase="" if idx % 2 else "okay nabu"))
                    if seq_kind == "two-starts":
                        msgs.append(pb.VoiceAssistantRequest(start=True, conversation_id="c2"))
                    if seq_kind == "start-stop":
                        msgs.append(pb.VoiceAssistantRequest(start=False))
                    if seq_kind == "start-audio-end":
                        msgs += [pb.VoiceAssistantAudio(data=b"\x01\x02"), pb.VoiceAssistantAudio(data=b"\x03"), pb.VoiceAssistantAudio(end=True)]
                    if seq_kind in ("announce", "announce-no-handler"):
                        msgs.append(pb.VoiceAssistantAnnounceFinished(success=True))
                        msgs.append(pb.VoiceAssistantRequest(start=False))
                    send_stream(sim, dconn, msgs, [1] * len(msgs))
                    if outcome == "pending-then-unsub":
                        unsub()
                        sim.run_for(0.001)
                        for g_ in gates:
                            if not g_.done():
                                g_.set_result(None)   # the handler would now return a port: it must no longer be answered
                    elif outcome == "pending-then-port":
                        for g_ in gates:
                            if not g_.done():
                                g_.set_result(None)
                    sim.run_for(0.01)
                    replies = [r["msg"] for r in dconn.received[n0:] if r["name"] == "VoiceAssistantResponse"]
                    res.evaluations += 1
                    res.count("workload/voice-assistant")
                    res.sig("va", outcome, with_audio, seq_kind, outside)
                    case = {"kind": "voice-assistant", "handler_outcome": outcome, "with_audio": with_audio, "sequence": seq_kind,
                            "client_constructed_outside_loop": outside}
                    if outside:
                        res.count("sessions_with_client_constructed_outside_loop")
                        parked = sim.idle_loop_work()
                        if parked:
                            res.violation("C17/va/handler-parked-on-idle-loop", f"{len(parked)} callbacks scheduled on the loop that was current when the client "
                                          f"object was constructed, which never runs: {parked[:2]}", case)
                    n_start = sum(1 for m in msgs if type(m).__name__ == "VoiceAssistantRequest" and m.start)
                    # subscription request itself
                    if len(sub_req) != 1 or not sub_req[0].subscribe or bool(sub_req[0].flags & 4) != with_audio:
                        res.violation("C17/va/subscribe-request", f"SubscribeVoiceAssistantRequest {sub_req}", case)
                    starts = [e for e in ev if e[0] == "start"]
                    if len(starts) != n_start:
                        res.violation("C17/va/start-handler-count", f"{len(starts)} start handler calls for {n_start} start requests", case)
                    elif n_start and starts[0][1] != ("c1", 3, None if idx % 2 else "okay nabu"):
                        res.violation("C17/va/start-handler-args", f"start handler got {starts[0][1]}", case)
                    if outcome == "port":
                        ok = [r.port for r in replies] == [5000 + i for i, e in enumerate(ev, 1) if e[0] == "start"] and not any(r.error for r in replies)
                        if not ok:
                            res.violation("C17/va/port-reply", f"replies {[(r.port, r.error) for r in replies]} for {n_start} starts returning ports", case)
                    elif outcome == "none":
                        if [(r.port, r.error) for r in replies] != [(0, True)] * n_start:
                            res.violation("C17/va/error-reply", f"replies {[(r.port, r.error) for r in replies]}, expected {n_start} error responses", case)
                    elif outcome == "pending-then-unsub":
                        # (with two overlapping starts the library tracks - and cancels - only the newer handler; the older one completes and is
                        #  answered, which the statement asks for: judged for a single pending start only)
                        if replies and n_start == 1:
                            res.violation("C17/va/reply-after-unsubscribe", f"{len(replies)} VoiceAssistantResponse sent although the subscription was removed while the handler was pending", case)
                    elif outcome == "pending-then-port":
                        if [(r.port, r.error) for r in replies] != [(6000, False)] * n_start:
                            res.violation("C17/va/late-port-reply", f"replies {[(r.port, r.error) for r in replies]}", case)
                    else:
                        res.count("unjudged/va-start-handler-raises")
                    exp_rest: list[tuple[str, Any]] = []
                    for m in msgs:
                        t = type(m).__name__
                        if t == "VoiceAssistantRequest" and not m.start:
                            exp_rest.append(("stop", True))
                        elif t == "VoiceAssistantAudio" and with_audio:
                            exp_rest.append(("stop", False) if m.end else ("audio", m.data))
                        elif t == "VoiceAssistantAnnounceFinished" and with_ann:
                            exp_rest.append(("announce", m.success))
                    rest = [e for e in ev if e[0] != "start"]
                    if rest != exp_rest:
                        res.violation("C17/va/handler-sequence", f"handlers {rest}, expected {exp_rest}", case)
                    else:
                        res.count("va_handler_events_compared", len(rest))
                    # after unsubscribe nothing is delivered any more
                    if outcome != "pending-then-unsub":
                        unsub()
                    n_ev = len(ev)
                    dconn.send_msg(pb.VoiceAssistantRequest(start=False))
                    dconn.send_msg(pb.VoiceAssistantAudio(data=b"zz"))
                    dconn.send_msg(pb.VoiceAssistantAnnounceFinished(success=False))
                    sim.run_for(0.01)
                    if len(ev) != n_ev:
                        res.violation("C17/va/delivered-after-unsubscribe", f"{ev[n_ev:]} after unsub()", case)
                    unsubreq = [r["msg"] for r in dconn.received if r["name"] == "SubscribeVoiceAssistantRequest" and not r["msg"].subscribe]
                    if len(unsubreq) != 1:
                        res.violation("C17/va/unsubscribe-request", f"{len(unsubreq)} SubscribeVoiceAssistantRequest(subscribe=False) written", case)
                    for g_ in gates:
                        if not g_.done():
                            g_.cancel()


def unsubscribe_while_disconnecting(ctx: Ctx) -> None:
    """Integration unload order: `await client.disconnect()` is started, and while it is still waiting for the device's DisconnectResponse (the
    session is fully alive and the device keeps streaming) the application runs the unsubscribe functions it collected.  Each one stops its
    deliveries at once; subscriptions not yet unsubscribed keep receiving until the session ends."""
    from aioesphomeapi import api_pb2 as pb

    res = ctx.res
    kinds = ("adv", "raw", "free", "va", "states-kept")
    idx = 0
    for answer_after in (0.8, None):
        for unsub_at in (0.0, 0.1):
            for coalesce in (False, True):
                idx += 1
                if not ctx.mine(idx):
                    continue
                with Sim() as sim:
                    cfg = DeviceConfig()
                    if answer_after is None:
                        cfg.answer_disconnect = False
                    else:
                        cfg.handlers["DisconnectRequest"] = lambda c, m, d=answer_after: c.send("DisconnectResponse", _delay=d)
                    dev = sim.device(cfg)
                    cli = sim.client(keepalive=1e5)
                    c = sim.call("connect", lambda: cli.connect(login=False))
                    sim.run(until=lambda: c.done, max_time=sim.clock + 50)
                    dconn = dev.conn
                    log: list[tuple[str, float]] = []

                    async def h_start(conv: str, flags: int, settings: Any, wake: Any) -> Any:
                        log.append(("va", sim.clock))
                        return None

                    async def h_stop(abort: bool) -> None:
                        log.append(("va", sim.clock))

                    async def h_audio(data: bytes) -> None:
                        log.append(("va", sim.clock))

                    un = {"adv": cli.subscribe_bluetooth_le_advertisements(lambda a: log.append(("adv", sim.clock))),
                          "free": cli.subscribe_bluetooth_connections_free(lambda f, l: log.append(("free", sim.clock))),
                          "va": cli.subscribe_voice_assistant(handle_start=h_start, handle_stop=h_stop, handle_audio=h_audio)}
                    cli.subscribe_states(lambda st: log.append(("states-kept", sim.clock)))
                    if idx % 2:
                        # (parsed and raw advertisement subscriptions are alternatives on one session)
                        un["adv"]()
                        un["raw"] = cli.subscribe_bluetooth_le_raw_advertisements(lambda a: log.append(("raw", sim.clock)))
                        del un["adv"]
                    sim.run_for(0.01)

                    def burst() -> list[Any]:
                        return [pb.BluetoothLEAdvertisementResponse(address=3, name=b"n", rssi=-4),
                                pb.BluetoothLERawAdvertisementsResponse(advertisements=[pb.BluetoothLERawAdvertisement(address=5, rssi=-3, data=b"\x01")]),
                                pb.BluetoothConnectionsFreeResponse(free=1, limit=2),
                                pb.VoiceAssistantRequest(start=True, conversation_id="c", flags=0),
                                pb.VoiceAssistantAudio(data=b"\x00\x01", end=False),
                                pb.SensorStateResponse(key=1, state=2.0)]

                    send_stream(sim, dconn, burst(), [6] if coalesce else [1] * 6)
                    before = {k for k, _ in log}
                    t0 = sim.clock
                    d = sim.call("disconnect", lambda: cli.disconnect())
                    sim.run_for(unsub_at) if unsub_at else sim.small_step()
                    still_up = sim.conns[0].obj.connection_state.name == "CONNECTED"
                    raised: list[str] = []
                    t_unsub = sim.clock
                    for k, f in un.items():
                        try:
                            f()
                        except Exception as e:  # noqa: BLE001
                            raised.append(f"{k}: {e!r}")
                    n_at_unsub = len(log)
                    for _ in range(3):
                        send_stream(sim, dconn, burst(), [6] if coalesce else [1] * 6)
                        sim.run_for(0.05)
                    late = [(k, round(t - t0, 4)) for k, t in log[n_at_unsub:]]
                    sim.run(until=lambda: d.done, max_time=sim.clock + 30)
                    res.evaluations += 1
                    res.count("workload/unsubscribe-while-disconnecting")
                    res.sig("unsub-while-disconnecting", answer_after, unsub_at, coalesce, idx % 2)
                    case = {"kind": "unsubscribe-while-disconnecting", "disconnect_answered_after": answer_after, "unsubscribe_at": unsub_at, "coalesce": coalesce}
                    if sim.harness_errors:
                        res.inconclusive.append("C17 unsubscribe-while-disconnecting: " + sim.harness_errors[0][-300:])
                        continue
                    if not still_up:
                        res.count("workload/unsubscribe-while-disconnecting/session-already-over")
                        continue
                    missing_before = set(un) - before
                    if missing_before:
                        res.inconclusive.append(f"C17 unsubscribe-while-disconnecting: no delivery for {sorted(missing_before)} before the disconnect")
                        continue
                    if raised:
                        res.violation("C17/unsubscribe/raised", f"unsubscribe functions called while disconnect() was waiting for the device raised: {raised}", case)
                    bad = sorted({k for k, _ in late if k in un})
                    if bad:
                        res.violation("C17/unsubscribe/still-delivered", f"disconnect() pending (session still CONNECTED), unsubscribed at +{t_unsub - t0:.3f}s; deliveries "
                                      f"afterwards: {[x for x in late if x[0] in un][:6]}", case, trace=sim.trace(40))
                    if not any(k == "states-kept" for k, _ in late):
                        res.violation("C17/state/delivery-stopped-before-session-end", "the state subscription (never unsubscribed) got nothing more although the session was "
                                      "still up while disconnect() waited for the device", case, trace=sim.trace(40))


def camera_slow_images(ctx: Ctx) -> None:
    """An image whose chunks keep coming but take their time (a busy camera on a weak link): seconds to minutes between chunks, other keys' images and
    other state messages in between.  Time is not part of the reassembly rule: every completed image is the concatenation of its key's chunks since
    the previous completion."""
    from aioesphomeapi import api_pb2 as pb

    res = ctx.res
    idx = 0
    for gap in (0.4, 1.5, 6.0, 31.0, 400.0):
        for nchunks in (2, 5):
            for other_traffic in (False, True):
                idx += 1
                if not ctx.mine(idx):
                    continue
                with Sim() as sim:
                    cli, dconn = session(sim)
                    got: list[Any] = []
                    cli.subscribe_states(got.append)
                    sim.run_for(0.01)
                    exp: dict[int, bytes] = {1: b"", 2: b""}
                    order: list[tuple[int, bytes]] = []
                    for j in range(nchunks):
                        for key in (1, 2):
                            if key == 2 and j % 2:
                                continue       # key 2 gets every other chunk: its image spans the same time with fewer, larger pauses
                            data = bytes([key, j]) * (20 + j)
                            last = j == nchunks - 1 or (key == 2 and j == nchunks - 2 and nchunks % 2 == 0)
                            dconn.send_msg(pb.CameraImageResponse(key=key, data=data, done=last))
                            exp[key] += data
                            if last:
                                order.append((key, exp[key]))
                        if other_traffic:
                            dconn.send_msg(pb.SensorStateResponse(key=9, state=float(j)))
                        sim.run_for(gap)
                    sim.run_for(0.05)
                    frames = [(s_.key, bytes(s_.data)) for s_ in got if type(s_).__name__ == "CameraState"]
                    res.evaluations += 1
                    res.count("workload/camera-slow-images")
                    res.sig("camera-slow", gap, nchunks, other_traffic)
                    case = {"kind": "camera-slow-images", "seconds_between_chunks": gap, "chunks": nchunks, "other_traffic": other_traffic}
                    if sorted(frames) != sorted(order):
                        res.violation("C17/camera/image-mismatch", f"chunks {gap}s apart: delivered images {[(k, len(d)) for k, d in frames]}, the chunks sent make "
                                      f"{[(k, len(d)) for k, d in order]}", case, trace=sim.trace(30))


def camera_across_subscriptions(ctx: Ctx) -> None:
    """Reassembly state belongs to ONE subscription of ONE session: chunks left incomplete when a session ends must not leak into the images of the
    next session of the same client, and two subscribe_states() subscribers on one connection each get every complete image, unmixed."""
    from aioesphomeapi import api_pb2 as pb

    res = ctx.res
    idx = 0
    for ending in ("disconnect", "device-eof", "force"):
        for n_stale in (1, 3):
            for key_reuse in (True, False):
                idx += 1
                if not ctx.mine(idx):
                    continue
                with Sim() as sim:
                    dev = sim.device(DeviceConfig())
                    cli = sim.client(keepalive=1e5)
                    got: list[list[Any]] = [[], []]
                    for sess in (0, 1):
                        c = sim.call("connect", lambda: cli.connect(login=False))
                        sim.run(until=lambda: c.done, max_time=sim.clock + 50)
                        if c.outcome != "ok":
                            res.inconclusive.append(f"camera multi-session connect failed {c.exc!r}")
                            break
                        cli.subscribe_states(lambda st, sess=sess: got[sess].append(st))
                        sim.run_for(0.001)
                        dconn = dev.conn
                        if sess == 0:
                            msgs = [pb.CameraImageResponse(key=5, data=b"A1", done=False), pb.CameraImageResponse(key=5, data=b"A2", done=True)]
                            msgs += [pb.CameraImageResponse(key=5, data=b"OLD%d-" % j, done=False) for j in range(n_stale)]   # never completed
                            msgs += [pb.CameraImageResponse(key=6, data=b"other-", done=False)]
                            send_stream(sim, dconn, msgs, [len(msgs)])
                            if ending == "disconnect":
                                d = sim.call("disconnect", lambda: cli.disconnect())
                                sim.run(until=lambda: d.done, max_time=sim.clock + 20)
                            elif ending == "force":
                                d = sim.call("force", lambda: cli.disconnect(force=True))
                                sim.run(until=lambda: d.done, max_time=sim.clock + 20)
                            else:
                                dconn.eof(0.0)
                                sim.run_for(0.01)
                            sim.run_for(0.1)
                        else:
                            k = 5 if key_reuse else 7
                            msgs = [pb.CameraImageResponse(key=k, data=b"new1", done=False), pb.CameraImageResponse(key=k, data=b"new2", done=True),
                                    pb.CameraImageResponse(key=6, data=b"six", done=True)]
                            send_stream(sim, dconn, msgs, [1, 1, 1])
                            sim.run_for(0.01)
                    res.evaluations += 1
                    res.count("workload/camera-across-sessions")
                    res.sig("camera-sessions", ending, n_stale, key_reuse)
                    case = {"kind": "camera-across-sessions", "ending": ending, "stale_chunks": n_stale, "same_key": key_reuse}
                    first = [(type(x).__name__, x.key, bytes(x.data)) for x in got[0]]
                    second = [(type(x).__name__, x.key, bytes(x.data)) for x in got[1]]
                    if first != [("CameraState", 5, b"A1A2")]:
                        res.violation("C17/camera/image-mismatch", f"session 1 subscriber got {first}", case)
                    exp2 = [("CameraState", 5 if key_reuse else 7, b"new1new2"), ("CameraState", 6, b"six")]
                    if second != exp2:
                        res.violation("C17/camera/stale-chunks-from-earlier-session", f"session 2 subscriber got {second}, expected {exp2} (session 1 left {n_stale} incomplete chunks for key 5 "
                                      "and one for key 6)", case, trace=sim.trace(40))
    # two subscribers on one connection
    idx += 1
    if ctx.mine(idx):
        with Sim() as sim:
            cli, dconn = session(sim)
            a: list[Any] = []
            b: list[Any] = []
            cli.subscribe_states(a.append)
            sim.run_for(0.001)
            send_stream(sim, dconn, [pb.CameraImageResponse(key=1, data=b"a1", done=False)], [1])
            cli.subscribe_states(b.append)       # joins in the middle of an image
            sim.run_for(0.001)
            send_stream(sim, dconn, [pb.CameraImageResponse(key=1, data=b"a2", done=True), pb.CameraImageResponse(key=1, data=b"b1", done=False),
                                     pb.CameraImageResponse(key=1, data=b"b2", done=True)], [1, 2])
            res.evaluations += 1
            res.count("workload/camera-two-subscribers")
            res.sig("camera-two-subscribers")
            ga = [bytes(x.data) for x in a]
            gb = [bytes(x.data) for x in b]
            if ga != [b"a1a2", b"b1b2"] or gb != [b"a2", b"b1b2"]:
                res.violation("C17/camera/subscribers-share-buffer", f"first subscriber got {ga} (expected [a1a2, b1b2]), second (joined after chunk a1) got {gb} (expected [a2, b1b2])",
                              {"kind": "camera-two-subscribers"}, trace=sim.trace(40))


def unsubscribe_inside_callback(ctx: Ctx) -> None:
    """One-shot subscriptions: the unsubscribe function is called from INSIDE the subscription's own callback (as the only subscriber of that
    type and next to a second one). It must take effect from the next message on and disturb nothing else."""
    from aioesphomeapi import api_pb2 as pb

    res = ctx.res
    idx = 0
    for which in ("connections_free", "le_advertisements", "raw_advertisements"):
        for second_subscriber in (False, True):
            for same_chunk in (False, True):
                idx += 1
                if not ctx.mine(idx):
                    continue
                with Sim() as sim:
                    cli, dconn = session(sim)
                    states: list[Any] = []
                    cli.subscribe_states(states.append)
                    got: list[Any] = []
                    other: list[Any] = []
                    holder: dict[str, Any] = {}

                    def one_shot(*a: Any) -> None:
                        got.append(a)
                        holder["unsub"]()

                    if which == "connections_free":
                        holder["unsub"] = cli.subscribe_bluetooth_connections_free(one_shot)
                        if second_subscriber:
                            cli.subscribe_bluetooth_connections_free(lambda *a: other.append(a))
                        mk = lambda k: pb.BluetoothConnectionsFreeResponse(free=k, limit=9)  # noqa: E731
                    elif which == "le_advertisements":
                        holder["unsub"] = cli.subscribe_bluetooth_le_advertisements(one_shot)
                        if second_subscriber:
                            cli.subscribe_bluetooth_le_advertisements(lambda *a: other.append(a))
                        mk = lambda k: pb.BluetoothLEAdvertisementResponse(address=k, name=b"n", rssi=-k)  # noqa: E731
                    else:
                        holder["unsub"] = cli.subscribe_bluetooth_le_raw_advertisements(one_shot)
                        if second_subscriber:
                            cli.subscribe_bluetooth_le_raw_advertisements(lambda *a: other.append(a))
                        mk = lambda k: pb.BluetoothLERawAdvertisementsResponse(advertisements=[pb.BluetoothLERawAdvertisement(address=k, rssi=-1, data=b"x")])  # noqa: E731
                    sim.run_for(0.001)
                    msgs = [mk(1), pb.SensorStateResponse(key=1, state=1.0), mk(2), pb.SensorStateResponse(key=2, state=2.0), mk(3), pb.SensorStateResponse(key=3, state=3.0)]
                    send_stream(sim, dconn, msgs, [len(msgs)] if same_chunk else [1] * len(msgs))
                    sim.run_for(0.01)
                    conn_state = sim.conns[0].obj.connection_state.name
                    res.evaluations += 1
                    res.count("workload/unsubscribe-inside-callback")
                    res.sig("unsub-inside", which, second_subscriber, same_chunk)
                    case = {"kind": "unsubscribe-inside-callback", "subscription": which, "second_subscriber": second_subscriber, "same_chunk": same_chunk}
                    if len(got) != 1:
                        res.violation("C17/unsubscribe/inside-callback", f"one-shot {which} callback invoked {len(got)}x for 3 messages (it unsubscribes itself in the first)", case, trace=sim.trace(30))
                    if second_subscriber and len(other) != 3:
                        res.violation("C17/unsubscribe/inside-callback-disturbed-peer", f"the other {which} subscriber got {len(other)} of 3 messages", case, trace=sim.trace(30))
                    # the unsubscribe function called once more, later: harmless for everybody else
                    try:
                        holder["unsub"]()
                        second_error = None
                    except Exception as e:  # noqa: BLE001
                        second_error = e
                    n_other = len(other)
                    send_stream(sim, dconn, [mk(4), pb.SensorStateResponse(key=4, state=4.0)], [2] if same_chunk else [1, 1])
                    sim.run_for(0.01)
                    if second_error is not None or len(got) != 1 or (second_subscriber and len(other) != n_other + 1) or not states or states[-1].key != 4:
                        res.violation("C17/unsubscribe/called-twice", f"second call of the {which} unsubscribe function: raised {second_error!r}; one-shot calls {len(got)}, "
                                      f"other subscriber +{len(other) - n_other} of 1, last state key {states[-1].key if states else None}", case, trace=sim.trace(30))
                    states = states[:3]
                    if [s_.key for s_ in states] != [1, 2, 3] or conn_state != "CONNECTED":
                        res.violation("C17/unsubscribe/inside-callback-disturbed-others", f"state subscriber got keys {[s_.key for s_ in states]} of [1, 2, 3]; connection {conn_state}",
                                      case, trace=sim.trace(30))


def shard(ctx: Ctx) -> None:
    from vf.sim import device as _device_fw  # noqa: PLC0415

    _device_fw.ROTATE_FIRMWARE = True    # the firmware flavour of default devices rotates (hello without a name, API 1.2 / 1.8 / 1.12, deep sleep)
    from vf.sim import device as _device

    _device.AUTO_ROTATE = True   # chunking of the device's stream rotates: as written / replies coalesced / cut into 1..8-byte pieces
    unsubscribe_inside_callback(ctx)
    same_callable_twice(ctx)
    camera_across_subscriptions(ctx)
    state_streams(ctx)
    camera_interleavings(ctx)
    voice_assistant(ctx)
    if ctx.shard in (0, 1):
        other_subscriptions(ctx)
    if ctx.shard == 2:
        unsubscribe_positions(ctx)
    unsubscribe_while_disconnecting(ctx)
    camera_slow_images(ctx)
    if ctx.shard == 3:
        from vf import protoparse

        pr = protoparse.load_api()
        text_states = {m.name for m in pr.messages.values() if m.id is not None and m.source == "SOURCE_SERVER" and m.field_by_name("key") is not None
                       and (m.name.endswith("StateResponse") or m.name == "EventResponse")}
        ctx.res.notes["state_message_table_vs_api_proto"] = {"only_in_table": sorted(set(STATE_MODELS) - text_states),
                                                             "only_in_api_proto": sorted(text_states - set(STATE_MODELS))}


def replay(spec: dict[str, Any]) -> int:
    print("C17 replay:", spec.get("key"), spec.get("what"))
    print(spec.get("case"))
    return 0

"""C19 — the client never wedges and refuses work unless a session is alive (engine S + a small call-boundary model).

Multi-session histories on ONE APIClient object.  Every invocation of APIClient.start_connection / finish_connection /
disconnect is logged at the class boundary (enter / return, with sequence numbers), the connection-level on_stop monitor
gives the instant a session ended, and the model is evaluated offline over that event log.
"""

from __future__ import annotations

import inspect
import itertools
from typing import Any

from vf.common import Ctx
from vf.sim import apisweep, clientlog
from vf.sim.device import DeviceConfig
from vf.sim.scenario import Sim

LEVEL = "exploration"
RULE = ("histories of 1-30 steps on one APIClient over several consecutive sessions from {start_connection, finish_connection, connect (awaited / left pending / "
        "1 ms later) against a device that is ok | unresolvable | refusing | hanging at TCP | sending garbage at hello | rejecting the password | silent (client configured with password 'pw' | none | empty | other); "
        "disconnect() (awaited or left pending, the device acknowledging it or not), disconnect(force=True), cancel of the pending call (connect phase or disconnect), device EOF / RST / DisconnectRequest / garbage, a request whose answer shares one chunk with a DisconnectRequest / garbage, "
        "a stop callback that reconnects at once from inside the callback, disconnect() and connect() back to back in one coroutine, a request whose "
        "failure handler reconnects at once, a public API method (rotating over every recipe of the API sweep: commands, "
        "subscriptions, requests), advance 1 ms / 1 s / 100 s}; ALL histories up to length 3 (quick) / 4 (thorough) over a "
        "12-symbol alphabet followed by a start probe, plus seeded random histories. Model over the class-boundary event log: attempt = a start/finish call is "
        "in progress, or start succeeded and neither finish nor disconnect was called since; alive = finish succeeded on a session whose login the device did not reject, and neither the connection's stop hook "
        "nor a returned disconnect since. Oracle: start_connection refuses with 'Already connected' ONLY IF attempt or alive (never wedged), and MUST refuse "
        "while a session is alive or an un-closed attempt is in progress; every API call made while not alive raises APIConnectionError synchronously and "
        "neither a send_messages call nor a transport write happens inside it. Non-trivial = at least one start was judged after an earlier step; "
        "distinct = (history, outcomes)")
ASSUMPTIONS = [
    "calling finish_connection without a preceding successful start_connection (or after disconnect()) is API misuse: never driven",
    "while an attempt is in progress at the call boundary but its connection object has already been closed (disconnect / force / cancel / fatal error took "
    "effect, the call has not returned yet) either answer of start_connection is accepted",
    "engine S doubles as in C05",
]
BUDGET_S = {"quick": 300, "thorough": 3000}
MIN_EVALS = {"quick": 2500, "thorough": 30000}

WORLDS = ("ok", "dns-fail", "refuse", "tcp-hang", "garbage", "badauth", "silent", "bye-with-last-answer", "accept-then-reset")


def apply_world(sim: Sim, cfg: DeviceConfig, world: str) -> None:
    import socket

    sim.net.dns.clear()
    cfg.invalid_password = world == "badauth"
    cfg.answer_hello = world != "silent"
    cfg.hello_extra = None
    cfg.handlers.pop("ConnectRequest", None)
    cfg.coalesce_replies = False
    if world == "garbage":
        cfg.hello_extra = lambda c: c.send_raw(b"\x42\x42\x42\x42")
    if world == "bye-with-last-answer":
        # a device about to reboot / go to deep sleep: it answers the login and says goodbye in ONE write (the answer that completes the connect
        # phase and a DisconnectRequest reach the client in the same chunk); without a login request the goodbye rides on the hello answer
        cfg.coalesce_replies = True

        def bye_after_connect(c: Any, m: Any) -> None:
            c.send("ConnectResponse", invalid_password=False)
            c.send("DisconnectRequest")

        cfg.handlers["ConnectRequest"] = bye_after_connect
    if world == "dns-fail":
        sim.net.dns["*"] = socket.gaierror(socket.EAI_NONAME, "Name or service not known")
    sim.world = world  # type: ignore[attr-defined]


def run_history(hist: list[Any]) -> dict[str, Any]:
    """hist = list of steps; see gen_history()."""
    from aioesphomeapi.core import APIConnectionError

    R = apisweep.recipes()
    names = sorted(R)
    probes: list[dict[str, Any]] = []
    out: dict[str, Any] = {}
    with Sim() as sim, clientlog.Recording(sim) as log:
        if True:
            cfg = DeviceConfig(reply_delay=0.01)
            dev = sim.device(cfg, addresses=("10.0.0.1",), delay=0.001)
            base_policy = sim.net.connect_policy

            def policy(sock: Any, addr: Any) -> tuple[Any, ...]:
                w = getattr(sim, "world", "ok")
                if w == "refuse" or addr[0] == "10.0.0.7":
                    return ("refuse", 0.001)
                if w == "tcp-hang":
                    return ("hang",)
                if w == "accept-then-reset":
                    # the device accepts and aborts at once: the RST is in the kernel before the connecting task resumes
                    return ("ok-then-rst", 0.001, dev)
                return base_policy(sock, addr)

            sim.net.connect_policy = policy
            # the host name must go through the resolver so that 'dns-fail' bites; mDNS is not involved for an FQDN
            sim.net.dns["dev.example.com"] = ["10.0.0.1"]
            # optional first step ["cfg", {...}]: how the client object is configured (password None / "" / "pw")
            ccfg = hist[0][1] if hist and hist[0][0] == "cfg" else {}
            extra_kw: dict[str, Any] = {}
            if ccfg.get("addresses") in ("tuple", "list"):
                # two configured addresses, the first one never answers (refused): as a list, or as a tuple - both are sequences of addresses
                seq_ = ["10.0.0.7", "10.0.0.1"] if ccfg.get("password") != "other" else ["10.0.0.7", "dev.example.com"]
                extra_kw["addresses"] = tuple(seq_) if ccfg["addresses"] == "tuple" else seq_
            if "debug" in ccfg:
                extra_kw["debug"] = bool(ccfg["debug"])
            if ccfg.get("built"):
                # where the client object was built: "outside-loop" = synchronous set-up code before the loop runs; "closed-loop" = inside an
                # earlier asyncio.run() of the process whose loop is closed by now
                extra_kw["outside_loop"] = True if ccfg["built"] == "outside-loop" else "closed-loop"
            cli = sim.client("dev.example.com", 6053, ccfg.get("password", "pw"), **extra_kw)
            apply_world(sim, cfg, "ok")
            sim.net.dns["dev.example.com"] = ["10.0.0.1"]
            calls: list[Any] = []
            events: list[Any] = []
            armed = {"n": 0}

            def mk_on_stop() -> Any:
                base = sim.on_stop_cb()

                async def on_stop(expected: bool) -> None:
                    await base(expected)
                    if armed["n"] > 0:
                        # the application reconnects from inside its stop callback, at once (what a reconnect manager does after an
                        # unexpected disconnect): the session is over, no attempt is in progress - this must be accepted
                        armed["n"] -= 1
                        apply_world(sim, cfg, "ok")
                        sim.net.dns["dev.example.com"] = ["10.0.0.1"]
                        try:
                            await cli.start_connection(on_stop=mk_on_stop())
                        except BaseException:  # noqa: BLE001  (outcome is in the boundary log)
                            pass

                return on_stop

            def rec_cb(*a: Any) -> None:
                events.append(a)

            def wait(rec: Any, how: str) -> None:
                if how == "done":
                    sim.run(until=lambda: rec.done, max_time=sim.clock + 150)
                elif how == "ms":
                    sim.run_for(0.001)
                else:
                    sim.settle()

            def do_probe(k: int) -> None:
                name = names[k % len(names)]
                n_w = sum(len(t.sim_writes) for t in sim.transports)
                n_b = len(sim.send_batches) + len(sim.send_stack)
                seq = sim.next_seq()
                p: dict[str, Any] = {"seq": seq, "t": sim.clock, "name": name, "raised": None, "suspended": False}
                try:
                    r = R[name](cli, sim, rec_cb)
                    if inspect.iscoroutine(r):
                        try:
                            r.send(None)
                            p["suspended"] = True
                        except StopIteration:
                            pass
                        finally:
                            r.close()
                except APIConnectionError as e:
                    p["raised"] = e
                except BaseException as e:  # noqa: BLE001
                    p["raised"] = e
                p["writes"] = sum(len(t.sim_writes) for t in sim.transports) - n_w
                p["sends"] = len(sim.send_batches) + len(sim.send_stack) - n_b
                p["seq_end"] = sim.next_seq()
                probes.append(p)

            skipped = 0
            for step in hist:
                op = step[0]
                if op == "cfg":
                    continue
                if op in ("start", "connect"):
                    apply_world(sim, cfg, step[1])
                    if step[1] != "dns-fail":
                        sim.net.dns["dev.example.com"] = ["10.0.0.1"]
                    if op == "start":
                        r = sim.call("start", lambda: cli.start_connection(on_stop=mk_on_stop()))
                    else:
                        r = sim.call("connect", lambda: cli.connect(on_stop=mk_on_stop(), login=True))
                    calls.append(r)
                    wait(r, step[2])
                elif op == "finish":
                    # misuse guard (driver-side): only after a start that returned ok with no finish/disconnect issued since
                    ok = False
                    state = "none"
                    for e in log:
                        if e[2] == "ret" and e[3] == "start_connection":
                            state = "opened" if e[5] == "ok" else "none"
                        elif e[2] == "enter" and e[3] in ("finish_connection", "disconnect"):
                            state = "none"
                    ok = state == "opened" and not any(not c.done for c in calls if c.name in ("start", "connect"))
                    if not ok:
                        skipped += 1
                        continue
                    r = sim.call("finish", lambda: cli.finish_connection(login=True))
                    calls.append(r)
                    wait(r, step[1])
                elif op == "disconnect":
                    r = sim.call("disconnect", lambda: cli.disconnect())
                    calls.append(r)
                    wait(r, step[1])
                elif op == "force":
                    r = sim.call("force", lambda: cli.disconnect(force=True))
                    calls.append(r)
                    wait(r, "none")
                elif op == "cancel":
                    pend = [c for c in calls if not c.done and c.name in ("start", "finish", "connect", "disconnect")]
                    if pend:
                        sim.cancel(pend[-1])
                        sim.settle()
                    else:
                        skipped += 1
                elif op == "disconnect+connect":
                    # one application coroutine: `await client.disconnect(...)` immediately followed by `await client.connect()` - no loop
                    # iteration in between (anything the library deferred from the old session must not hit the new one)
                    force = bool(step[1])
                    apply_world(sim, cfg, "ok")
                    sim.net.dns["dev.example.com"] = ["10.0.0.1"]

                    async def back_to_back(force: bool = force) -> None:
                        await cli.disconnect(force=force)
                        await cli.connect(on_stop=mk_on_stop(), login=True)

                    r = sim.call("connect", back_to_back)
                    calls.append(r)
                    wait(r, "done")
                elif op == "request-then-reconnect-on-error":
                    # a request is in flight when the device drops the link; the waiter's `except APIConnectionError` handler reconnects at once
                    conn_now = cli._connection  # noqa: SLF001
                    live = [c for c in dev.conns if not c.sock.closed]
                    if conn_now is None or not conn_now.is_connected or not live:
                        skipped += 1
                        continue
                    cfg.handlers["DeviceInfoRequest"] = lambda dc, m: dc.eof(0.0)
                    apply_world(sim, cfg, "ok")
                    sim.net.dns["dev.example.com"] = ["10.0.0.1"]

                    async def req_then_reconnect() -> None:
                        try:
                            await cli.device_info()
                        except APIConnectionError:
                            await cli.start_connection(on_stop=mk_on_stop())

                    r = sim.call("start", req_then_reconnect)
                    calls.append(r)
                    wait(r, "done")
                    cfg.handlers.pop("DeviceInfoRequest", None)
                elif op == "stall":
                    # the device stops reading while the application has a lot to send: the transport passes its high-water mark (pause_writing)
                    live = [c for c in dev.conns if not c.sock.closed]
                    conn_now = cli._connection  # noqa: SLF001
                    if not live or conn_now is None or not conn_now.is_connected:
                        skipped += 1
                        continue
                    live[-1].sock.send_fault = "block"
                    try:
                        for _ in range(int(step[1]) if len(step) > 1 else 200):
                            cli.send_voice_assistant_audio(b"\x00" * 1024)
                    except Exception:  # noqa: BLE001  (a refusal to queue more is the library's choice)
                        pass
                    sim.run_for(0.001)
                elif op == "arm-reconnect":
                    armed["n"] += 1
                elif op == "disc-answer":
                    cfg.answer_disconnect = bool(step[1])   # False: the device never acknowledges a DisconnectRequest (disconnect() waits, can be cancelled)
                elif op == "dev":
                    live = [c for c in dev.conns if not c.sock.closed]
                    if not live:
                        skipped += 1
                        continue
                    c = live[-1]
                    kind = step[1]
                    if kind.startswith("resp+"):
                        # a request is in flight and the device puts its answer and a closing event into ONE chunk
                        conn_now = cli._connection  # noqa: SLF001
                        if conn_now is None or not conn_now.is_connected:
                            skipped += 1
                            continue
                        from aioesphomeapi import api_pb2 as _pb  # noqa: PLC0415

                        def answer(dc: Any, m: Any, kind: str = kind) -> None:
                            items = [("msg", dc.proto.id_of("DeviceInfoResponse"), _pb.DeviceInfoResponse(name="dev").SerializeToString())]
                            if kind == "resp+discreq":
                                items.append(("msg", dc.proto.id_of("DisconnectRequest"), b""))
                            else:
                                items.append(("raw", b"\x42\x13\x37"))
                            dc.deliver_items(items, 0.0)
                            cfg.handlers.pop("DeviceInfoRequest", None)

                        cfg.handlers["DeviceInfoRequest"] = answer
                        r = sim.call("device_info", lambda: cli.device_info())
                        calls.append(r)
                        sim.run_for(0.05)
                        cfg.handlers.pop("DeviceInfoRequest", None)
                        continue
                    if kind == "eof":
                        c.eof(0.0)
                    elif kind == "rst":
                        c.rst(0.0)
                    elif kind == "discreq":
                        c.send("DisconnectRequest", _delay=0.0)
                    else:
                        c.send_raw(b"\x42\x42\x42", 0.0)
                    sim.run_for(0.001)
                elif op == "api":
                    do_probe(step[1])
                    sim.settle()
                elif op == "connect+api":
                    # the usual application code: `await client.connect(...)` and then, in the same step of the same task - before the loop runs
                    # anything else - the first API calls
                    apply_world(sim, cfg, step[1])
                    sim.net.dns["dev.example.com"] = ["10.0.0.1"]

                    async def app(k0: int = step[2], n: int = step[3]) -> None:
                        try:
                            await cli.connect(on_stop=mk_on_stop(), login=True)
                        except BaseException:  # noqa: BLE001   (its outcome is in the boundary log)
                            pass
                        for j in range(n):
                            do_probe(k0 + j)

                    r = sim.call("app", app)
                    sim.run(until=lambda: r.done, max_time=sim.clock + 150)
                    sim.settle()
                elif op == "run":
                    sim.run_for(step[1])
                else:
                    raise ValueError(step)
            # let everything pending finish (every documented timeout is < 150 s), then the final probe
            sim.run(until=lambda: all(c.done for c in calls), max_time=sim.clock + 200)
            sim.settle()
            apply_world(sim, cfg, "ok")
            sim.net.dns["dev.example.com"] = ["10.0.0.1"]
            fin = sim.call("start", lambda: cli.start_connection(on_stop=sim.on_stop_cb()))
            calls.append(fin)
            sim.run(until=lambda: fin.done, max_time=sim.clock + 150)
            out.update({
                "log": list(log), "probes": probes, "calls": calls, "skipped": skipped, "login_rejections": list(dev.login_rejections),
                "stops": sorted((s[0], v.idx, s[2]) for v in sim.conns for s in v.on_stop),
                "closed": {v.idx: v.closed_seq for v in sim.conns}, "created": [(v.created_seq, v.idx) for v in sim.conns],
                "graceful": sorted((g[0], v.idx, g[1]) for v in sim.conns for g in v.graceful),
                "harness_errors": list(sim.harness_errors), "trace": sim.trace(150), "n_conns": len(sim.conns),
                "dev_rx": sum(len(c.received) for c in dev.conns), "final_cli_connection": repr(getattr(cli, "_connection", "n/a"))[:80],
            })
            if cli._connection is not None:  # noqa: SLF001
                d = sim.call("bye", lambda: cli.disconnect(force=True))
                sim.run(until=lambda: d.done, max_time=sim.clock + 5)
    return out


def judge(hist: list[Any], o: dict[str, Any]) -> tuple[list[tuple[str, str]], dict[str, int]]:
    from aioesphomeapi.core import APIConnectionError

    out: list[tuple[str, str]] = []
    stats = {"starts_judged": 0, "must_accept": 0, "must_refuse": 0, "either": 0, "api_judged": 0, "api_alive": 0}
    # merged, seq-ordered event stream
    evs: list[tuple[int, str, Any]] = []
    for e in o["log"]:
        evs.append((e[0], e[2] + ":" + e[3], e))
    for seq, idx, arg in o["stops"]:
        evs.append((seq, "on_stop", idx))
    for idx, seq in o["closed"].items():
        if seq is not None:
            evs.append((seq, "closed", idx))
    for seq, idx in o["created"]:
        evs.append((seq, "conn_new", idx))
    for p in o["probes"]:
        evs.append((p["seq"], "api", p))
    for seq in o.get("login_rejections", []):
        evs.append((seq, "login_rejected", None))
    evs.sort(key=lambda x: x[0])
    rejected = False
    forced: dict[int, bool] = {}
    sf_pending: dict[int, dict[str, Any]] = {}   # token -> {"conn": idx|None}
    opened = False
    alive = False
    cur_conn: int | None = None         # connection object of the attempt/session in progress
    conn_closed: set[int] = set()
    verdict_at_enter: dict[int, str] = {}
    last_reason = ""
    for seq, kind, e in evs:
        if kind == "conn_new":
            cur_conn = e
        elif kind == "closed":
            conn_closed.add(e)
            if alive and e == cur_conn:
                # the session is over the moment its connection is CLOSED - whether or not the stop hook (which is what clears the
                # client's reference) ever fires
                alive = False
                last_reason = "after the session's connection was closed"
        elif kind == "on_stop":
            if alive:
                last_reason = "after the session ended (stop hook)"
            alive = False
        elif kind == "enter:start_connection":
            attempt = bool(sf_pending) or opened
            if not attempt and not alive:
                verdict_at_enter[e[4]] = "must_accept"
            elif alive and cur_conn not in conn_closed:
                verdict_at_enter[e[4]] = "must_refuse"
            elif opened and cur_conn not in conn_closed:
                verdict_at_enter[e[4]] = "must_refuse"
            elif sf_pending and cur_conn is not None and cur_conn not in conn_closed and not any(v.get("dying") for v in sf_pending.values()):
                verdict_at_enter[e[4]] = "must_refuse"
            else:
                verdict_at_enter[e[4]] = "either"
            verdict_at_enter[-e[4] - 1] = last_reason  # type: ignore[assignment]
            sf_pending[e[4]] = {"kind": "start"}
        elif kind == "ret:start_connection":
            v = verdict_at_enter.get(e[4])
            refused = e[5] == "raised" and isinstance(e[6], APIConnectionError) and "lready connected" in str(e[6])
            sf_pending.pop(e[4], None)
            stats["starts_judged"] += 1
            stats[v or "either"] += 1
            why = verdict_at_enter.get(-e[4] - 1) or ""
            if v == "must_accept" and refused:
                out.append(("C19/wedged" + ("/" + why.split(" (")[0].replace(" ", "-") if why else ""),
                            f"start_connection at seq {seq} refused with {e[6]!r} although no attempt was in progress and no session alive ({why})"))
            elif v == "must_refuse" and not refused:
                out.append(("C19/second-attempt-accepted", f"start_connection at seq {seq} was accepted ({e[5]} {e[6]!r}) while an attempt was in progress or a session alive"))
            if not refused:
                if e[5] == "ok":
                    opened = True
                    last_reason = ""
                else:
                    last_reason = f"after a failed start ({type(e[6]).__name__})"
                    if not isinstance(e[6], APIConnectionError):
                        out.append((f"C19/raw-exception/{type(e[6]).__name__}", f"start_connection raised {e[6]!r}"))
        elif kind == "login_rejected":
            rejected = True     # the device flagged the password invalid: whatever the client makes of it, this session is not authenticated
        elif kind == "enter:finish_connection":
            opened = False
            rejected = False
            sf_pending[e[4]] = {"kind": "finish"}
        elif kind == "ret:finish_connection":
            sf_pending.pop(e[4], None)
            if e[5] == "ok" and rejected:
                stats["finish_ok_after_rejected_login"] = stats.get("finish_ok_after_rejected_login", 0) + 1
                last_reason = "after the device rejected the login"
            elif e[5] == "ok" and cur_conn in conn_closed:
                # the connection had already closed (the device said goodbye in the chunk that completed the phase) when finish_connection
                # returned "success": no session came alive, whatever the call said
                stats["finish_ok_on_a_connection_already_closed"] = stats.get("finish_ok_on_a_connection_already_closed", 0) + 1
                last_reason = "after the device ended the session in the chunk that completed the connect phase"
            elif e[5] == "ok":
                alive = True
                last_reason = ""
            else:
                last_reason = f"after a failed finish ({type(e[6]).__name__})"
        elif kind == "enter:disconnect":
            forced[e[4]] = bool(e[6].get("force") if len(e) > 6 and isinstance(e[6], dict) else False) or bool(len(e) > 5 and e[5] and e[5][0])
            if opened:
                last_reason = "after disconnect() between the two connect phases"
            elif sf_pending:
                last_reason = "after disconnect() during a pending " + "/".join(sorted({v["kind"] for v in sf_pending.values()}))
            opened = False
            for v in sf_pending.values():
                v["dying"] = True
        elif kind == "ret:disconnect":
            import asyncio as _asyncio  # noqa: PLC0415

            if e[5] == "raised" and not isinstance(e[6], (APIConnectionError, _asyncio.CancelledError)):
                out.append((f"C19/raw-exception/disconnect/{type(e[6]).__name__}", f"disconnect({'force=True' if forced.get(e[4]) else ''}) raised {e[6]!r}"))
            if e[5] == "ok" or (forced.get(e[4]) and not isinstance(e[6], _asyncio.CancelledError)):
                # (a graceful disconnect() that was cancelled or failed has not ended the session; a forced one ends it whatever happens inside)
                if alive:
                    last_reason = "after disconnect() of a live session"
                alive = False
        elif kind == "api":
            p = e
            if alive and cur_conn not in conn_closed:
                stats["api_alive"] += 1
                continue
            if alive:
                continue
            stats["api_judged"] += 1
            if p["raised"] is None:
                out.append(("C19/api-call-accepted-while-not-alive",
                            f"{p['name']} did not raise while no authenticated session was alive (suspended={p['suspended']}, sends={p['sends']}, writes={p['writes']})"))
            elif not isinstance(p["raised"], APIConnectionError):
                out.append((f"C19/api-call-raw-exception/{type(p['raised']).__name__}", f"{p['name']} raised {p['raised']!r} while no session was alive"))
            if p["writes"] or p["sends"]:
                out.append(("C19/write-while-not-alive", f"{p['name']} caused {p['sends']} send_messages / {p['writes']} transport writes while no session was alive"))
    # cancel of a pending call marks it dying (harness-side knowledge, applied conservatively: any history with a cancel step)
    return out, stats


# ---------------------------------------------------------------- generators
ALPHABET: list[Any] = [
    ["start", "ok", "done"], ["start", "ok", "none"], ["start", "refuse", "done"], ["finish", "done"], ["finish", "none"],
    ["disconnect", "done"], ["force"], ["cancel"], ["dev", "eof"], ["api", 0], ["run", 0.001], ["connect", "ok", "done"],
    ["arm-reconnect"], ["dev", "resp+discreq"], ["disc-answer", False], ["disconnect", "none"], ["disconnect+connect", False], ["request-then-reconnect-on-error"],
]


def gen_history(rng: Any) -> list[Any]:
    n = rng.randint(3, 30)
    h: list[Any] = []
    for _ in range(n):
        r = rng.random()
        if not h and r < 0.3:
            h.append(["cfg", {"password": rng.choice([None, "", "pw", "other"]), "addresses": rng.choice([None, None, "tuple", "list"]),
                              "built": rng.choice([None, None, "outside-loop", "closed-loop"])}])
        elif r < 0.22:
            h.append(["start", rng.choice(WORLDS) if rng.random() < 0.5 else "ok", rng.choice(["done", "done", "none", "ms"])])
        elif r < 0.36:
            h.append(["finish", rng.choice(["done", "done", "none", "ms"])])
        elif r < 0.48:
            h.append(["connect", rng.choice(WORLDS) if rng.random() < 0.4 else "ok", rng.choice(["done", "done", "none", "ms"])])
        elif r < 0.58:
            if rng.random() < 0.35:
                h.append(["disc-answer", rng.random() < 0.4])
            h.append(["disconnect", rng.choice(["done", "none", "none"])])
        elif r < 0.61:
            h.append(["force"])
        elif r < 0.62:
            h.append(["stall", rng.choice([30, 200, 1500])])
        elif r < 0.65:
            h.append(rng.choice([["disconnect+connect", False], ["disconnect+connect", True], ["request-then-reconnect-on-error"]]))
        elif r < 0.70:
            h.append(["cancel"])
        elif r < 0.80:
            h.append(["dev", rng.choice(["eof", "rst", "discreq", "garbage", "resp+discreq", "resp+garbage"])])
            if rng.random() < 0.3:
                h.insert(len(h) - 1, ["arm-reconnect"])
        elif r < 0.92:
            h.append(["api", rng.randrange(1000)])
        else:
            h.append(["run", rng.choice([0.001, 1.0, 100.0])])
    return h


def one(ctx: Ctx, hist: list[Any], label: str) -> None:
    res = ctx.res
    o = run_history(hist)
    res.evaluations += 1
    if o["harness_errors"]:
        res.inconclusive.append(f"{label}: {o['harness_errors'][0][-300:]}")
        return
    found, stats = judge(hist, o)
    res.count(f"workload/{label}")
    for k, v in stats.items():
        res.count(f"model/{k}", v)
    res.count("connection_objects_created", o["n_conns"])
    res.count("sessions_ended(stop hook)", len(o["stops"]))
    res.count("steps_skipped(misuse or nothing to act on)", o["skipped"])
    for p in o["probes"]:
        res.seen("api_methods_probed", p["name"])
    for c in o["calls"]:
        if c.done:
            res.count(f"call-outcome/{c.name}/{c.outcome}" + (f"/{type(c.exc).__name__}" if c.outcome == "raised" else ""))
        else:
            res.violation("C19/call-never-ended", f"{c.name} still pending 200 s after the last step", {"history": hist}, trace=o["trace"][-60:])
    if stats["starts_judged"] >= 2 or stats["api_judged"]:
        res.sig(tuple(map(tuple, hist)), tuple((c.name, c.outcome) for c in o["calls"]))
    for key, what in found:
        res.violation(key, what, {"history": hist}, trace=o["trace"][-80:])
    if res.evaluations % 500 == 1:
        res.sample({"history": hist, "calls": [c.brief() for c in o["calls"]], "model": stats,
                    "boundary_log": [(e[0], e[2], e[3], e[5] if e[2] == "ret" else None) for e in o["log"]][:40]})


def shard(ctx: Ctx) -> None:
    from vf.sim import device as _device

    _device.AUTO_ROTATE = True   # chunking of the device's stream rotates: as written / replies coalesced / cut into 1..8-byte pieces
    rng = ctx.rng.__class__(f"C19/{ctx.seed}")
    idx = 0
    maxlen = 4 if ctx.thorough else 3
    for ln in range(1, maxlen + 1):
        for combo in itertools.product(range(len(ALPHABET)), repeat=ln):
            idx += 1
            if ctx.mine(idx):
                one(ctx, [list(ALPHABET[i]) for i in combo], f"all-histories-len{ln}")
    # a device that says goodbye in the chunk that completes the connect phase; then API calls at once (before the application yields to the loop
    # again), then a new attempt
    for pw in (None, "pw"):
        for how in (["connect", "bye-with-last-answer", "done"], ["start", "bye-with-last-answer", "done"]):
            for k in range(0, 64, 8):
                idx += 1
                if ctx.mine(idx):
                    h1: list[Any] = [["cfg", {"password": pw}], how] + ([["finish", "done"]] if how[0] == "start" else [])
                    one(ctx, h1 + [["api", k + j] for j in range(8)] + [["connect", "ok", "done"], ["api", k], ["disconnect", "done"], ["connect", "ok", "done"]],
                        "goodbye-with-the-last-answer")
                    if how[0] == "connect":
                        one(ctx, [["cfg", {"password": pw}], ["connect+api", "bye-with-last-answer", k, 8], ["connect+api", "ok", k, 4], ["dev", "eof"],
                                  ["connect+api", "bye-with-last-answer", k + 3, 4], ["connect", "ok", "done"]], "goodbye-with-the-last-answer/api-in-the-same-step")
    # a device that accepts the TCP connection and resets it at once, with the library's debug logging off and on
    for dbg in (False, True):
        for how in (["connect", "accept-then-reset", "done"], ["start", "accept-then-reset", "done"]):
            idx += 1
            if ctx.mine(idx):
                one(ctx, [["cfg", {"password": "pw", "debug": dbg}], how, ["api", 2], ["connect", "ok", "done"], ["api", 3], ["dev", "rst"], how,
                          ["connect", "ok", "done"]], "accept-then-reset")
    # several configured addresses (list / tuple), the first one refusing: sessions come and go as with one address
    for form in ("tuple", "list"):
        for tail in ([["disconnect", "done"]], [["dev", "eof"]], [["force"]], [["dev", "discreq"]]):
            idx += 1
            if ctx.mine(idx):
                one(ctx, [["cfg", {"password": "pw", "addresses": form}], ["connect", "ok", "done"], ["api", 3]] + tail +
                    [["connect", "ok", "done"], ["api", 5]] + tail + [["start", "ok", "done"], ["finish", "done"], ["api", 7]], "several-addresses")
    # a client object built before the loop that runs it (synchronous set-up code) or inside an earlier, finished asyncio.run(): sessions ended by the
    # device, by the application, by a reset - the next attempt is accepted each time
    for built in ("outside-loop", "closed-loop"):
        for tail in ([["disconnect", "done"]], [["dev", "eof"]], [["force"]], [["dev", "discreq"]], [["dev", "rst"]]):
            idx += 1
            if ctx.mine(idx):
                one(ctx, [["cfg", {"password": "pw", "built": built}], ["connect", "ok", "done"], ["api", 3]] + tail +
                    [["connect", "ok", "done"], ["api", 5]] + tail + [["start", "ok", "done"], ["finish", "done"], ["api", 7]], "client-built-elsewhere")
    # a password-protected device rejecting the login of clients configured with no / an empty / a wrong password, then every API recipe
    for pw in (None, "", "pw", 0):
        for how in (["connect", "badauth", "done"], ["start", "badauth", "done"]):
            for k in range(0, 240, 16):
                idx += 1
                if ctx.mine(idx):
                    h0: list[Any] = [["cfg", {"password": pw}], how] + ([["finish", "done"]] if how[0] == "start" else [])
                    one(ctx, h0 + [["api", k + j] for j in range(16)], "login-rejected-then-api")
    # the device stops reading with a lot queued, then the application disconnects (gracefully / forced), then connects again
    for n_kb in (30, 200, 1500):
        for how in (["force"], ["disconnect", "done"], ["disconnect", "none"], ["dev", "eof"], ["dev", "rst"]):
            for extra in ([], [["api", 3]], [["run", 1.0]]):
                idx += 1
                if ctx.mine(idx):
                    one(ctx, [["connect", "ok", "done"], ["stall", n_kb]] + extra + [how, ["run", 0.001]], "device-stops-reading-then-session-ends")
    for _ in range(400000 if ctx.thorough else 10000):
        h = gen_history(rng)
        idx += 1
        if ctx.mine(idx):
            one(ctx, h, "random-history")


def exhaustive(tier: str) -> Any:
    return [f"all histories of length <= {4 if tier == 'thorough' else 3} over the 18-symbol alphabet {ALPHABET}, each followed by a final start probe"]


def replay(spec: dict[str, Any]) -> int:
    hist = spec["case"]["history"]
    o = run_history(hist)
    print("\n".join(o["trace"]))
    for e in o["log"]:
        print(e[:6])
    found, stats = judge(hist, o)
    print(found, stats)
    return 1 if found else 0

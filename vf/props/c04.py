"""C04 — encrypted transport fails closed with a specific error; no forged delivery.

Fault enumeration (engine W): a conformant Noise session (independent responder)
is built, exactly one deviation is applied to the server byte stream, and the
real helper's deliveries / reported errors / readiness / close are judged:

 (1) prefix   delivered == byte-exact prefix of what the device really encrypted,
              nothing positioned at or after the deviation (replayed copy = after)
 (2) closed   complete frame failing authentication / handshake check => transport
              closed, fatal error reported, later good frames not delivered
 (3) class    where the statement is unambiguous (table in DESIGN.md §4 C04)
 (4) ready    a pending readiness wait fails with the same class
 (5) keys     only base64 of exactly 32 bytes is accepted; rejected before any write
"""

from __future__ import annotations

import base64
import os
from typing import Any

from vf import noisew, refcodec, wire
from vf.common import Ctx

LEVEL = "fault_enumeration"
RULE = ("faults = for every byte position of every frame (hello, handshake, each data frame) of baseline sessions with 0/1/3 data "
        "frames: one bit flip + one byte replacement (thorough: all 8 bits); every truncation length of every data frame; replay in "
        "place / later, swap, drop; handshake-phase deviations (MAC-failure frame, other error text, selector != 1, empty hello, empty "
        "handshake, wrong marker on each frame, name mismatch, differently keyed responder); framing mismatches both ways; key strings "
        "of every decoded length 0..64 and malformed alphabets. Each fault x 4 chunk placements (separate / all in one chunk / fault "
        "coalesced with following good frames / with preceding). Non-trivial = the fault was applied and the outcome judged; distinct = "
        "(fault kind, frame role, position class, placement, outcome class)"
        " Part S: live Noise sessions on the simulated loop whose device deviates once (bit flip, truncation, replay, swap, drop, plaintext frame, empty "
        "frame; own chunk or coalesced with its neighbours): states reaching a subscribe_states subscriber == genuine messages before the deviation, "
        "CLOSED, first fatal class, stop hook once with False; wrong key / handshake error frame / plaintext device / malformed key through connect().")
ASSUMPTIONS = [
    "independent NNpsk0 responder produces the genuine ciphertext; one deviation per session",
    "flips in outer length bytes, in the unauthenticated hello name, or producing undecodable text are judged on the prefix rule only",
    "raw (non-API) exception classes reported by the helper are counted here and judged at the connection boundary by C09 (engine S)",
    "leniently decodable key strings (embedded newlines/garbage, stripped padding) are recorded, not judged",
]
BUDGET_S = {"quick": 300, "thorough": 3000}
MIN_EVALS = {"quick": 8000, "thorough": 60000}

PLACEMENTS = ("separate", "one", "fault+rest", "prev+fault")


class Exp:
    def __init__(self, cls: str | None, exact: bool = False, strict: bool = True, n_before: int = 0,
                 received_name: str | None = None, note: str = "") -> None:
        self.cls, self.exact, self.strict, self.n_before = cls, exact, strict, n_before
        self.received_name = received_name
        self.note = note


def place(items: list[bytes], dev: int, placement: str) -> list[bytes]:
    if placement == "separate":
        return [x for x in items if x]
    if placement == "one":
        return [b"".join(items)]
    if placement == "fault+rest":
        return [x for x in items[:dev] if x] + [b"".join(items[dev:])]
    return [b"".join(items[:dev + 1])] + [x for x in items[dev + 1:] if x]


def judge(ctx: Ctx, label: str, pos_class: str, placement: str, exp: Exp, msgs: list[tuple[int, bytes]],
          c: wire.RecConn, t: wire.RecTransport, d: wire.Driver, case: dict[str, Any], ready_pending_at_error: bool) -> None:
    from aioesphomeapi import core

    res = ctx.res
    res.evaluations += 1
    res.count(f"fault/{label}")
    res.count(f"placement/{placement}")
    got = [(ty, bytes(p)) for ty, p, _ in c.packets]
    first = c.fatal[0][0] if c.fatal else None
    outcome = type(first).__name__ if first is not None else "no-error"
    res.count(f"outcome/{outcome}")
    res.sig(label, pos_class, placement, outcome, len(got))

    def v(key: str, what: str) -> None:
        res.violation(f"C04/{key}/{label}", f"[{label} @{pos_class}, {placement}] {what}", case)

    # (1) prefix
    if got != msgs[:len(got)]:
        v("forged-or-altered-delivery", f"delivered {[(a, len(b)) for a, b in got]} is not a prefix of the genuine messages")
        return
    if exp.strict:
        if len(got) > exp.n_before:
            v("delivered-after-deviation", f"{len(got)} messages delivered, only {exp.n_before} precede the deviation")
        elif len(got) < exp.n_before:
            v("lost-before-deviation", f"{len(got)} messages delivered, {exp.n_before} genuine ones precede the deviation")
        # (2) closed
        if first is None:
            v("not-reported", "no fatal error reported")
            return
        if not t.closing:
            v("not-closed", f"transport still open after {outcome}")
        # (3) class
        if exp.cls is not None:
            want = getattr(core, exp.cls)
            okc = type(first) is want if exp.exact else isinstance(first, want)
            if not okc:
                v("wrong-class", f"first error is {first!r}, expected {'exactly ' if exp.exact else ''}{exp.cls}")
            elif exp.received_name is not None and getattr(first, "received_name", None) != exp.received_name:
                v("wrong-received-name", f"received_name={getattr(first, 'received_name', None)!r}, expected {exp.received_name!r}")
        # (4) readiness
        if ready_pending_at_error:
            if d.ready_exc is None:
                v("ready-not-failed", f"ready_future outcome: done={d.h.ready_future.done()} exc=None after {outcome}")
            elif type(d.ready_exc) is not type(first):
                v("ready-different-class", f"ready_future failed with {type(d.ready_exc).__name__}, connection saw {outcome}")
    else:
        # whatever the class of the deviation: nothing that FOLLOWS it may be delivered (the hello name is unauthenticated free text -
        # with no expected name configured a changed name is not a deviation the client could know about)
        if not pos_class.endswith("hello-name") and len(got) > exp.n_before:
            v("delivered-after-deviation", f"{len(got)} messages delivered, only {exp.n_before} precede the deviation")
        if first is not None and not isinstance(first, core.APIConnectionError):
            res.count(f"raw-exception-reported/{type(first).__name__}")
    if t.writes_after_close:
        res.count("writes_after_close_observed")
    if res.evaluations % 1500 == 1:
        res.sample({"fault": label, "position_class": pos_class, "placement": placement, "outcome": outcome,
                    "delivered": len(got), "genuine_before_deviation": exp.n_before, "strict": exp.strict, **{k: case[k] for k in ("detail",) if k in case}})


def session(psk: bytes, name: bytes | None, expected: str | None, msgs: list[tuple[int, bytes]],
            server_psk: bytes | None = None) -> tuple[Any, wire.RecConn, wire.RecTransport, wire.Driver, noisew.NoiseServer, list[bytes]]:
    h, c, t, d = wire.make_noise(noisew.b64(psk), expected)
    d.start()
    srv = noisew.NoiseServer(server_psk or psk, name)
    srv.accept_client_first_write(t.writes[0], lenient=server_psk is not None)
    st = noisew.ServerStream()
    srv.server_handshake(st)
    for ty, p in msgs:
        srv.add_message(st, ty, p)
    return h, c, t, d, srv, [st.hello, st.handshake, *st.data_frames]


def run(ctx: Ctx, label: str, pos_class: str, msgs: list[tuple[int, bytes]], mutate: Any, placement: str,
        name: bytes | None = b"dev", expected: str | None = None, server_psk: bytes | None = None, kind: str = "bytes",
        detail: Any = None) -> None:
    psk = os.urandom(32)
    h, c, t, d, srv, frames = session(psk, name, expected, msgs, server_psk)
    items, dev, exp = mutate(frames, srv)
    chunks = place(items, dev, placement)
    for ch in chunks:
        obj, ba = wire.wrap_chunk(ch, kind)
        cont = d.feed(obj)
        wire.scrub(ba)
        if not cont:
            break
    # was readiness still pending when the first error was reported?
    pending = bool(c.fatal) and (d.ready_at is None or d.ready_exc is not None)
    case = {"label": label, "pos_class": pos_class, "placement": placement, "msgs": [(ty, len(p)) for ty, p in msgs],
            "name": None if name is None else name.decode(errors="replace"), "expected": expected, "detail": detail}
    judge(ctx, label, pos_class, placement, exp, msgs, c, t, d, case, pending)


# ---------------------------------------------------------------- fault constructors

def frame_role(i: int) -> str:
    return "hello" if i == 0 else "handshake" if i == 1 else "data"


def byte_fault(fi: int, pos: int, newbyte_fn: Any, hello_name_len: int) -> tuple[Any, str, bool]:
    """Mutate one byte of frame fi at offset pos. Returns (mutate, position class, strict?)."""
    role = frame_role(fi)
    if pos == 0:
        pc, cls, exact, strict = "marker", "ProtocolAPIError", False, True
    elif pos in (1, 2):
        pc, cls, exact, strict = "outer-length", None, False, False
    elif role == "hello":
        if pos == 3:
            pc, cls, exact, strict = "selector", "HandshakeAPIError", True, True
        else:
            pc, cls, exact, strict = "hello-name", None, False, False
    elif role == "handshake":
        if pos == 3:
            pc, cls, exact, strict = "handshake-indicator", None, False, False  # text that follows is undecodable
        else:
            pc, cls, exact, strict = "handshake-message", "InvalidEncryptionKeyAPIError", False, True
    else:
        pc, cls, exact, strict = "ciphertext", "InvalidEncryptionKeyAPIError", False, True

    def mutate(frames: list[bytes], srv: Any) -> tuple[list[bytes], int, Exp]:
        f = bytearray(frames[fi])
        f[pos] = newbyte_fn(f[pos])
        items = list(frames)
        items[fi] = bytes(f)
        return items, fi, Exp(cls, exact, strict, n_before=max(0, fi - 2))

    return mutate, f"{role}/{pc}", strict


def truncate_fault(fi: int, new_len: int) -> Any:
    def mutate(frames: list[bytes], srv: Any) -> tuple[list[bytes], int, Exp]:
        body = frames[fi][3:3 + new_len]
        items = list(frames)
        items[fi] = refcodec.enc_noise_outer(body)
        return items, fi, Exp("InvalidEncryptionKeyAPIError", n_before=fi - 2)
    return mutate


def dup_fault(fi: int, after: int) -> Any:
    """Replay frame fi right after frame `after` (>= fi)."""
    def mutate(frames: list[bytes], srv: Any) -> tuple[list[bytes], int, Exp]:
        items = list(frames)
        items.insert(after + 1, frames[fi])
        return items, after + 1, Exp("InvalidEncryptionKeyAPIError", n_before=after + 1 - 2)
    return mutate


def swap_fault(fi: int) -> Any:
    def mutate(frames: list[bytes], srv: Any) -> tuple[list[bytes], int, Exp]:
        items = list(frames)
        items[fi], items[fi + 1] = items[fi + 1], items[fi]
        return items, fi, Exp("InvalidEncryptionKeyAPIError", n_before=fi - 2)
    return mutate


def drop_fault(fi: int) -> Any:
    def mutate(frames: list[bytes], srv: Any) -> tuple[list[bytes], int, Exp]:
        items = list(frames)
        del items[fi]
        last = fi == len(frames) - 1
        # dropping the final frame is not observable: prefix rule only
        return items, min(fi, len(items) - 1), Exp("InvalidEncryptionKeyAPIError", strict=not last, n_before=fi - 2)
    return mutate


def replace_frame(fi: int, body: bytes | None, cls: str | None, exact: bool = False, strict: bool = True,
                  raw: bytes | None = None, received_name: str | None = None) -> Any:
    def mutate(frames: list[bytes], srv: Any) -> tuple[list[bytes], int, Exp]:
        items = list(frames)
        items[fi] = raw if raw is not None else refcodec.enc_noise_outer(body or b"")
        return items, fi, Exp(cls, exact, strict, n_before=max(0, fi - 2), received_name=received_name)
    return mutate


def identity_expect(cls: str, fi: int, received_name: str | None = None, exact: bool = False) -> Any:
    def mutate(frames: list[bytes], srv: Any) -> tuple[list[bytes], int, Exp]:
        return list(frames), fi, Exp(cls, exact, True, n_before=max(0, fi - 2), received_name=received_name)
    return mutate


# ---------------------------------------------------------------- plaintext client / framing mismatch

def plain_mismatch(ctx: Ctx, n_good: int, bad_first: bytes, placement: str, want: str, not_cls: str | None) -> None:
    from aioesphomeapi import core

    res = ctx.res
    h, c, t, d = wire.make_plain()
    d.start()
    good = [(7, b""), (25, b"\x0d\x01\x00\x00\x00"), (8, b"")][:n_good]
    trailing = [(29, b"abc")]
    items = [refcodec.enc_plain(*f) for f in good] + [bad_first] + [refcodec.enc_plain(*f) for f in trailing]
    for ch in place(items, n_good, placement):
        if not d.feed(ch):
            break
    res.evaluations += 1
    label = f"plaintext-client/first-byte-{bad_first[:1].hex()}" if bad_first[0] in (1, 2, 0xFF) else "plaintext-client/first-byte-other"
    res.count(f"fault/{label}")
    got = [(ty, bytes(p)) for ty, p, _ in c.packets]
    first = c.fatal[0][0] if c.fatal else None
    res.sig("plain-mismatch", bad_first[:2].hex(), n_good, placement, type(first).__name__)
    case = {"label": label, "n_good_before": n_good, "bad": bad_first.hex(), "placement": placement}

    def v(key: str, what: str) -> None:
        res.violation(f"C04/{key}/{label}", f"[{label}, {placement}] {what}", case)

    if got != good:
        v("delivered-after-deviation" if len(got) > n_good else "lost-before-deviation",
          f"delivered {len(got)} messages, {n_good} genuine ones precede the deviation")
    if first is None:
        v("not-reported", "no fatal error")
        return
    if not t.closing:
        v("not-closed", "transport open")
    if not isinstance(first, getattr(core, want)) or (not_cls and isinstance(first, getattr(core, not_cls))):
        v("wrong-class", f"first error {first!r}; expected {want}" + (f" and not {not_cls}" if not_cls else ""))


def noise_gets_plaintext(ctx: Ctx, placement: str, after_handshake: bool) -> None:
    """A device speaking plaintext to a Noise client."""
    msgs = [(7, b"")]

    def mutate(frames: list[bytes], srv: Any) -> tuple[list[bytes], int, Exp]:
        plain = refcodec.enc_plain(2, b"\x08\x01\x10\x0a") + refcodec.enc_plain(7, b"")
        if after_handshake:
            return [frames[0], frames[1], plain, frames[2]], 2, Exp("ProtocolAPIError", n_before=0)
        return [plain, frames[0], frames[1], frames[2]], 0, Exp("ProtocolAPIError", n_before=0)

    run(ctx, "noise-client-gets-plaintext" + ("-after-handshake" if after_handshake else ""), "framing", msgs, mutate, placement)


# ---------------------------------------------------------------- keys

def key_cases(ctx: Ctx) -> None:
    from aioesphomeapi.core import InvalidEncryptionKeyAPIError

    res = ctx.res
    rng = ctx.rng

    def again(s: str, n_desc: str) -> None:
        """The same key string configured again (the next reconnect attempt of the client, another client of the process): same verdict."""
        for attempt in (2, 3):
            res.evaluations += 1
            res.count("keys/same-invalid-string-again")
            try:
                h2, c2, t2, d2 = wire.make_noise(s, None)
                d2.start()
                res.violation("C04/key/invalid-accepted-on-reuse", f"{n_desc}: rejected the first time, accepted when configured again (attempt {attempt}); "
                              f"client wrote {len(t2.writes)} chunks", {"key": s, "attempt": attempt})
                return
            except InvalidEncryptionKeyAPIError:
                pass
            except Exception as e:  # noqa: BLE001
                res.violation("C04/key/wrong-exception-on-reuse", f"{n_desc}: configured again (attempt {attempt}): raised {e!r} instead of InvalidEncryptionKeyAPIError",
                              {"key": s, "attempt": attempt})
                return
    for n in range(0, 65):
        for rep in range(3 if n == 32 else 1):
            raw = os.urandom(n)
            s = base64.b64encode(raw).decode()
            res.evaluations += 1
            res.count("keys/decoded-length-cases")
            t = None
            try:
                h, c, t, d = wire.make_noise(s, None)
                ok = True
            except InvalidEncryptionKeyAPIError:
                ok = False
            except Exception as e:  # noqa: BLE001
                res.violation("C04/key/wrong-exception", f"key of {n} bytes: construction raised {e!r}", {"key": s})
                continue
            res.sig("key-len", n, ok)
            if n == 32 and not ok:
                res.violation("C04/key/valid-rejected", "standard base64 of 32 bytes rejected", {"key": s})
            if n != 32 and ok:
                res.violation("C04/key/invalid-accepted", f"base64 of {n} bytes accepted", {"key": s, "decoded_len": n})
                if t is not None and t.writes:
                    res.count("keys/invalid-key-wrote")
            if n != 32 and not ok:
                again(s, f"base64 of {n} bytes")
    alphabet = "ABCDEFGHIJKLMNOPQRSTUVWXYZabcdefghijklmnopqrstuvwxyz0123456789+/"
    for k in range(60):
        n = 4 * rng.randint(0, 16) + 1
        s = "".join(rng.choice(alphabet) for _ in range(n))
        res.evaluations += 1
        res.count("keys/alphabet-count-1-mod-4")
        try:
            wire.make_noise(s, None)
            res.violation("C04/key/invalid-accepted", f"{n}-character string (not valid base64) accepted", {"key": s})
        except InvalidEncryptionKeyAPIError:
            res.sig("key-malformed", n)
            again(s, f"{n}-character malformed string")
        except Exception as e:  # noqa: BLE001
            res.violation("C04/key/wrong-exception", f"malformed key: construction raised {e!r}", {"key": s})
    # strings that cannot be base64 of anything because they contain characters outside ASCII (copy/paste artefacts: NBSP, zero-width
    # space, BOM, fullwidth or look-alike symbols) - alone, or glued to an otherwise valid key
    good = base64.b64encode(os.urandom(32)).decode()
    weird = ["\u00a0", "\u200b", "\ufeff", "\uff0b", "\u2215", "\uff1d", "\u00e9", "\U0001f511"]
    nonascii = []
    for w in weird:
        nonascii += [good + w, w + good, good[:11] + w + good[11:], good[:-1] + w, w, w * 44]
    nonascii += [good.replace("A", "\u0410", 1) if "A" in good else "\u0410" + good[1:], "".join(chr(0xFF00 + ord(ch) - 0x20) if "!" <= ch <= "~" else ch for ch in good)]
    for s in nonascii:
        res.evaluations += 1
        res.count("keys/non-ascii")
        try:
            h, c, t, d = wire.make_noise(s, None)
            res.violation("C04/key/invalid-accepted", f"key string with non-ASCII characters accepted: {s!r}", {"key": s})
        except InvalidEncryptionKeyAPIError:
            res.sig("key-nonascii", len(s), s[:1] == good[:1], s[-1:] == good[-1:])
        except Exception as e:  # noqa: BLE001
            res.violation("C04/key/wrong-exception", f"non-ASCII key {s!r}: construction raised {e!r}", {"key": s})
    for label, s in (("embedded-newline", good[:20] + "\n" + good[20:]), ("stripped-padding", good.rstrip("=")),
                     ("leading-space", " " + good), ("garbage-char", good[:10] + "!" + good[10:]), ("urlsafe", good.replace("+", "-").replace("/", "_"))):
        try:
            wire.make_noise(s, None)
            res.notes.setdefault("lenient_keys", []).append(f"{label}: accepted (recorded, not judged)")
        except Exception as e:  # noqa: BLE001
            res.notes.setdefault("lenient_keys", []).append(f"{label}: {type(e).__name__} (recorded, not judged)")


# ---------------------------------------------------------------- workload

def shard(ctx: Ctx) -> None:
    rng = ctx.rng
    idx = 0
    baselines: list[list[tuple[int, bytes]]] = [
        [],
        [(25, b"\x0d\x01\x00\x00\x00")],
        [(25, b"\x0d\x01\x00\x00\x00"), (7, b""), (29, os.urandom(40))],
        [(25, b"\x0d\x01\x00\x00\x00"), (26, os.urandom(7)), (7, b""), (33, os.urandom(300)), (8, b"")],
    ]
    if ctx.thorough:
        baselines.append([(n + 20, os.urandom(n * 9 % 61)) for n in range(8)])
    name = b"dev"
    hello_len = 3 + 1 + len(name) + 1
    flips_per_pos = 8 if ctx.thorough else 1
    for bi, msgs in enumerate(baselines):
        lens = [hello_len, 3 + 1 + 48] + [3 + 4 + len(p) + 16 for _, p in msgs]
        # (a) byte faults at every position of every frame
        for fi, flen in enumerate(lens):
            for pos in range(flen):
                variants: list[tuple[str, Any]] = []
                # every bit of every header byte (marker, length, selector / indicator, first ciphertext bytes); sampled bits elsewhere
                bits = range(8) if (ctx.thorough or pos < 8) else rng.sample(range(8), 3)
                for b in bits:
                    variants.append((f"bitflip", (lambda old, b=b: old ^ (1 << b))))
                for _ in range(4 if ctx.thorough else 1):
                    rb = rng.randrange(256)
                    variants.append(("replace", (lambda old, rb=rb: rb if rb != old else (old + 1) & 0xFF)))
                if pos == 3:
                    for rb in (0x01, 0x02, 0x7F, 0x80, 0xFF):
                        variants.append(("replace", (lambda old, rb=rb: rb if rb != old else (old + 1) & 0xFF)))
                for vi, (vl, fn) in enumerate(variants):
                    for pi, placement in enumerate(PLACEMENTS):
                        idx += 1
                        if not ctx.mine(idx):
                            continue
                        mut, pc, _ = byte_fault(fi, pos, fn, len(name))
                        kind = wire.BUF_KINDS[(idx + pi) % len(wire.BUF_KINDS)]
                        run(ctx, f"{vl}", pc, msgs, mut, placement, name=name, kind=kind, detail={"frame": fi, "pos": pos})
        # (b) structural faults on data frames
        for di in range(len(msgs)):
            fi = di + 2
            body_len = lens[fi] - 3
            for new_len in range(0, body_len):
                for placement in PLACEMENTS:
                    idx += 1
                    if ctx.mine(idx):
                        run(ctx, "truncate", f"data/len-{'lt16' if new_len < 16 else 'ge16'}", msgs, truncate_fault(fi, new_len),
                            placement, detail={"frame": fi, "new_len": new_len})
            for after in range(fi, len(lens)):
                for placement in PLACEMENTS:
                    idx += 1
                    if ctx.mine(idx):
                        run(ctx, "replay-in-place" if after == fi else "replay-later", "data", msgs, dup_fault(fi, after),
                            placement, detail={"frame": fi, "after": after})
            if fi + 1 < len(lens):
                for placement in PLACEMENTS:
                    idx += 1
                    if ctx.mine(idx):
                        run(ctx, "swap", "data", msgs, swap_fault(fi), placement, detail={"frame": fi})
            for placement in PLACEMENTS:
                idx += 1
                if ctx.mine(idx):
                    run(ctx, "drop" if fi < len(lens) - 1 else "drop-last", "data", msgs, drop_fault(fi), placement, detail={"frame": fi})
        # (c) handshake-phase deviations
        hs_faults: list[tuple[str, Any, dict[str, Any]]] = [
            ("mac-failure-frame", replace_frame(1, b"\x01Handshake MAC failure", "InvalidEncryptionKeyAPIError"), {}),
            ("other-error-text", replace_frame(1, b"\x01Bad something", "HandshakeAPIError", exact=True), {}),
            ("error-frame-empty-text", replace_frame(1, b"\x01", "HandshakeAPIError", exact=True), {}),
            ("selector-0", replace_frame(0, b"\x00" + name + b"\x00", "HandshakeAPIError", exact=True), {}),
            ("selector-2", replace_frame(0, b"\x02" + name + b"\x00", "HandshakeAPIError", exact=True), {}),
            ("selector-ff-no-name", replace_frame(0, b"\xff", "HandshakeAPIError", exact=True), {}),
            ("empty-hello", replace_frame(0, b"", "HandshakeAPIError", exact=True), {}),
            ("empty-handshake-frame", replace_frame(1, b"", None, strict=False), {}),
            ("undecodable-error-text", replace_frame(1, b"\x01\xff\xfe\xfd", None, strict=False), {}),
            ("name-mismatch", identity_expect("BadNameAPIError", 0, received_name="dev", exact=True), {"expected": "other"}),
            ("name-mismatch-case", identity_expect("BadNameAPIError", 0, received_name="dev", exact=True), {"expected": "Dev"}),
            # (the announced name merely EXTENDS the expected one - a sibling "kitchen-2", a MAC suffix - or the other way round: not equal)
            ("name-mismatch-expected-is-prefix", identity_expect("BadNameAPIError", 0, received_name="dev", exact=True), {"expected": "de"}),
            ("name-mismatch-expected-is-first-letter", identity_expect("BadNameAPIError", 0, received_name="dev", exact=True), {"expected": "d"}),
            ("name-mismatch-expected-extends", identity_expect("BadNameAPIError", 0, received_name="dev", exact=True), {"expected": "dev-a1b2c3"}),
            # the hello of current firmware: further NUL-terminated fields (MAC address) behind the name
            ("name-mismatch-hello-with-mac-field", replace_frame(0, b"\x01" + name + b"\x00aabbccddeeff\x00", "BadNameAPIError", exact=True, received_name="dev"), {"expected": "other"}),
            ("name-mismatch-hello-with-two-fields", replace_frame(0, b"\x01" + name + b"\x00aabbccddeeff\x00esp32\x00", "BadNameAPIError", exact=True, received_name="dev"), {"expected": "dev2"}),
            ("name-mismatch-empty-name-with-mac-field", replace_frame(0, b"\x01\x00aabbccddeeff\x00", "BadNameAPIError", exact=True, received_name=""), {"expected": "dev"}),
            ("wrong-key-nonverifying-responder", identity_expect("InvalidEncryptionKeyAPIError", 1), {"server_psk": os.urandom(32)}),
        ]
        for fi in range(len(lens)):
            for mk in (0x00, 0x02, 0xFF):
                def mut(frames: list[bytes], srv: Any, fi: int = fi, mk: int = mk) -> tuple[list[bytes], int, Exp]:
                    items = list(frames)
                    items[fi] = bytes([mk]) + frames[fi][1:]
                    return items, fi, Exp("ProtocolAPIError", n_before=max(0, fi - 2))
                hs_faults.append((f"wrong-marker-{frame_role(fi)}", mut, {}))
        for label, mut, kw in hs_faults:
            for placement in PLACEMENTS:
                idx += 1
                if ctx.mine(idx):
                    run(ctx, label, "handshake-phase", msgs, mut, placement, name=name, **kw)
    # (d) framing mismatches
    for placement in PLACEMENTS:
        for after in (False, True):
            idx += 1
            if ctx.mine(idx):
                noise_gets_plaintext(ctx, placement, after)
        for n_good in (0, 1, 3):
            for first in [b"\x01\x00\x00", b"\x01", b"\x02\x00\x01", b"\xff\x01\x00", b"\x80\x01\x00\x00", b"\x7f"] + \
                         [bytes([rng.randrange(2, 256)]) + os.urandom(3) for _ in range(4)]:
                idx += 1
                if not ctx.mine(idx):
                    continue
                if first[0] == 1:
                    plain_mismatch(ctx, n_good, first, placement, "RequiresEncryptionAPIError", None)
                else:
                    plain_mismatch(ctx, n_good, first, placement, "ProtocolAPIError", "RequiresEncryptionAPIError")
    # large frame sampled
    big = [(1, os.urandom(65515))]
    n_off = 2000 if ctx.thorough else 96
    for k in range(n_off):
        idx += 1
        if not ctx.mine(idx):
            continue
        pos = rng.randrange(3, 3 + 4 + 65515 + 16) if k > 8 else [3, 4, 5, 6, 7, 65537, 65536, 65535, 3 + 4 + 65515][k]
        mut, pc, _ = byte_fault(2, pos, lambda old: old ^ 0x10, len(name))
        run(ctx, "bitflip-large-frame", pc, big, mut, PLACEMENTS[k % 4], detail={"pos": pos})
    # (5) keys
    if ctx.shard == 0:
        key_cases(ctx)
    try:
        from vf.props import c04_s  # noqa: PLC0415
    except ImportError:
        ctx.res.notes["part_S"] = "not built"
        return
    c04_s.shard(ctx)


def replay(spec: dict[str, Any]) -> int:
    print("C04 replay (fault description; key material is fresh on every run):")
    print(spec.get("what"))
    print(spec.get("case"))
    print("re-run `./check C04 --tier quick`: the enumeration is deterministic in the fault (label, frame, position, placement)")
    return 0

"""C05 — see DESIGN.md §4 C05. Engine S: fault x injection-point sweep over connection-lifecycle scenarios."""

from __future__ import annotations

from typing import Any

from vf.common import Ctx
from vf.sim import sweep

PROP = "C05"
BUDGET_S = {"quick": 300, "thorough": 3000}
MIN_EVALS = {"quick": 1500, "thorough": 15000}
ASSUMPTIONS = [
    "real asyncio selector loop + real library; sockets, selector, clock, DNS and the peer are simulated (calibrated against real sockets in setup)",
    "interleavings are those reachable under stock asyncio scheduling on a selector loop; other loops are represented by the write-raises fault",
    "one or two faults per scenario; liveness is bounded progress in virtual time (horizon 400 s > every documented timeout)",
]


def replay(spec: dict[str, Any]) -> int:
    return sweep.replay(PROP, spec)

LEVEL = "fault_enumeration"
RULE = ("close causes {force_disconnect, disconnect, cancel, reuse probe, EOF, RST, garbage (0x01 / other / unauthenticated frame), bad protobuf, "
        "peer DisconnectRequest, send failure, write-raises, silence} x EVERY injection point (loop iteration k x ready-queue index / zero-delay "
        "timer / before-select network event / mid-wait instant) of each baseline (plaintext|noise x login x dual-stack x split connect x steady-state "
        "variants), plus closing bytes appended to the chunk that completes the connect phase; thorough adds sampled fault pairs. The online monitor "
        "checks every connection_state write against the transition relation, is_connected == (state is CONNECTED) at every iteration boundary, "
        "the state at every start/finish/connect return and reuse probes. Non-trivial = a fault was applied (or a tail present) and the run judged; "
        "distinct = distinct trace signature (state sequence, fatal classes, call outcomes, on_stop args, fault kind x stage x position class)")


ORDER = {"INITIALIZED": 0, "SOCKET_OPENED": 1, "HANDSHAKE_COMPLETE": 2, "CONNECTED": 3, "CLOSED": 9}


def second_attempt_while_first_in_flight(ctx: Ctx) -> None:
    """"A connection object can be used for one connect attempt only" - also while that attempt is still running: a second start_connection() /
    finish_connection() on the same object, entered at every loop step between the first call's entry and its return (the visible state has not
    moved yet), is refused like any other reuse; the first attempt is not disturbed, no second socket or transport appears, the state sequence
    stays monotone."""
    import base64

    from vf.sim.device import DeviceConfig
    from vf.sim.scenario import Sim  # noqa: PLC0415

    res = ctx.res
    psk = bytes(range(5, 37))
    idx = 0
    for framing in ("plain", "noise"):
        for phase in ("start_connection", "finish_connection"):
            for eager in (False, True):
                for k in range(0, 14):
                    idx += 1
                    if not ctx.mine(idx):
                        continue
                    with Sim() as sim:
                        cfg = DeviceConfig(noise_psk=psk if framing == "noise" else None)
                        cfg.hello_name = cfg.name
                        sim.device(cfg)
                        cli = sim.client(**({"noise_psk": base64.b64encode(psk).decode()} if framing == "noise" else {}))
                        c0 = sim.call("start", lambda: cli.start_connection())
                        sim.small_step()
                        conn = cli._connection  # noqa: SLF001
                        if conn is None:
                            res.inconclusive.append("second attempt: no connection object after the first step of start_connection()")
                            continue
                        view = sim.view(conn)
                        first = c0
                        if phase == "finish_connection":
                            sim.run(until=lambda: c0.done, max_time=sim.clock + 50)
                            if c0.outcome != "ok":
                                res.inconclusive.append(f"second attempt: start failed {c0.exc!r}")
                                continue
                            first = sim.call("finish", lambda: cli.finish_connection(login=False))
                            sim.small_step()
                        steps = 0
                        while steps < k and not first.done:
                            sim.small_step()
                            steps += 1
                        if first.done:
                            continue     # the first attempt is over: what follows is the sequential reuse the sweep's probes already cover
                        state_at_entry = conn.connection_state.name
                        sockets_before = len(sim.open_sockets())
                        transports_before = len(sim.transports)
                        second = sim.call("second:" + phase, (lambda: conn.start_connection()) if phase == "start_connection" else (lambda: conn.finish_connection(login=False)),
                                          eager=eager)
                        sim.run(until=lambda: first.done and second.done, max_time=sim.clock + 100)
                        sim.run_for(0.05)
                        res.evaluations += 1
                        res.count("workload/second-attempt-while-first-in-flight")
                        res.count(f"second-attempt/{phase}/entered-in-state={state_at_entry}/after-steps={steps}")
                        res.sig("second-attempt", framing, phase, eager, steps, state_at_entry)
                        case = {"spec": None, "second_attempt": {"framing": framing, "phase": phase, "loop_steps_after_first_entry": steps, "eager": eager,
                                                                  "state_at_entry": state_at_entry}}
                        who = f"{framing}: second {phase}() entered {steps} loop steps after the first (state {state_at_entry})"
                        if not (second.done and second.outcome == "raised" and isinstance(second.exc, RuntimeError)):
                            res.violation(f"C05/second-concurrent-attempt-accepted/{phase}", f"{who} ended {second.outcome} {second.exc!r}: the object took a second attempt "
                                          f"(sockets open now {len(sim.open_sockets())}, were {sockets_before}; transports created {len(sim.transports)}, were {transports_before})",
                                          case, trace=sim.trace(40))
                        if not first.done or first.outcome != "ok":
                            res.violation(f"C05/first-attempt-disturbed/{phase}", f"{who}: the first call ended {first.outcome} {first.exc!r}", case, trace=sim.trace(40))
                        seq = [s_[3].name for s_ in view.states]
                        bad = [(a, b) for a, b in zip(seq, seq[1:]) if ORDER[b] <= ORDER[a]]
                        if bad:
                            res.violation(f"C05/transition/{bad[0][0]}->{bad[0][1]}", f"{who}: state sequence {seq}", case, trace=sim.trace(40))
                        if len(sim.open_sockets()) > 1:
                            res.violation("C05/second-socket", f"{who}: {len(sim.open_sockets())} sockets open for one connection object", case, trace=sim.trace(40))
                        d = sim.call("bye", lambda: cli.disconnect(force=True))
                        sim.run(until=lambda: d.done, max_time=sim.clock + 5)


def shard(ctx: Ctx) -> None:
    from vf.sim import device as _device_fw  # noqa: PLC0415

    _device_fw.ROTATE_FIRMWARE = True    # the firmware flavour of default devices rotates (hello without a name, API 1.2 / 1.8 / 1.12, deep sleep)
    second_attempt_while_first_in_flight(ctx)
    sweep.standard_sweep(ctx, PROP)
    sweep.connect_fault_sweep(ctx, PROP)   # resolver / TCP / setsockopt / rejection worlds: a failed phase must leave the object CLOSED
    sweep.same_turn_pairs_sweep(ctx, PROP)
    sweep.stalled_connect_sweep(ctx, PROP)
    sweep.high_water_sweep(ctx, PROP)
    sweep.deadline_sweep(ctx, PROP)
    sweep.keepalive_values_sweep(ctx, PROP)
    sweep.hello_content_sweep(ctx, PROP)
    sweep.abandoned_disconnect_sweep(ctx, PROP)
    sweep.crossing_requests_sweep(ctx, PROP)
    sweep.reconnect_in_on_stop_sweep(ctx, PROP)
    if ctx.thorough:
        sweep.pair_sweep(ctx, PROP, 3000)
    else:
        sweep.pair_sweep(ctx, PROP, 60)

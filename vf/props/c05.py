"""C05 — see DESIGN.md §4 C05. Engine S: fault x injection-point sweep over connection-lifecycle scenarios."""

from __future__ import annotations

from typing import Any

from vf.common import Ctx
from vf.sim import sweep

PROP = "C05"
BUDGET_S = {"quick": 300, "thorough": 3000}
MIN_EVALS = {"quick": 1500, "thorough": 15000}
ASSUMPTIONS = [
    "real asyncio selector loop + real library; sockets, selector, clock, DNS and the peer are simulated (calibrated against real sockets in setup)",
    "interleavings are those reachable under stock asyncio scheduling on a selector loop; other loops are represented by the write-raises fault",
    "one or two faults per scenario; liveness is bounded progress in virtual time (horizon 400 s > every documented timeout)",
]


def replay(spec: dict[str, Any]) -> int:
    return sweep.replay(PROP, spec)

LEVEL = "fault_enumeration"
RULE = ("close causes {force_disconnect, disconnect, cancel, reuse probe, EOF, RST, garbage (0x01 / other / unauthenticated frame), bad protobuf, "
        "peer DisconnectRequest, send failure, write-raises, silence} x EVERY injection point (loop iteration k x ready-queue index / zero-delay "
        "timer / before-select network event / mid-wait instant) of each baseline (plaintext|noise x login x dual-stack x split connect x steady-state "
        "variants), plus closing bytes appended to the chunk that completes the connect phase; thorough adds sampled fault pairs. The online monitor "
        "checks every connection_state write against the transition relation, is_connected == (state is CONNECTED) at every iteration boundary, "
        "the state at every start/finish/connect return and reuse probes. Non-trivial = a fault was applied (or a tail present) and the run judged; "
        "distinct = distinct trace signature (state sequence, fatal classes, call outcomes, on_stop args, fault kind x stage x position class)")


def shard(ctx: Ctx) -> None:
    from vf.sim import device as _device_fw  # noqa: PLC0415

    _device_fw.ROTATE_FIRMWARE = True    # the firmware flavour of default devices rotates (hello without a name, API 1.2 / 1.8 / 1.12, deep sleep)
    sweep.standard_sweep(ctx, PROP)
    sweep.connect_fault_sweep(ctx, PROP)   # resolver / TCP / setsockopt / rejection worlds: a failed phase must leave the object CLOSED
    sweep.same_turn_pairs_sweep(ctx, PROP)
    sweep.stalled_connect_sweep(ctx, PROP)
    sweep.high_water_sweep(ctx, PROP)
    sweep.deadline_sweep(ctx, PROP)
    sweep.keepalive_values_sweep(ctx, PROP)
    sweep.hello_content_sweep(ctx, PROP)
    sweep.abandoned_disconnect_sweep(ctx, PROP)
    sweep.crossing_requests_sweep(ctx, PROP)
    sweep.reconnect_in_on_stop_sweep(ctx, PROP)
    if ctx.thorough:
        sweep.pair_sweep(ctx, PROP, 3000)
    else:
        sweep.pair_sweep(ctx, PROP, 60)

"""C09 — see DESIGN.md §4 C09. Engine S: fault x injection-point sweep over connection-lifecycle scenarios."""

from __future__ import annotations

from typing import Any

from vf.common import Ctx
from vf.sim import sweep

PROP = "C09"
BUDGET_S = {"quick": 300, "thorough": 3000}
MIN_EVALS = {"quick": 1500, "thorough": 15000}
ASSUMPTIONS = [
    "real asyncio selector loop + real library; sockets, selector, clock, DNS and the peer are simulated (calibrated against real sockets in setup)",
    "interleavings are those reachable under stock asyncio scheduling on a selector loop; other loops are represented by the write-raises fault",
    "one or two faults per scenario; liveness is bounded progress in virtual time (horizon 400 s > every documented timeout)",
]


def replay(spec: dict[str, Any]) -> int:
    return sweep.replay(PROP, spec)

LEVEL = "fault_enumeration"
RULE = ("same fault x injection-point enumeration as C05 incl. resolver/connect faults (error, hang) and ordered fault pairs; the call recorder "
        "keeps (op, t_call, t_return, outcome, exception chain) in virtual time. Oracle: (1) every call returns within its documented bound and "
        "none is pending at the 400 s horizon or when the world is idle forever; (2) every raised exception is an APIConnectionError (CancelledError "
        "only for the task the harness cancelled); (3) the first report_fatal_error of a connection has the class/marker the fault table predicts and "
        "every waiter failing afterwards carries that first cause. Distinct = trace signature")


def shard(ctx: Ctx) -> None:
    sweep.standard_sweep(ctx, PROP)
    sweep.same_turn_pairs_sweep(ctx, PROP)
    sweep.stalled_connect_sweep(ctx, PROP)
    sweep.connect_fault_sweep(ctx, PROP)
    sweep.duplicate_answers_sweep(ctx, PROP)
    sweep.pair_sweep(ctx, PROP, 5000 if ctx.thorough else 250)

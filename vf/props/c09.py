"""C09 — see DESIGN.md §4 C09. Engine S: fault x injection-point sweep over connection-lifecycle scenarios."""

from __future__ import annotations

from typing import Any

from vf.common import Ctx
from vf.sim import sweep

PROP = "C09"
BUDGET_S = {"quick": 300, "thorough": 3000}
MIN_EVALS = {"quick": 1500, "thorough": 15000}
ASSUMPTIONS = [
    "real asyncio selector loop + real library; sockets, selector, clock, DNS and the peer are simulated (calibrated against real sockets in setup)",
    "interleavings are those reachable under stock asyncio scheduling on a selector loop; other loops are represented by the write-raises fault",
    "one or two faults per scenario; liveness is bounded progress in virtual time (horizon 400 s > every documented timeout)",
]


def replay(spec: dict[str, Any]) -> int:
    return sweep.replay(PROP, spec)

LEVEL = "fault_enumeration"
RULE = ("same fault x injection-point enumeration as C05 incl. resolver/connect faults (error, hang) and ordered fault pairs; the call recorder "
        "keeps (op, t_call, t_return, outcome, exception chain) in virtual time. Oracle: (1) every call returns within its documented bound and "
        "none is pending at the 400 s horizon or when the world is idle forever; (2) every raised exception is an APIConnectionError (CancelledError "
        "only for the task the harness cancelled); (3) the first report_fatal_error of a connection has the class/marker the fault table predicts and "
        "every waiter failing afterwards carries that first cause; same-turn pairs of a network close cause and a user action (both orders), stalled-connect "
        "histories (disconnect during a stuck hello, its 5 s wait expiring, optional cancel, late hello, then the link dies), duplicate answers in one chunk, "
        "rejection worlds (wrong password / name / key / version) x user actions, rejection + hang-up in one chunk. Distinct = trace signature")


def rejection_then_hangup(ctx: Ctx) -> None:
    """First cause wins in the connect phase too: the device REJECTS the client (wrong password / other name / incompatible version) and hangs up
    right behind that answer, in the same chunk (DisconnectRequest or garbage) - connect() must report the rejection, not what followed it."""
    import itertools

    from aioesphomeapi.core import APIConnectionError, BadNameAPIError, InvalidAuthAPIError
    from vf.props import c06

    res = ctx.res
    idx = 0
    for framing, reject, pk in itertools.product(("plain", "noise"), ("password", "name", "version"), ("one-chunk+peer-disconnect", "one-chunk+garbage")):
        idx += 1
        if not ctx.mine(idx):
            continue
        row = {"major": 3 if reject == "version" else 1, "minor": 10, "api_name": "other" if reject == "name" else "equal", "noise_name": "equal" if framing == "noise" else "absent",
               "framing": framing, "invalid_password": reject == "password", "login": True, "expected_set": True, "packaging": pk, "password": "pw"}
        o = c06.run_case(row)
        res.evaluations += 1
        res.count("baseline/rejection-then-hangup")
        res.count("oracle_evaluations")
        res.sigs.add(f"rej/{framing}/{reject}/{pk}")
        e = o["exc"]
        ok = (reject == "password" and isinstance(e, InvalidAuthAPIError)) or (reject == "name" and isinstance(e, BadNameAPIError)) or \
            (reject == "version" and type(e) is APIConnectionError and "ncompatible" in str(e))
        res.count(f"observed/c09/rejection-then-hangup/{type(e).__name__ if e else o['outcome']}")
        if not ok:
            res.violation(f"C09/first-cause-masked/connect-rejection/{reject}", f"{framing}: device rejected the client ({reject}) and hung up behind the answer ({pk}); "
                          f"connect() ended {o['outcome']} {e!r}", {"spec": None, "row": row}, trace=o["trace"])


def ble_time_bounds(ctx: Ctx) -> None:
    """Bluetooth request-response calls against a proxy that never answers: each ends with TimeoutAPIError exactly at its timeout;
    bluetooth_device_connect at timeout + disconnect_timeout (it first asks the proxy to disconnect and waits for that, bounded too)."""
    from aioesphomeapi.core import TimeoutAPIError
    from vf.props import c16

    res = ctx.res
    idx = 0
    for name, dbg in [(n, d) for n in c16.OPS for d in (False, True)]:
        if name == "get_services":
            continue   # documented bound 30 s, same mechanism; covered by C16
        idx += 1
        if not ctx.mine(idx):
            continue
        o = c16.run_case({"ops": [{"op": name, "addr": c16.A, "handle": 1}], "replies": [], "answer_disconnect": False, "debug": dbg})
        if o.get("error"):
            res.inconclusive.append(f"BLE time bound scenario: {o['error']}")
            continue
        rec = o["recs"][0]
        res.evaluations += 1
        res.count("baseline/ble-silent-proxy")
        res.count("oracle_evaluations")
        res.sigs.add(f"ble-bound/{name}/debug={dbg}")
        bound = c16.TIMEOUT + (0.5 if name == "device_connect" else 0.0)
        dur = None if rec.t_ret is None else rec.t_ret - rec.t_call
        res.count(f"observed/c09/ble-silent/{name}/{rec.outcome}/{type(rec.exc).__name__ if rec.exc else None}")
        if not rec.done:
            res.violation(f"C09/hang/{name}", f"{name} against a silent proxy still pending", {"spec": None, "ble_op": name})
        elif rec.outcome != "raised" or not isinstance(rec.exc, TimeoutAPIError):
            res.violation(f"C09/raw-exception/{name}/{type(rec.exc).__name__}", f"{name} against a silent proxy ended {rec.outcome} {rec.exc!r}", {"spec": None, "ble_op": name})
        elif abs(dur - bound) > 1e-6:
            res.violation(f"C09/over-bound/{name}" if dur > bound else f"C09/under-bound/{name}", f"{name} against a silent proxy took {dur:.4f}s, documented bound {bound}s "
                          f"(timeout {c16.TIMEOUT}s" + (", disconnect_timeout 0.5s)" if name == "device_connect" else ")"), {"spec": None, "ble_op": name}, trace=o["trace"][-30:])


def ble_drop_reasons(ctx: Ctx) -> None:
    """A Bluetooth request is in flight and the proxy reports that the peripheral dropped, with every possible reason code: the call ends at
    once with an error from the library's hierarchy -- building the error text from an unknown code must not let a raw error escape."""
    from aioesphomeapi.core import APIConnectionError
    from vf.props import c16

    res = ctx.res
    idx = 0
    for oi, name in enumerate(c16.OPS):
        for reason in c16.DROP_REASONS:
            if not (ctx.thorough or name in ("read", "pair") or (reason + oi) % 4 == 0):
                continue
            idx += 1
            if not ctx.mine(idx):
                continue
            o = c16.run_case({"ops": [{"op": name, "addr": c16.A, "handle": 1}], "replies": [["conn", c16.A, 0, reason]], "answer_disconnect": False})
            if o.get("error"):
                res.inconclusive.append(f"BLE drop scenario: {o['error']}")
                continue
            rec = o["recs"][0]
            res.evaluations += 1
            res.count("baseline/ble-drop-reasons")
            res.count("oracle_evaluations")
            res.sigs.add(f"ble-drop/{name}/{reason}")
            res.count(f"observed/c09/ble-drop/{name}/{rec.outcome}/{type(rec.exc).__name__ if rec.exc else None}")
            case = {"spec": None, "ble_op": name, "reason": reason}
            if not rec.done:
                res.violation(f"C09/hang/{name}", f"{name}: proxy reported a drop (reason {reason}) but the call is still pending", case)
            elif rec.outcome == "raised" and not isinstance(rec.exc, APIConnectionError):
                res.violation(f"C09/raw-exception/{name}/{type(rec.exc).__name__}", f"{name}: proxy reported a drop with reason {reason}; the call raised {rec.exc!r}", case, trace=o["trace"][-20:])
            elif rec.t_ret - rec.t_call > 0.02 + 1e-6 and name != "device_connect":
                res.violation(f"C09/over-bound/{name}", f"{name}: drop reported after 0.01 s, call ended after {rec.t_ret - rec.t_call:.4f}s", case)


def ble_status_update_then_answer(ctx: Ctx) -> None:
    """While a Bluetooth request is in flight the proxy sends a connection-state message for that peripheral that is NOT a drop (connected=True, an
    MTU / status update) and then the regular answer - separately or in one chunk.  However the library reads the first message, the call ends with
    its result or with an error from the library's hierarchy, never with a raw ValueError / IndexError from unpacking what it collected."""
    from aioesphomeapi.core import APIConnectionError
    from vf.props import c16

    res = ctx.res
    idx = 0
    for name in c16.OPS:
        if name in ("device_connect", "device_disconnect"):
            continue
        for groups in (None, [2]):
            for extra in ([], [["conn", c16.A, 1]]):
                idx += 1
                if not ctx.mine(300 + idx):
                    continue
                case_ = {"ops": [{"op": name, "addr": c16.A, "handle": 1}], "replies": [["conn", c16.A, 1]] + extra + [["T", 0]], "answer_disconnect": False}
                if groups:
                    case_["groups"] = [len(case_["replies"])]
                o = c16.run_case(case_)
                if o.get("error"):
                    res.inconclusive.append(f"BLE status-update scenario: {o['error']}")
                    continue
                rec = o["recs"][0]
                res.evaluations += 1
                res.count("baseline/ble-status-update-then-answer")
                res.count("oracle_evaluations")
                res.sigs.add(f"ble-status/{name}/{bool(groups)}/{len(extra)}")
                case = {"spec": None, "ble_op": name, "status_update_then_answer": True, "one_chunk": bool(groups)}
                if not rec.done:
                    res.violation(f"C09/hang/{name}", f"{name}: status update + answer arrived but the call is still pending", case)
                elif rec.outcome == "raised" and not isinstance(rec.exc, APIConnectionError):
                    res.violation(f"C09/raw-exception/{name}/{type(rec.exc).__name__}", f"{name}: the proxy sent a connected=True status update for the peripheral and then "
                                  f"the answer; the call raised {rec.exc!r}", case, trace=o["trace"][-20:])


def two_rejections_first_wins(ctx: Ctx) -> None:
    """The device's hello is unacceptable (another name than expected / an unsupported major version) AND its login verdict is 'invalid password':
    two failures, reported in two messages in a fixed order (hello answer first).  The connect waiter observes the first one."""
    from aioesphomeapi.core import BadNameAPIError, InvalidAuthAPIError
    from vf.sim.device import DeviceConfig
    from vf.sim.scenario import Sim

    res = ctx.res
    idx = 0
    for first in ("other-name", "major-3"):
        for coalesce in (False, True):
            for split in (False, True):
                idx += 1
                if not ctx.mine(400 + idx):
                    continue
                with Sim() as sim:
                    cfg = DeviceConfig(name="somebody-else" if first == "other-name" else "dev", api_major=3 if first == "major-3" else 1, invalid_password=True)
                    cfg.coalesce_replies = coalesce
                    cfg.hello_name = cfg.name          # (the name IS in the hello: no firmware rotation here)
                    sim.device(cfg)
                    cli = sim.client(None, 6053, "pw", expected_name="dev")
                    if split:
                        c0 = sim.call("start", lambda: cli.start_connection())
                        sim.run(until=lambda: c0.done, max_time=sim.clock + 50)
                        c1 = sim.call("finish", lambda: cli.finish_connection(login=True))
                    else:
                        c1 = sim.call("connect", lambda: cli.connect(login=True))
                    sim.run(until=lambda: c1.done, max_time=sim.clock + 100)
                    res.evaluations += 1
                    res.count("baseline/two-rejections")
                    res.count("oracle_evaluations")
                    res.sigs.add(f"two-rejections/{first}/{coalesce}/{split}")
                    case = {"spec": None, "two_rejections": first + "+invalid-password", "one_chunk": coalesce, "split_connect": split}
                    e = c1.exc
                    ok = isinstance(e, BadNameAPIError) if first == "other-name" else (e is not None and "ncompatible" in str(e) and not isinstance(e, InvalidAuthAPIError))
                    if not ok:
                        res.violation(f"C09/first-cause-masked/{c1.name}", f"hello answer unacceptable ({first}) and login rejected, in that order: the call ended with {e!r}",
                                      case, trace=sim.trace(30))


def short_reject_then_hangup(ctx: Ctx) -> None:
    """An encrypted-only device answers a plaintext client with the first byte(s) of its reject - 1, 2 or 3 bytes starting with the 0x01
    indicator - and hangs up (FIN or RST), at once or a moment later; or a peer sends one byte of garbage and hangs up.  The first cause is what
    the byte says (requires encryption / invalid preamble), not the socket close that follows it."""
    from aioesphomeapi.core import ProtocolAPIError, RequiresEncryptionAPIError
    from vf.sim.device import DeviceConfig
    from vf.sim.scenario import Sim

    res = ctx.res
    idx = 0
    for first, want in ((b"\x01", RequiresEncryptionAPIError), (b"\x01\x00", RequiresEncryptionAPIError), (b"\x01\x00\x00", RequiresEncryptionAPIError),
                        (b"\x42", ProtocolAPIError), (b"\x42\x13", ProtocolAPIError)):
        for hangup in ("eof", "rst", "none"):
            for gap in (0.0, 0.01):
                for stage in ("hello", "session"):
                    idx += 1
                    if not ctx.mine(idx):
                        continue
                    with Sim() as sim:
                        cfg = DeviceConfig()

                        def reject(c: Any, m: Any = None, first: bytes = first, hangup: str = hangup, gap: float = gap) -> None:
                            items: list[tuple[Any, ...]] = [("raw", first)]
                            if hangup != "none" and gap == 0.0:
                                items.append(("eof",) if hangup == "eof" else ("rst", ConnectionResetError(104, "Connection reset by peer")))
                            c.deliver_items(items, 0.001)
                            if hangup != "none" and gap:
                                (c.eof if hangup == "eof" else c.rst)(0.001 + gap)

                        if stage == "hello":
                            cfg.handlers["HelloRequest"] = reject
                        dev = sim.device(cfg)
                        cli = sim.client(keepalive=1e5)
                        c0 = sim.call("connect", lambda: cli.connect(login=False))
                        sim.run(until=lambda: c0.done, max_time=sim.clock + 200)
                        if stage == "session":
                            if c0.outcome != "ok":
                                res.inconclusive.append(f"short reject: connect failed {c0.exc!r}")
                                continue
                            call = sim.call("device_info", lambda: cli.device_info())
                            cfg.handlers["DeviceInfoRequest"] = reject
                            sim.run(until=lambda: call.done, max_time=sim.clock + 200)
                        else:
                            call = c0
                        res.evaluations += 1
                        res.count("baseline/short-reject-then-hangup")
                        res.count("oracle_evaluations")
                        res.sigs.add(f"short-reject/{first.hex()}/{hangup}/{gap}/{stage}")
                        res.count(f"observed/c09/short-reject/{stage}/{first.hex()}/{hangup}/{type(call.exc).__name__ if call.exc else call.outcome}")
                        case = {"spec": None, "short_reject": {"bytes": first.hex(), "hangup": hangup, "gap": gap, "stage": stage}}
                        v = sim.conns[0] if sim.conns else None
                        F1 = v.fatals[0][2] if v is not None and v.fatals else None
                        if not call.done:
                            res.violation(f"C09/hang/{call.name}", f"peer sent {first.hex()} then {hangup}: {call.name}() still pending 200 s later", case, trace=sim.trace(30))
                            continue
                        if not isinstance(F1, want):
                            res.violation(f"C09/first-cause-class/short-reject/{first[:1].hex()}", f"peer sent the byte(s) {first.hex()} and then hung up ({hangup}, {gap}s later): "
                                          f"first fatal cause {F1!r}, expected {want.__name__}", case, trace=sim.trace(30))
                        elif call.outcome != "raised" or not (isinstance(call.exc, want) or F1 in _chain(call.exc)):
                            res.violation(f"C09/first-cause-masked/{call.name}", f"peer sent {first.hex()} then {hangup}: {call.name}() ended {call.outcome} {call.exc!r}, "
                                          f"first fatal cause {F1!r}", case, trace=sim.trace(30))


def _chain(e: Any) -> list[Any]:
    out = []
    while e is not None and len(out) < 6:
        out.append(e)
        e = e.__cause__
    return out


def stalled_writer_bounds(ctx: Ctx) -> None:
    """The device stops reading while the client has a lot queued (the transport passes its high-water mark and pauses the protocol): awaited
    calls made then - a request-response call, disconnect() - still end within their bound with a library error; nothing hangs."""
    import base64

    from aioesphomeapi.core import APIConnectionError
    from vf.sim.device import DeviceConfig
    from vf.sim.scenario import Sim

    res = ctx.res
    psk = bytes(range(9, 41))
    idx = 0
    for framing in ("plain", "noise"):
        for nbytes in (40 * 1024, 200 * 1024, 900 * 1024):
            for then in ("device_info", "disconnect", "device_info+force", "list_entities"):
                idx += 1
                if not ctx.mine(idx):
                    continue
                with Sim() as sim:
                    dev = sim.device(DeviceConfig(noise_psk=psk if framing == "noise" else None))
                    cli = sim.client(keepalive=1e5, **({"noise_psk": base64.b64encode(psk).decode()} if framing == "noise" else {}))
                    c0 = sim.call("connect", lambda: cli.connect(login=False))
                    sim.run(until=lambda: c0.done, max_time=sim.clock + 50)
                    if c0.outcome != "ok":
                        res.inconclusive.append(f"stalled writer: connect failed {c0.exc!r}")
                        continue
                    dev.conn.sock.send_fault = "block"
                    try:
                        for _ in range(nbytes // 1024):
                            cli.send_voice_assistant_audio(b"\x00" * 1024)
                    except APIConnectionError:
                        res.count("observed/c09/stalled-writer/library-refused-to-queue-more")    # (its right; the awaited calls below are still bounded)
                    except Exception as e:  # noqa: BLE001
                        res.evaluations += 1
                        res.violation(f"C09/raw-exception/send_voice_assistant_audio/{type(e).__name__}", f"{framing}: queuing data for a device that stopped reading "
                                      f"raised {e!r}", {"spec": None, "stalled_writer": {"framing": framing, "queued_bytes": nbytes, "then": then}}, trace=sim.trace(30))
                        continue
                    sim.run_for(0.01)
                    paused = any(getattr(t, "_protocol_paused", False) for t in sim.transports)
                    bound = {"device_info": 10.0, "disconnect": 15.0, "device_info+force": 10.0, "list_entities": 60.0}[then]
                    name = then.split("+")[0]
                    call = sim.call(name, lambda: cli.disconnect() if name == "disconnect" else cli.device_info() if name == "device_info" else cli.list_entities_services())
                    if then.endswith("+force"):
                        sim.run_for(1.0)
                        f = sim.call("force_disconnect", lambda: cli.disconnect(force=True))
                        bound = 1.0
                    sim.run(until=lambda: call.done, max_time=sim.clock + bound + 30)
                    res.evaluations += 1
                    res.count("baseline/device-stops-reading-then-call")
                    res.count("oracle_evaluations")
                    res.count(f"observed/c09/stalled-writer/protocol-paused={paused}/{then}/{call.outcome}/{type(call.exc).__name__ if call.exc else None}")
                    res.sigs.add(f"stalled-writer/{framing}/{nbytes}/{then}")
                    case = {"spec": None, "stalled_writer": {"framing": framing, "queued_bytes": nbytes, "then": then}}
                    dur = None if call.t_ret is None else call.t_ret - call.t_call
                    if not call.done:
                        res.violation(f"C09/hang/{name}", f"{framing}: device stopped reading with {nbytes} bytes queued (protocol paused: {paused}); {name}() still pending "
                                      f"{bound + 30:.0f}s later (bound {bound}s)", case, trace=sim.trace(30))
                    elif call.outcome == "raised" and not isinstance(call.exc, APIConnectionError):
                        res.violation(f"C09/raw-exception/{name}/{type(call.exc).__name__}", f"{name}() with a stalled writer raised {call.exc!r}", case, trace=sim.trace(30))
                    elif dur is not None and dur > bound + 1e-6:
                        res.violation(f"C09/over-bound/{name}", f"{name}() with a stalled writer took {dur:.3f}s, bound {bound}s", case, trace=sim.trace(30))


def overlapping_disconnects(ctx: Ctx) -> None:
    """Two disconnect() calls overlap (two parts of an application shutting down); one of them is cancelled by its caller while the device has
    not yet acknowledged: the other still returns normally, and nothing raw escapes from either."""
    from aioesphomeapi.core import APIConnectionError
    from vf.sim.device import DeviceConfig
    from vf.sim.scenario import Sim

    res = ctx.res
    idx = 0
    for answer_after in (1.0, None):
        for cancel_which in ("second", "first", "none", "both"):
            for gap in (0.0, 0.1):
                idx += 1
                if not ctx.mine(idx):
                    continue
                with Sim() as sim:
                    cfg = DeviceConfig(reply_delay=0.001)
                    if answer_after is None:
                        cfg.answer_disconnect = False
                    else:
                        cfg.handlers["DisconnectRequest"] = lambda c, m, d=answer_after: c.send("DisconnectResponse", _delay=d)
                    sim.device(cfg)
                    cli = sim.client(keepalive=1e5)
                    c0 = sim.call("connect", lambda: cli.connect(login=False))
                    sim.run(until=lambda: c0.done, max_time=sim.clock + 50)
                    if c0.outcome != "ok":
                        res.inconclusive.append(f"overlapping disconnects: connect failed {c0.exc!r}")
                        continue
                    a = sim.call("disconnect", lambda: cli.disconnect())
                    if gap:
                        sim.run_for(gap)
                    else:
                        sim.settle()
                    b = sim.call("disconnect", lambda: cli.disconnect())
                    sim.run_for(0.4)
                    for which, rec in (("first", a), ("second", b)):
                        if cancel_which in (which, "both") and not rec.done:
                            sim.cancel(rec)
                    sim.run(until=lambda: a.done and b.done, max_time=sim.clock + 40)
                    res.evaluations += 1
                    res.count("baseline/overlapping-disconnects")
                    res.count("oracle_evaluations")
                    res.sigs.add(f"overlap-disc/{answer_after}/{cancel_which}/{gap}")
                    case = {"spec": None, "overlapping_disconnects": {"device_answers_after": answer_after, "cancelled": cancel_which, "gap": gap}}
                    for which, rec in (("first", a), ("second", b)):
                        res.count(f"observed/c09/overlapping-disconnects/{which}/{rec.outcome}/{type(rec.exc).__name__ if rec.exc else None}")
                        cancelled = cancel_which in (which, "both")
                        if not rec.done:
                            res.violation("C09/hang/disconnect", f"{which} of two overlapping disconnect() calls still pending 40 s later (cancelled: {cancel_which})", case, trace=sim.trace(30))
                        elif rec.outcome == "raised" and not isinstance(rec.exc, APIConnectionError):
                            res.violation(f"C09/raw-exception/disconnect/{type(rec.exc).__name__}", f"{which} of two overlapping disconnect() calls raised {rec.exc!r} "
                                          f"(cancelled by its caller: {cancel_which})", case, trace=sim.trace(30))
                        elif rec.outcome == "cancelled" and not cancelled:
                            res.violation("C09/unrequested-cancel/disconnect", f"{which} disconnect() ended cancelled although only the {cancel_which} one was cancelled", case,
                                          trace=sim.trace(30))


def calls_from_inside_an_exception_handler(ctx: Ctx) -> None:
    """The application awaits the client from INSIDE an `except` body - the usual shape of a fallback ("primary address refused: try the other one in the
    handler") or of clean-up after its own deadline: while the call runs, and when it ends, the task is handling an exception (sys.exc_info() is not
    empty in any frame of the await chain).  That state is the caller's business: against a healthy device every connect phase and request still
    ends with its result, against a dead one with an error of the library's hierarchy - never with a raw AttributeError / TypeError."""
    import asyncio
    import base64

    from aioesphomeapi.core import APIConnectionError
    from vf.sim.device import DeviceConfig
    from vf.sim.scenario import Sim  # noqa: PLC0415

    res = ctx.res
    psk = bytes(range(3, 35))
    classes = {"OSError": OSError, "KeyError": KeyError, "TimeoutError": TimeoutError, "CancelledError": asyncio.CancelledError,
               "APIConnectionError": APIConnectionError}
    idx = 0
    for framing in ("plain", "noise"):
        for amb in classes:
            for form in ("connect", "two-phases", "two-phases/finish-outside", "connect(login)"):
                for world in ("healthy", "refused", "hangs-up-after-hello"):
                    idx += 1
                    if not ctx.mine(idx):
                        continue
                    with Sim() as sim:
                        cfg = DeviceConfig(noise_psk=psk if framing == "noise" else None)
                        cfg.hello_name = cfg.name    # (this scenario is about the caller's state, not about the firmware flavour)
                        if world == "hangs-up-after-hello":
                            cfg.handlers["ConnectRequest"] = lambda c, m: c.eof(0.0)
                            cfg.handlers["DeviceInfoRequest"] = lambda c, m: c.eof(0.0)
                        dev = sim.device(cfg)
                        if world == "refused":
                            sim.net.connect_policy = lambda sock, addr: ("refuse", 0.001)
                        cli = sim.client(**({"noise_psk": base64.b64encode(psk).decode()} if framing == "noise" else {}))
                        log: list[tuple[str, str, Any]] = []

                        async def step(name: str, factory: Any, log: list[Any] = log) -> bool:
                            try:
                                r = await factory()
                            except BaseException as e:  # noqa: BLE001
                                log.append((name, "raised", e))
                                return False
                            log.append((name, "ok", r))
                            return True

                        async def app(cli: Any = cli, amb: str = amb, form: str = form, step: Any = step) -> None:
                            try:
                                raise classes[amb]("first attempt failed")
                            except classes[amb]:
                                if form.startswith("connect"):
                                    ok = await step("connect", lambda: cli.connect(login=form.endswith("(login)")))
                                else:
                                    ok = await step("start_connection", lambda: cli.start_connection())
                                    if ok and form == "two-phases":
                                        ok = await step("finish_connection", lambda: cli.finish_connection(login=False))
                                if ok and not form.endswith("finish-outside"):
                                    await step("device_info", lambda: cli.device_info())
                            if form.endswith("finish-outside") and log and log[-1][1] == "ok":
                                if await step("finish_connection", lambda: cli.finish_connection(login=False)):
                                    await step("device_info", lambda: cli.device_info())
                            await step("disconnect", lambda: cli.disconnect(force=True))

                        a = sim.call("app", app)
                        sim.run(until=lambda: a.done, max_time=sim.clock + 200)
                        res.evaluations += 1
                        res.count("workload/calls-from-inside-an-exception-handler")
                        res.count(f"caller-handling/{amb}/{world}")
                        res.sig("inside-handler", framing, amb, form, world)
                        case = {"spec": None, "inside_exception_handler": {"framing": framing, "handling": amb, "form": form, "world": world}}
                        if not a.done:
                            res.violation("C09/unbounded/calls-inside-handler", f"the application task is still pending 200 s later; steps so far {[(n, o) for n, o, _ in log]}", case,
                                          trace=sim.trace(30))
                            continue
                        for name, outcome, val in log:
                            if outcome == "raised" and not isinstance(val, APIConnectionError):
                                res.violation(f"C09/raw-exception/{name}/{type(val).__name__}", f"{framing}, {world} device: {name}() awaited inside an `except {amb}` body "
                                              f"raised {val!r}", case, trace=sim.trace(30))
                            elif outcome == "raised" and world == "healthy":
                                res.violation(f"C09/failed-against-healthy-device/{name}", f"{framing}: {name}() awaited inside an `except {amb}` body against a healthy device "
                                              f"raised {val!r}", case, trace=sim.trace(30))
                        if world == "healthy" and [n for n, o, _ in log if o == "ok"][-2:-1] != ["device_info"]:
                            res.violation("C09/failed-against-healthy-device/steps", f"{framing}: steps {[(n, o) for n, o, _ in log]}", case, trace=sim.trace(30))


def shard(ctx: Ctx) -> None:
    from vf.sim import device as _device_fw  # noqa: PLC0415

    _device_fw.ROTATE_FIRMWARE = True    # the firmware flavour of default devices rotates (hello without a name, API 1.2 / 1.8 / 1.12, deep sleep)
    short_reject_then_hangup(ctx)
    stalled_writer_bounds(ctx)
    overlapping_disconnects(ctx)
    ble_time_bounds(ctx)
    ble_drop_reasons(ctx)
    two_rejections_first_wins(ctx)
    ble_status_update_then_answer(ctx)
    rejection_then_hangup(ctx)
    sweep.standard_sweep(ctx, PROP)
    sweep.same_turn_pairs_sweep(ctx, PROP)
    sweep.stalled_connect_sweep(ctx, PROP)
    sweep.high_water_sweep(ctx, PROP)
    sweep.deadline_sweep(ctx, PROP)
    sweep.keepalive_values_sweep(ctx, PROP)
    sweep.hello_content_sweep(ctx, PROP)
    sweep.reconnect_in_on_stop_sweep(ctx, PROP)
    sweep.abandoned_disconnect_sweep(ctx, PROP)
    sweep.crossing_requests_sweep(ctx, PROP)
    calls_from_inside_an_exception_handler(ctx)
    sweep.connect_fault_sweep(ctx, PROP)
    sweep.duplicate_answers_sweep(ctx, PROP)
    sweep.pair_sweep(ctx, PROP, 5000 if ctx.thorough else 250)

"""C09 — see DESIGN.md §4 C09. Engine S: fault x injection-point sweep over connection-lifecycle scenarios."""

from __future__ import annotations

from typing import Any

from vf.common import Ctx
from vf.sim import sweep

PROP = "C09"
BUDGET_S = {"quick": 300, "thorough": 3000}
MIN_EVALS = {"quick": 1500, "thorough": 15000}
ASSUMPTIONS = [
    "real asyncio selector loop + real library; sockets, selector, clock, DNS and the peer are simulated (calibrated against real sockets in setup)",
    "interleavings are those reachable under stock asyncio scheduling on a selector loop; other loops are represented by the write-raises fault",
    "one or two faults per scenario; liveness is bounded progress in virtual time (horizon 400 s > every documented timeout)",
]


def replay(spec: dict[str, Any]) -> int:
    return sweep.replay(PROP, spec)

LEVEL = "fault_enumeration"
RULE = ("same fault x injection-point enumeration as C05 incl. resolver/connect faults (error, hang) and ordered fault pairs; the call recorder "
        "keeps (op, t_call, t_return, outcome, exception chain) in virtual time. Oracle: (1) every call returns within its documented bound and "
        "none is pending at the 400 s horizon or when the world is idle forever; (2) every raised exception is an APIConnectionError (CancelledError "
        "only for the task the harness cancelled); (3) the first report_fatal_error of a connection has the class/marker the fault table predicts and "
        "every waiter failing afterwards carries that first cause; same-turn pairs of a network close cause and a user action (both orders), stalled-connect "
        "histories (disconnect during a stuck hello, its 5 s wait expiring, optional cancel, late hello, then the link dies), duplicate answers in one chunk, "
        "rejection worlds (wrong password / name / key / version) x user actions, rejection + hang-up in one chunk. Distinct = trace signature")


def rejection_then_hangup(ctx: Ctx) -> None:
    """First cause wins in the connect phase too: the device REJECTS the client (wrong password / other name / incompatible version) and hangs up
    right behind that answer, in the same chunk (DisconnectRequest or garbage) - connect() must report the rejection, not what followed it."""
    import itertools

    from aioesphomeapi.core import APIConnectionError, BadNameAPIError, InvalidAuthAPIError
    from vf.props import c06

    res = ctx.res
    idx = 0
    for framing, reject, pk in itertools.product(("plain", "noise"), ("password", "name", "version"), ("one-chunk+peer-disconnect", "one-chunk+garbage")):
        idx += 1
        if not ctx.mine(idx):
            continue
        row = {"major": 3 if reject == "version" else 1, "minor": 10, "api_name": "other" if reject == "name" else "equal", "noise_name": "equal" if framing == "noise" else "absent",
               "framing": framing, "invalid_password": reject == "password", "login": True, "expected_set": True, "packaging": pk, "password": "pw"}
        o = c06.run_case(row)
        res.evaluations += 1
        res.count("baseline/rejection-then-hangup")
        res.count("oracle_evaluations")
        res.sigs.add(f"rej/{framing}/{reject}/{pk}")
        e = o["exc"]
        ok = (reject == "password" and isinstance(e, InvalidAuthAPIError)) or (reject == "name" and isinstance(e, BadNameAPIError)) or \
            (reject == "version" and type(e) is APIConnectionError and "ncompatible" in str(e))
        res.count(f"observed/c09/rejection-then-hangup/{type(e).__name__ if e else o['outcome']}")
        if not ok:
            res.violation(f"C09/first-cause-masked/connect-rejection/{reject}", f"{framing}: device rejected the client ({reject}) and hung up behind the answer ({pk}); "
                          f"connect() ended {o['outcome']} {e!r}", {"spec": None, "row": row}, trace=o["trace"])


def shard(ctx: Ctx) -> None:
    rejection_then_hangup(ctx)
    sweep.standard_sweep(ctx, PROP)
    sweep.same_turn_pairs_sweep(ctx, PROP)
    sweep.stalled_connect_sweep(ctx, PROP)
    sweep.connect_fault_sweep(ctx, PROP)
    sweep.duplicate_answers_sweep(ctx, PROP)
    sweep.pair_sweep(ctx, PROP, 5000 if ctx.thorough else 250)

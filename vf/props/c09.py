"""C09 — see DESIGN.md §4 C09. Engine S: fault x injection-point sweep over connection-lifecycle scenarios."""

from __future__ import annotations

from typing import Any

from vf.common import Ctx
from vf.sim import sweep

PROP = "C09"
BUDGET_S = {"quick": 300, "thorough": 3000}
MIN_EVALS = {"quick": 1500, "thorough": 15000}
ASSUMPTIONS = [
    "real asyncio selector loop + real library; sockets, selector, clock, DNS and the peer are simulated (calibrated against real sockets in setup)",
    "interleavings are those reachable under stock asyncio scheduling on a selector loop; other loops are represented by the write-raises fault",
    "one or two faults per scenario; liveness is bounded progress in virtual time (horizon 400 s > every documented timeout)",
]


def replay(spec: dict[str, Any]) -> int:
    return sweep.replay(PROP, spec)

LEVEL = "fault_enumeration"
RULE = ("same fault x injection-point enumeration as C05 incl. resolver/connect faults (error, hang) and ordered fault pairs; the call recorder "
        "keeps (op, t_call, t_return, outcome, exception chain) in virtual time. Oracle: (1) every call returns within its documented bound and "
        "none is pending at the 400 s horizon or when the world is idle forever; (2) every raised exception is an APIConnectionError (CancelledError "
        "only for the task the harness cancelled); (3) the first report_fatal_error of a connection has the class/marker the fault table predicts and "
        "every waiter failing afterwards carries that first cause; same-turn pairs of a network close cause and a user action (both orders), stalled-connect "
        "histories (disconnect during a stuck hello, its 5 s wait expiring, optional cancel, late hello, then the link dies), duplicate answers in one chunk, "
        "rejection worlds (wrong password / name / key / version) x user actions, rejection + hang-up in one chunk. Distinct = trace signature")


def rejection_then_hangup(ctx: Ctx) -> None:
    """First cause wins in the connect phase too: the device REJECTS the client (wrong password / other name / incompatible version) and hangs up
    right behind that answer, in the same chunk (DisconnectRequest or garbage) - connect() must report the rejection, not what followed it."""
    import itertools

    from aioesphomeapi.core import APIConnectionError, BadNameAPIError, InvalidAuthAPIError
    from vf.props import c06

    res = ctx.res
    idx = 0
    for framing, reject, pk in itertools.product(("plain", "noise"), ("password", "name", "version"), ("one-chunk+peer-disconnect", "one-chunk+garbage")):
        idx += 1
        if not ctx.mine(idx):
            continue
        row = {"major": 3 if reject == "version" else 1, "minor": 10, "api_name": "other" if reject == "name" else "equal", "noise_name": "equal" if framing == "noise" else "absent",
               "framing": framing, "invalid_password": reject == "password", "login": True, "expected_set": True, "packaging": pk, "password": "pw"}
        o = c06.run_case(row)
        res.evaluations += 1
        res.count("baseline/rejection-then-hangup")
        res.count("oracle_evaluations")
        res.sigs.add(f"rej/{framing}/{reject}/{pk}")
        e = o["exc"]
        ok = (reject == "password" and isinstance(e, InvalidAuthAPIError)) or (reject == "name" and isinstance(e, BadNameAPIError)) or \
            (reject == "version" and type(e) is APIConnectionError and "ncompatible" in str(e))
        res.count(f"observed/c09/rejection-then-hangup/{type(e).__name__ if e else o['outcome']}")
        if not ok:
            res.violation(f"C09/first-cause-masked/connect-rejection/{reject}", f"{framing}: device rejected the client ({reject}) and hung up behind the answer ({pk}); "
                          f"connect() ended {o['outcome']} {e!r}", {"spec": None, "row": row}, trace=o["trace"])


def ble_time_bounds(ctx: Ctx) -> None:
    """Bluetooth request-response calls against a proxy that never answers: each ends with TimeoutAPIError exactly at its timeout;
    bluetooth_device_connect at timeout + disconnect_timeout (it first asks the proxy to disconnect and waits for that, bounded too)."""
    from aioesphomeapi.core import TimeoutAPIError
    from vf.props import c16

    res = ctx.res
    idx = 0
    for name in c16.OPS:
        if name == "get_services":
            continue   # documented bound 30 s, same mechanism; covered by C16
        idx += 1
        if not ctx.mine(idx):
            continue
        o = c16.run_case({"ops": [{"op": name, "addr": c16.A, "handle": 1}], "replies": [], "answer_disconnect": False})
        if o.get("error"):
            res.inconclusive.append(f"BLE time bound scenario: {o['error']}")
            continue
        rec = o["recs"][0]
        res.evaluations += 1
        res.count("baseline/ble-silent-proxy")
        res.count("oracle_evaluations")
        res.sigs.add(f"ble-bound/{name}")
        bound = c16.TIMEOUT + (0.5 if name == "device_connect" else 0.0)
        dur = None if rec.t_ret is None else rec.t_ret - rec.t_call
        res.count(f"observed/c09/ble-silent/{name}/{rec.outcome}/{type(rec.exc).__name__ if rec.exc else None}")
        if not rec.done:
            res.violation(f"C09/hang/{name}", f"{name} against a silent proxy still pending", {"spec": None, "ble_op": name})
        elif rec.outcome != "raised" or not isinstance(rec.exc, TimeoutAPIError):
            res.violation(f"C09/raw-exception/{name}/{type(rec.exc).__name__}", f"{name} against a silent proxy ended {rec.outcome} {rec.exc!r}", {"spec": None, "ble_op": name})
        elif abs(dur - bound) > 1e-6:
            res.violation(f"C09/over-bound/{name}" if dur > bound else f"C09/under-bound/{name}", f"{name} against a silent proxy took {dur:.4f}s, documented bound {bound}s "
                          f"(timeout {c16.TIMEOUT}s" + (", disconnect_timeout 0.5s)" if name == "device_connect" else ")"), {"spec": None, "ble_op": name}, trace=o["trace"][-30:])


def ble_drop_reasons(ctx: Ctx) -> None:
    """A Bluetooth request is in flight and the proxy reports that the peripheral dropped, with every possible reason code: the call ends at
    once with an error from the library's hierarchy -- building the error text from an unknown code must not let a raw error escape."""
    from aioesphomeapi.core import APIConnectionError
    from vf.props import c16

    res = ctx.res
    idx = 0
    for oi, name in enumerate(c16.OPS):
        for reason in c16.DROP_REASONS:
            if not (ctx.thorough or name in ("read", "pair") or (reason + oi) % 4 == 0):
                continue
            idx += 1
            if not ctx.mine(idx):
                continue
            o = c16.run_case({"ops": [{"op": name, "addr": c16.A, "handle": 1}], "replies": [["conn", c16.A, 0, reason]], "answer_disconnect": False})
            if o.get("error"):
                res.inconclusive.append(f"BLE drop scenario: {o['error']}")
                continue
            rec = o["recs"][0]
            res.evaluations += 1
            res.count("baseline/ble-drop-reasons")
            res.count("oracle_evaluations")
            res.sigs.add(f"ble-drop/{name}/{reason}")
            res.count(f"observed/c09/ble-drop/{name}/{rec.outcome}/{type(rec.exc).__name__ if rec.exc else None}")
            case = {"spec": None, "ble_op": name, "reason": reason}
            if not rec.done:
                res.violation(f"C09/hang/{name}", f"{name}: proxy reported a drop (reason {reason}) but the call is still pending", case)
            elif rec.outcome == "raised" and not isinstance(rec.exc, APIConnectionError):
                res.violation(f"C09/raw-exception/{name}/{type(rec.exc).__name__}", f"{name}: proxy reported a drop with reason {reason}; the call raised {rec.exc!r}", case, trace=o["trace"][-20:])
            elif rec.t_ret - rec.t_call > 0.02 + 1e-6 and name != "device_connect":
                res.violation(f"C09/over-bound/{name}", f"{name}: drop reported after 0.01 s, call ended after {rec.t_ret - rec.t_call:.4f}s", case)


def shard(ctx: Ctx) -> None:
    ble_time_bounds(ctx)
    ble_drop_reasons(ctx)
    rejection_then_hangup(ctx)
    sweep.standard_sweep(ctx, PROP)
    sweep.same_turn_pairs_sweep(ctx, PROP)
    sweep.stalled_connect_sweep(ctx, PROP)
    sweep.abandoned_disconnect_sweep(ctx, PROP)
    sweep.connect_fault_sweep(ctx, PROP)
    sweep.duplicate_answers_sweep(ctx, PROP)
    sweep.pair_sweep(ctx, PROP, 5000 if ctx.thorough else 250)

"""C07 — see DESIGN.md §4 C07. Engine S: fault x injection-point sweep over connection-lifecycle scenarios."""

from __future__ import annotations

from typing import Any

from vf.common import Ctx
from vf.sim import sweep

PROP = "C07"
BUDGET_S = {"quick": 300, "thorough": 3000}
MIN_EVALS = {"quick": 1500, "thorough": 15000}
ASSUMPTIONS = [
    "real asyncio selector loop + real library; sockets, selector, clock, DNS and the peer are simulated (calibrated against real sockets in setup)",
    "interleavings are those reachable under stock asyncio scheduling on a selector loop; other loops are represented by the write-raises fault",
    "one or two faults per scenario; liveness is bounded progress in virtual time (horizon 400 s > every documented timeout)",
]


def replay(spec: dict[str, Any]) -> int:
    return sweep.replay(PROP, spec)

LEVEL = "fault_enumeration"
RULE = ("same fault x injection-point enumeration as C05 plus ordered pairs of close causes at two points; the monitor counts on_stop calls per "
        "APIConnection object (wrapper installed at construction), whether CONNECTED was ever written, and graceful-initiation events "
        "(force_disconnect entry, disconnect entry with state, DisconnectRequest handed to process_packet with state). Oracle: count = 1 iff "
        "CONNECTED reached (judged once the connection is CLOSED), argument True if a certain graceful initiation precedes the call, False if none "
        "of any kind precedes it, not judged when the only initiation is a disconnect() entered before CONNECTED. The application's own callback "
        "is distinct per session (tagged) and must be invoked exactly once with the same argument, including for sessions that were opened on the same "
        "client object from inside the previous session's stop callback. Distinct = trace signature")


def shard(ctx: Ctx) -> None:
    from vf.sim import device as _device_fw  # noqa: PLC0415

    _device_fw.ROTATE_FIRMWARE = True    # the firmware flavour of default devices rotates (hello without a name, API 1.2 / 1.8 / 1.12, deep sleep)
    sweep.standard_sweep(ctx, PROP)
    sweep.same_turn_pairs_sweep(ctx, PROP)
    sweep.stalled_connect_sweep(ctx, PROP)
    sweep.high_water_sweep(ctx, PROP)
    sweep.deadline_sweep(ctx, PROP)
    sweep.keepalive_values_sweep(ctx, PROP)
    sweep.hello_content_sweep(ctx, PROP)
    sweep.abandoned_disconnect_sweep(ctx, PROP)
    sweep.crossing_requests_sweep(ctx, PROP)
    sweep.reconnect_in_on_stop_sweep(ctx, PROP)
    sweep.outside_loop_client_sweep(ctx, PROP)
    sweep.dropped_client_sweep(ctx, PROP)
    kinds = ["force", "disconnect", "eof", "rst", "garbage", "bad_pb", "peer_disconnect", "sendfail", "writeraise", "silence", "cancel"]
    sweep.pair_sweep(ctx, PROP, 4000 if ctx.thorough else 250, kinds)

"""C03 part S - the Noise session set-up end to end: real APIClient.connect() on the simulated loop against the independent Noise device,
with the device's hello + handshake (+ unsolicited data frames written right behind the handshake) cut at every offset of the chunk."""

from __future__ import annotations

import base64
from typing import Any

from vf import refcodec
from vf.common import Ctx
from vf.sim.device import DeviceConfig
from vf.sim.scenario import Sim

PSK = bytes(range(11, 43))


def run_case(cuts: list[int] | None, n_data: int, name: str | None, expected: str | None, early_send: bool = False, login: bool = False) -> dict[str, Any]:
    from aioesphomeapi import api_pb2 as pb

    with Sim() as sim:
        cfg = DeviceConfig(name="dev", noise_psk=PSK, noise_name=None if name is None else name.encode())
        cfg.coalesce_replies = True
        cfg.coalesce_cuts = cuts
        if n_data:
            # unsolicited state messages written in the same chunk as the handshake reply (device-side hook on the first encrypted-capable moment)
            orig = cfg.handlers.get("HelloRequest")
        dev = sim.device(cfg)
        sent_keys: list[int] = []

        def on_accept(c: Any) -> None:
            real_on_noise = c._on_noise  # noqa: SLF001

            def patched(data: bytes) -> None:
                before = c.noise_state
                real_on_noise(data)
                if before != "ready" and c.noise_state == "ready" and n_data:
                    for k in range(n_data):
                        sent_keys.append(100 + k)
                        c.send("SensorStateResponse", key=100 + k, state=float(k))

            c._on_noise = patched  # type: ignore[method-assign]  # noqa: SLF001

        dev.on_accept = on_accept
        kw: dict[str, Any] = {"noise_psk": base64.b64encode(PSK).decode()}
        if expected is not None:
            kw["expected_name"] = expected
        cli = sim.client(password="pw" if login else None, **kw)
        c0 = sim.call("connect", lambda: cli.connect(on_stop=sim.on_stop_cb(), login=login))
        early: dict[str, Any] = {}
        if early_send:
            cfg.noise_silent = True

            def probe() -> None:
                conn = cli._connection  # noqa: SLF001
                if conn is None:
                    return
                n_w = sum(len(t.sim_writes) for t in sim.transports)
                try:
                    conn.send_messages((pb.PingRequest(),))
                    early["raised"] = None
                except Exception as e:  # noqa: BLE001
                    early["raised"] = e
                early["writes"] = sum(len(t.sim_writes) for t in sim.transports) - n_w
                early["state"] = conn.connection_state.name

            sim.after(0.5, probe)
        sim.run(until=lambda: c0.done, max_time=sim.clock + 100)
        sim.run_for(0.05)
        v = sim.conns[0] if sim.conns else None
        pk = [p for p in (v.packets if v else [])]
        out = {"call": c0, "packets": pk, "sent_keys": sent_keys, "early": early, "trace": sim.trace(50),
               "state": v.obj.connection_state.name if v else None, "harness_errors": list(sim.harness_errors),
               "dev_rx": dev.conn.received_names() if dev.conns else [], "decode_errors": list(dev.conn.decode_errors) if dev.conns else []}
        if c0.outcome == "ok":
            d = sim.call("bye", lambda: cli.disconnect(force=True))
            sim.run(until=lambda: d.done, max_time=sim.clock + 5)
        return out


def key_spellings(ctx: Ctx) -> None:
    """'Holding the same key': the key is 32 bytes; the client is given their base64 text.  Spellings of that text which the standard decoder reads
    as the same 32 bytes - a trailing newline or CRLF (a secrets file), blanks around it (a pasted value), a line break inside (a wrapped YAML
    scalar), a str subclass - configure the same key: the handshake completes and messages flow."""
    from aioesphomeapi import api_pb2 as pb

    res = ctx.res
    b64 = base64.b64encode(PSK).decode()

    class S(str):
        pass

    forms = {"plain": b64, "trailing-newline": b64 + "\n", "trailing-crlf": b64 + "\r\n", "blanks-around": "  " + b64 + " ", "wrapped": b64[:20] + "\n" + b64[20:],
             "str-subclass": S(b64), "tab-and-newline": "\t" + b64 + "\n"}
    for j, (label, text) in enumerate(forms.items()):
        if not ctx.mine(800 + j):
            continue
        with Sim() as sim:
            dev = sim.device(DeviceConfig(name="dev", noise_psk=PSK))
            cli = sim.client(noise_psk=text, keepalive=1e5)
            c0 = sim.call("connect", lambda: cli.connect(on_stop=sim.on_stop_cb(), login=False))
            sim.run(until=lambda: c0.done, max_time=sim.clock + 100)
            got: list[Any] = []
            if c0.outcome == "ok":
                cli.subscribe_states(got.append)
                sim.run_for(0.01)
                dev.conn.send_msg(pb.SensorStateResponse(key=4, state=2.5))
                sim.run_for(0.01)
            res.evaluations += 1
            res.count("S/key-spellings")
            res.sig("S-key-spelling", label)
            case = {"part": "S", "key_spelling": label}
            if c0.outcome != "ok":
                res.violation("C03/S/connect-failed", f"key text spelled {label!r} (decodes to the device's 32 bytes): connect() failed with {c0.exc!r}", case, trace=sim.trace(30))
            elif [type(x).__name__ for x in got] != ["SensorState"]:
                res.violation("C03/S/delivery", f"key text spelled {label!r}: delivered {got!r:.80}", case)
            if c0.outcome == "ok":
                d = sim.call("bye", lambda: cli.disconnect(force=True))
                sim.run(until=lambda: d.done, max_time=sim.clock + 5)


def name_in_force(ctx: Ctx) -> None:
    """'Configured' is whatever the application last set on the client (constructor argument or the public expected_name setter) by the time the
    server hello is evaluated: set before the connect, between start_connection() and finish_connection(), or while connect() is still
    resolving the host name; set to a name or cleared."""
    from aioesphomeapi.core import BadNameAPIError

    res = ctx.res
    idx = 0
    for when in ("before-start", "between-phases", "during-resolve"):
        for announced in ("dev", "renamed"):
            for initial, final in ((None, "dev"), ("dev", None), ("dev", "renamed"), ("renamed", "dev"), ("old", "old"), (None, None)):
                idx += 1
                if not ctx.mine(500 + idx):
                    continue
                with Sim() as sim:
                    cfg = DeviceConfig(name=announced, noise_psk=PSK, noise_name=announced.encode())
                    dev = sim.device(cfg)
                    kw: dict[str, Any] = {"noise_psk": base64.b64encode(PSK).decode()}
                    if initial is not None:
                        kw["expected_name"] = initial
                    if when == "during-resolve":
                        sim.net.dns["dev.example"] = ("delay", 2.0, ["10.0.0.1"])
                        cli = sim.client("dev.example", **kw)
                        c0 = sim.call("connect", lambda: cli.connect(on_stop=sim.on_stop_cb(), login=False))
                        sim.run_for(1.0)
                        cli.expected_name = final
                    elif when == "between-phases":
                        cli = sim.client(**kw)
                        c1 = sim.call("start", lambda: cli.start_connection(on_stop=sim.on_stop_cb()))
                        sim.run(until=lambda: c1.done, max_time=sim.clock + 100)
                        if c1.outcome != "ok":
                            res.inconclusive.append(f"C03 part S: start_connection failed {c1.exc!r}")
                            continue
                        cli.expected_name = final
                        c0 = sim.call("finish", lambda: cli.finish_connection(login=False))
                    else:
                        cli = sim.client(**kw)
                        cli.expected_name = final
                        c0 = sim.call("connect", lambda: cli.connect(on_stop=sim.on_stop_cb(), login=False))
                    sim.run(until=lambda: c0.done, max_time=sim.clock + 200)
                    res.evaluations += 1
                    res.count(f"S/name-in-force/{when}")
                    res.sig("S-name-in-force", when, announced, initial, final)
                    case = {"part": "S", "noise_name": announced, "expected_initially": initial, "expected_in_force": final, "set": when}
                    ok = final is None or final == announced
                    if sim.harness_errors:
                        res.inconclusive.append("C03 part S: " + sim.harness_errors[0][-300:])
                    elif ok and c0.outcome != "ok":
                        res.violation("C03/S/name-accepted-case-failed", f"expected_name was {initial!r}, set to {final!r} {when}; device announces {announced!r}: "
                                      f"connect failed with {c0.exc!r}", case, trace=sim.trace(30))
                    elif not ok and c0.outcome == "ok":
                        res.violation("C03/S/name-mismatch-accepted", f"expected_name was {initial!r}, set to {final!r} {when}; device announces {announced!r}: "
                                      f"the session was accepted", case, trace=sim.trace(30))
                    elif not ok and (not isinstance(c0.exc, BadNameAPIError) or c0.exc.received_name != announced):
                        res.violation("C03/S/name-mismatch-error", f"{when}: raised {c0.exc!r}, expected BadNameAPIError({announced!r})", case, trace=sim.trace(30))
                    if c0.outcome == "ok":
                        d = sim.call("bye", lambda: cli.disconnect(force=True))
                        sim.run(until=lambda: d.done, max_time=sim.clock + 5)


def shard(ctx: Ctx) -> None:
    from aioesphomeapi.core import BadNameAPIError, ConnectionNotEstablishedAPIError

    name_in_force(ctx)
    key_spellings(ctx)

    res = ctx.res
    # length of the device's first chunk: hello frame + handshake frame (+ data frames)
    hello_len = 3 + 1 + 3 + 1
    hs_len = 3 + 1 + 48
    idx = 0
    for n_data in (0, 2):
        total = hello_len + hs_len + n_data * (3 + 4 + 7 + 16)
        cut_sets: list[list[int] | None] = [None] + [[c] for c in range(1, total)] + [[1, 2, 3], list(range(1, total))]
        for cuts in cut_sets:
            idx += 1
            if not ctx.mine(idx):
                continue
            login = idx % 3 == 0    # with login the client's first encrypted write is a BATCH of two messages (hello + connect)
            o = run_case(cuts, n_data, "dev", "dev" if idx % 2 else None, login=login)
            res.evaluations += 1
            res.count("S/end-to-end-sessions")
            if o["harness_errors"]:
                res.inconclusive.append("C03 part S: " + o["harness_errors"][0][-300:])
                continue
            res.sig("S", n_data, None if cuts is None else (len(cuts), cuts[0]))
            case = {"part": "S", "cuts": cuts, "n_data": n_data}
            if o["call"].outcome != "ok":
                res.violation("C03/S/connect-failed", f"connect() against a conformant Noise device with its first chunk cut at {cuts}: {o['call'].exc!r}", case, trace=o["trace"])
                continue
            got = [p[1] for p in o["packets"]]
            # unsolicited states (id 25) must arrive once each, in order, before the HelloResponse (id 2) that was written after them
            states = [i for i, t in enumerate(got) if t == 25]
            if len(states) != n_data or (n_data and 2 in got and got.index(2) < states[-1]):
                res.violation("C03/S/delivery", f"process_packet saw type sequence {got}; device wrote {n_data} states behind the handshake, then HelloResponse", case, trace=o["trace"])
            if o["decode_errors"]:
                res.violation("C03/S/client-bytes", str(o["decode_errors"][:2]), case)
            if login and o["dev_rx"][:2] != ["HelloRequest", "ConnectRequest"]:
                res.violation("C03/S/client-bytes", f"the conformant responder decrypted {o['dev_rx']} from the client's login batch", case)
    # name rule end to end
    for name, expected, ok in (("dev", "dev", True), ("other", "dev", False), ("Dev", "dev", False), (None, "dev", True), ("", "dev", False), ("dev", None, True)):
        idx += 1
        if not ctx.mine(idx):
            continue
        o = run_case(None, 0, name, expected)
        res.evaluations += 1
        res.count("S/name-rule-sessions")
        res.sig("S-name", name, expected)
        case = {"part": "S", "noise_name": name, "expected": expected}
        c = o["call"]
        if ok and c.outcome != "ok":
            # (the API hello name is 'dev' too; with noise name None the API-level check still passes)
            res.violation("C03/S/name-accepted-case-failed", f"connect() failed with {c.exc!r}", case, trace=o["trace"])
        if not ok:
            if c.outcome == "ok":
                res.violation("C03/S/name-mismatch-accepted", f"connect() succeeded although the noise hello announced {name!r} and {expected!r} was expected", case, trace=o["trace"])
            elif not isinstance(c.exc, BadNameAPIError) or c.exc.received_name != name:
                res.violation("C03/S/name-mismatch-error", f"connect() raised {c.exc!r} (received_name={getattr(c.exc, 'received_name', None)!r}), expected BadNameAPIError({name!r})", case, trace=o["trace"])
            if "HelloRequest" in o["dev_rx"]:
                res.violation("C03/S/hello-sent-to-wrong-device", f"client went on to send {o['dev_rx']}", case)
    # sending before readiness
    idx += 1
    if ctx.mine(idx):
        o = run_case(None, 0, "dev", None, early_send=True)
        res.evaluations += 1
        res.count("S/early-send-probes")
        res.sig("S-early")
        e = o["early"]
        case = {"part": "S", "probe": "send before readiness"}
        if not e:
            res.inconclusive.append("C03 part S: early-send probe never ran")
        else:
            if not isinstance(e["raised"], ConnectionNotEstablishedAPIError):
                res.violation("C03/S/send-before-ready", f"send_messages before the handshake completed (state {e['state']}) -> {e['raised']!r}", case, trace=o["trace"])
            if e["writes"]:
                res.violation("C03/S/write-before-ready", f"{e['writes']} transport writes before readiness", case, trace=o["trace"])

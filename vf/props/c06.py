"""C06 — sessions only with a compatible, correctly named, authenticated device (engine S).

Finite matrix of hello/connect responses x client configurations, run end to end
(APIClient.connect against the simulated device); the outcome is judged by a
decision function written from the statement.
"""

from __future__ import annotations

import base64
import itertools
from typing import Any

from vf.common import Ctx
from vf.sim.device import DeviceConfig, DeviceConn
from vf.sim.scenario import Sim

LEVEL = "exploration"
RULE = ("matrix: api major {0,1,2,3,4,2^32-1} x minor {0,9,10,2^32-1} x API-hello name {equal, other, case-variant, prefix, unicode, empty} x "
        "noise-hello name {same set + absent} x invalid_password x login x password set/unset x expected name set/unset (lower-case, mixed-case, upper-case, non-ASCII spellings; constructor or setter) x framing x response "
        "packaging {separate chunks, one chunk, split mid-frame, ConnectResponse before HelloResponse, HelloResponse twice, one chunk with a DisconnectRequest / garbage right behind the last answer}; quick rotates minor/"
        "password through the rows, thorough takes the full product. Non-trivial = connect() ran to an outcome that was judged; distinct = "
        "(row of the matrix abstracted to condition truth values, packaging, framing, outcome class)")
ASSUMPTIONS = [
    "an EMPTY API-hello name with an expected name configured is accepted by the code (old firmware sends none): recorded, not judged",
    "deviant packagings (wrong order, duplicate hello) are judged only on 'no success unless all conditions hold' and on the error being an APIConnectionError",
    "engine S doubles as in C05",
]
BUDGET_S = {"quick": 300, "thorough": 2400}
MIN_EVALS = {"quick": 2000, "thorough": 20000}

EXPECTED = "livingroom"
NAMES = {"equal": EXPECTED, "other": "kitchen", "case": "LivingRoom", "prefix": "livingroo", "unicode": "wohnzimmer-ü", "empty": "",
         # names RELATED to the expected one without being equal to it: the expected name plus a MAC-style / numeric suffix (a fleet built with
         # name_add_mac_suffix, a sibling device)
         "mac-suffix": "livingroom-a1b2c3", "extends": "livingroom-2"}
# the configured name itself is not always lower-case ASCII: names are compared verbatim, so a mixed-case or non-ASCII expected name accepts
# exactly the device that sends the same spelling
EXPECTED_FORMS = ("livingroom", "Kitchen-Sensor", "GARAGE", "Wohnzimmer-Ü", "straße")


def names_for(row: dict[str, Any]) -> dict[str, str]:
    exp = row.get("expected", EXPECTED)
    if exp == EXPECTED:
        return NAMES
    case = exp.lower() if exp.lower() != exp else exp.upper()
    return {"equal": exp, "other": "kitchen", "case": case, "prefix": exp[:-1], "unicode": exp.casefold() + "-ü", "empty": "",
            "mac-suffix": exp + "-a1b2c3", "extends": exp + "-2"}
PSK = bytes(range(1, 33))
PACKAGINGS = ("separate", "one-chunk", "split-mid-frame", "connect-before-hello", "hello-twice", "one-chunk+peer-disconnect", "one-chunk+garbage",
              "one-chunk+rst")    # the device aborts the connection (RST) right behind its last answer: the answer is still read, the socket is already dead
MAJORS = (0, 1, 2, 3, 4, 2**32 - 1)
MINORS = (0, 9, 10, 2**32 - 1)


def exhaustive(tier: str) -> Any:
    if tier == "thorough":
        return ["full product of the matrix in RULE"]
    return ["product of major x API name x noise name x invalid_password x login x expected-set x framing x packaging (minor and password rotate)"]


def run_case(row: dict[str, Any]) -> dict[str, Any]:
    noise = row["framing"] == "noise"
    login = row["login"]
    pk = row["packaging"]
    with Sim() as sim:
        cfg = DeviceConfig(name="node", api_major=row["major"], api_minor=row["minor"], hello_name=names_for(row)[row["api_name"]],
                           invalid_password=row["invalid_password"])
        if noise:
            cfg.noise_psk = PSK
            cfg.noise_name = None if row["noise_name"] == "absent" else names_for(row)[row["noise_name"]].encode()
        if pk in ("one-chunk", "split-mid-frame"):
            cfg.coalesce_replies = True
            if pk == "split-mid-frame":
                cfg.coalesce_cuts = [5]
        elif pk in ("one-chunk+peer-disconnect", "one-chunk+garbage", "one-chunk+rst"):
            # the device hangs up right behind its last answer of the connect phase, in the same chunk: the close takes effect
            # before the connecting task has looked at the answers
            cfg.coalesce_replies = True

            def hangup(c: DeviceConn) -> None:
                if pk.endswith("peer-disconnect"):
                    c.send("DisconnectRequest")
                elif pk.endswith("rst"):
                    c.rst(None)
                else:
                    from vf import refcodec as _rc  # noqa: PLC0415

                    c.send_raw(_rc.enc_noise_outer(bytes(range(40))) if noise else b"\x42\x13\x37")

            def hello_h(c: DeviceConn, m: Any) -> None:
                DeviceConn._h_HelloRequest(c, m)
                if not login:
                    hangup(c)

            def connect_h(c: DeviceConn, m: Any) -> None:
                DeviceConn._h_ConnectRequest(c, m)
                hangup(c)

            cfg.handlers = {"HelloRequest": hello_h, "ConnectRequest": connect_h}
        elif pk == "connect-before-hello":
            cfg.coalesce_replies = True
            state: dict[str, Any] = {}

            def hello(c: DeviceConn, m: Any) -> None:
                if login:
                    state["deferred"] = True
                else:
                    DeviceConn._h_HelloRequest(c, m)

            def connect(c: DeviceConn, m: Any) -> None:
                DeviceConn._h_ConnectRequest(c, m)
                DeviceConn._h_HelloRequest(c, m)

            cfg.handlers = {"HelloRequest": hello, "ConnectRequest": connect}
        elif pk == "hello-twice":
            def hello2(c: DeviceConn, m: Any) -> None:
                DeviceConn._h_HelloRequest(c, m)
                DeviceConn._h_HelloRequest(c, m)
            cfg.handlers = {"HelloRequest": hello2}
        dev = sim.device(cfg)
        kw: dict[str, Any] = {}
        if noise:
            kw["noise_psk"] = base64.b64encode(PSK).decode()
        via = row.get("expected_via", "constructor")
        if row["expected_set"] and via == "constructor":
            kw["expected_name"] = row.get("expected", EXPECTED)
        cli = sim.client(None, 6053, row["password"], **kw)      # (address family rotates)
        if row["expected_set"] and via == "setter-before-start":
            cli.expected_name = row.get("expected", EXPECTED)
        if via == "setter-between-phases":
            # the expected name is configured (public setter) after the socket is open and before the session is set up
            async def two_phase() -> None:
                await cli.start_connection(on_stop=sim.on_stop_cb())
                if row["expected_set"]:
                    cli.expected_name = row.get("expected", EXPECTED)
                await cli.finish_connection(login=login)
            call = sim.call("connect", two_phase)
        else:
            call = sim.call("connect", lambda: cli.connect(on_stop=sim.on_stop_cb(), login=login))
        end = sim.run(until=lambda: call.done, max_time=sim.clock + 200)
        sim.settle()
        v = sim.conns[0] if sim.conns else None
        out = {
            "outcome": call.outcome, "exc": call.exc, "end": end,
            "state": v.obj.connection_state.name if v else None,
            "on_stop": len(v.on_stop) if v else 0,
            "client_conn_cleared": cli._connection is None,  # noqa: SLF001
            "received": [(r["name"], r["msg"]) for r in dev.conns[0].received] if dev.conns else [],
            "decode_errors": dev.conns[0].decode_errors if dev.conns else [],
            "harness_errors": list(sim.harness_errors),
            "api_version": None if cli.api_version is None else (cli.api_version.major, cli.api_version.minor),
            "trace": sim.trace(60),
        }
        if call.outcome == "ok":
            d = sim.call("disconnect", lambda: cli.disconnect(force=True))
            sim.run(until=lambda: d.done, max_time=sim.clock + 50)
        return out


def judge(row: dict[str, Any], o: dict[str, Any]) -> list[tuple[str, str]]:
    from aioesphomeapi.core import APIConnectionError, BadNameAPIError, InvalidAuthAPIError

    out: list[tuple[str, str]] = []
    noise = row["framing"] == "noise"
    exp = row.get("expected", EXPECTED) if row["expected_set"] else None
    compatible = row["major"] <= 2
    api_name = names_for(row)[row["api_name"]]
    api_name_ok = exp is None or api_name == exp
    api_name_unjudged = exp is not None and api_name == ""
    noise_name = None
    noise_name_ok = True
    if noise and row["noise_name"] != "absent":
        noise_name = names_for(row)[row["noise_name"]]
        noise_name_ok = exp is None or noise_name == exp
    auth_ok = (not row["login"]) or (not row["invalid_password"])
    well_formed = row["packaging"] in ("separate", "one-chunk", "split-mid-frame") or \
        (row["packaging"] == "connect-before-hello" and not row["login"]) or (row["packaging"] == "hello-twice" and not row["login"])
    hangup = "+" in row["packaging"]
    if hangup:
        well_formed = True   # the answers themselves are conformant; what follows them is a hang-up
    all_ok = compatible and (api_name_ok or api_name_unjudged) and noise_name_ok and auth_ok
    strict_ok = compatible and api_name_ok and noise_name_ok and auth_ok
    if o["outcome"] == "ok":
        if not all_ok:
            why = [w for w, c in (("incompatible major", not compatible), ("API hello name mismatch", not (api_name_ok or api_name_unjudged)),
                                  ("noise hello name mismatch", not noise_name_ok), ("invalid password", not auth_ok)) if c]
            out.append((f"C06/accepted-despite/{'+'.join(w.split()[0] for w in why)}", f"connect() succeeded although: {', '.join(why)}"))
        if o["state"] != "CONNECTED" and not hangup:   # (after a hang-up behind the answers the session may already be over again: C05/C07)
            out.append(("C06/success-but-not-connected", f"connect() returned but state is {o['state']}"))
        return out
    if o["outcome"] != "raised":
        out.append(("C06/no-outcome", f"connect() outcome {o['outcome']} (end {o['end']})"))
        return out
    e = o["exc"]
    if not isinstance(e, APIConnectionError):
        out.append((f"C06/raw-exception/{type(e).__name__}", f"connect() raised {e!r}"))
        return out
    if strict_ok and well_formed and not hangup:
        out.append((f"C06/rejected-conformant-device/{type(e).__name__}", f"all conditions hold but connect() raised {e!r}"))
    if o["state"] != "CLOSED":
        out.append(("C06/failed-but-not-closed", f"after failure state is {o['state']}"))
    if o["on_stop"]:
        out.append(("C06/on_stop-after-failed-connect", f"stop callback invoked {o['on_stop']}x"))
    if not strict_ok and well_formed and not (api_name_unjudged and compatible and noise_name_ok and auth_ok):
        # the error must be one of the applicable specific ones
        applicable = []
        if not compatible:
            applicable.append("incompatible")
        if not api_name_ok and not api_name_unjudged:
            applicable.append(("badname", api_name))
        if not noise_name_ok:
            applicable.append(("badname", noise_name))
        if not auth_ok:
            applicable.append("auth")
        ok = False
        for a in applicable:
            if a == "incompatible" and type(e) is APIConnectionError and "ncompatible" in str(e) and str(row["major"]) in str(e):
                ok = True
            elif a == "auth" and isinstance(e, InvalidAuthAPIError):
                ok = True
            elif isinstance(a, tuple) and isinstance(e, BadNameAPIError) and e.received_name == a[1]:
                ok = True
        if not ok:
            out.append((f"C06/wrong-error/{type(e).__name__}", f"applicable reasons {applicable} but connect() raised {e!r}"))
    return out


def rows(ctx: Ctx) -> Any:
    i = 0
    minors = MINORS if ctx.thorough else None
    for framing in ("plain", "noise"):
        noise_names = ["absent", *NAMES] if framing == "noise" else ["n/a"]
        for major, api_name, noise_name, inv, login, exp_set, pk in itertools.product(
                MAJORS, NAMES, noise_names, (False, True), (False, True), (False, True), PACKAGINGS):
            for minor in (minors or (MINORS[i % 4],)):
                for password in (("pw", None) if ctx.thorough else (("pw", None)[i % 2],)):
                    i += 1
                    yield i, {"framing": framing, "major": major, "minor": minor, "api_name": api_name, "noise_name": noise_name,
                              "invalid_password": inv, "login": login, "expected_set": exp_set, "packaging": pk, "password": password}
        # the expected name configured through the public setter instead of the constructor, before the attempt or between its two phases
        for via, api_name, noise_name, login in itertools.product(("setter-before-start", "setter-between-phases"), NAMES, noise_names, (False, True)):
            i += 1
            yield i, {"framing": framing, "major": 1, "minor": 10, "api_name": api_name, "noise_name": noise_name, "invalid_password": False, "login": login,
                      "expected_set": True, "packaging": "separate", "password": "pw", "expected_via": via}
        # expected names that are not lower-case ASCII, through the constructor and the setter
        for exp, via, api_name, noise_name in itertools.product(EXPECTED_FORMS[1:], ("constructor", "setter-before-start"), NAMES, noise_names):
            i += 1
            yield i, {"framing": framing, "major": 1, "minor": 10, "api_name": api_name, "noise_name": noise_name, "invalid_password": False, "login": bool(i % 2),
                      "expected_set": True, "packaging": ("separate", "one-chunk")[i % 2], "password": "pw", "expected_via": via, "expected": exp}


def rejection_at_the_deadline(ctx: Ctx) -> None:
    """The rejecting answer (another name in the Noise or API hello, an unsupported major version, an invalid-password verdict) and the phase's own
    30 s deadline fall into one loop iteration (answer exactly at the deadline / process stopped across it).  The answer is handled first and
    ends the connection with its specific error; the call raises that error, not a timeout that became due in the same iteration."""
    from vf.sim import sweep

    res = ctx.res
    for idx, (label, spec) in enumerate(sweep.deadline_specs(("noise", "plain"), ("other-name", "other-version", "invalid-password"))):
        if not ctx.mine(700 + idx):
            continue
        obs = sweep.run_spec(spec)
        res.evaluations += 1
        res.count("rejection-at-the-deadline")
        res.sig("deadline", label)
        if obs.harness_errors:
            res.inconclusive.append("C06 deadline scenario: " + obs.harness_errors[0][-300:])
            continue
        for _k, what in sweep.masked_first_cause(obs):
            res.violation("C06/wrong-error/at-the-deadline", f"{label}: {what}", {"spec": spec, "deadline": label}, trace=obs.trace[-40:])


def shard(ctx: Ctx) -> None:
    rejection_at_the_deadline(ctx)
    res = ctx.res
    for i, row in rows(ctx):
        if not ctx.mine(i):
            continue
        o = run_case(row)
        res.evaluations += 1
        if o["harness_errors"]:
            res.inconclusive.append("harness error: " + o["harness_errors"][0][-300:])
            continue
        cls = type(o["exc"]).__name__ if o["exc"] is not None else "ok"
        res.count(f"outcome/{cls}")
        res.count(f"packaging/{row['packaging']}")
        exp = row["expected_set"]
        res.sig(row["framing"], min(row["major"], 5), row["api_name"] if exp else "-", row["noise_name"] if exp else "-",
                row["invalid_password"] and row["login"], row["packaging"], cls, row.get("expected_via"), row.get("expected"))
        if exp and row["api_name"] == "empty":
            res.count(f"unjudged/empty-api-hello-name-with-expected-name/{o['outcome']}")
        # device-side view of the client's hello/login (bonus wire check)
        names = [n for n, _ in o["received"]]
        want = ["HelloRequest"] + (["ConnectRequest"] if row["login"] else [])
        if not names:
            res.count("client-sent-no-api-message (rejected in the noise hello)")
        elif names[:len(want)] != want:
            res.violation("C06/client-handshake-messages", f"device received {names}, expected to start with {want}", {"row": row})
        elif row["login"]:
            pw = o["received"][1][1].password
            if pw != (row["password"] or ""):
                res.violation("C06/password-on-wire", f"ConnectRequest.password={pw!r}, configured {row['password']!r}", {"row": row})
        if o["decode_errors"]:
            res.violation("C06/client-bytes-undecodable", str(o["decode_errors"][:2]), {"row": row})
        if o["outcome"] == "ok" and "+" not in row["packaging"] and o["api_version"] != (row["major"], row["minor"]):
            res.violation("C06/api-version-not-recorded", f"api_version {o['api_version']} after connecting to {row['major']}.{row['minor']}", {"row": row})
        for key, what in judge(row, o):
            res.violation(key, what, {"row": row}, trace=o["trace"])
        if res.evaluations % 300 == 1:
            res.sample({"row": row, "outcome": o["outcome"], "exception": None if o["exc"] is None else f"{type(o['exc']).__name__}: {o['exc']}"[:160],
                        "final_state": o["state"], "on_stop_calls": o["on_stop"]})


def replay(spec: dict[str, Any]) -> int:
    row = spec["case"]["row"]
    o = run_case(row)
    print("C06 replay row:", row)
    print("\n".join(o["trace"]))
    found = judge(row, o)
    print("outcome:", o["outcome"], repr(o["exc"]), "->", found)
    return 1 if found else 0

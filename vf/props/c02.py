"""C02 — everything the client writes conforms to the documented wire format.

Part W (codec sweep): write_packets on the real helpers; every transport.write is
decoded by the independent decoder (plaintext) or decrypted by the independent
Noise responder whose receive nonce is a plain counter (noise) and compared with
the batch given.  Part S (API sweep, appended by vf.props.c02_s when the S engine
is present): every public sending method on a live simulated session.
"""

from __future__ import annotations

import os
from typing import Any

from vf import noisew, protoparse, refcodec, wire
from vf.common import Ctx

LEVEL = "exploration"
RULE = ("W: batches of (type id, payload) packets - every id declared in api.proto x boundary payload sizes, batches of 1..8, "
        "long write sequences per Noise session (nonce continuity across 255/256 and 65535/65536 at thorough) - written through the real "
        "helpers; S: every public APIClient sending method on live plaintext and Noise sessions. Non-trivial = the written bytes were "
        "fully decoded/decrypted by the independent reference and compared; distinct = (framing, id, payload-size class, batch size, nonce class)"
        " Also: large (>= 65536 B) and small plaintext frames of the same type in one process in both orders; in-domain Noise packets sent after an unrepresentable (> 65515 B) one in the same session must continue the nonce sequence.")
ASSUMPTIONS = [
    "independent decoder / Noise responder written from api.proto comment and the Noise spec (cross-checked with noiseprotocol default backend at setup)",
    "payloads larger than a Noise frame can carry (>65515 bytes) are unrepresentable in the documented format: probed and reported, not judged",
]
BUDGET_S = {"quick": 240, "thorough": 2400}
MIN_EVALS = {"quick": 2000, "thorough": 20000}

PLAIN_SIZES = [0, 1, 2, 126, 127, 128, 129, 255, 256, 16383, 16384, 16385, 70000]
NOISE_SIZES = [0, 1, 2, 127, 128, 255, 256, 4096, 65512, 65513, 65514, 65515]


def pay(n: int, salt: int) -> bytes:
    base = bytes((i * 37 + salt) & 0xFF for i in range(min(n, 509)))
    return (base * (n // max(len(base), 1) + 1))[:n] if n else b""


def size_class(n: int) -> str:
    for lim in (0, 1, 127, 128, 255, 256, 16383, 16384, 65515):
        if n <= lim:
            return f"<={lim}"
    return ">65515"


def plain_batch(ctx: Ctx, batch: list[tuple[int, bytes]], label: str) -> None:
    res = ctx.res
    h, c, t, d = wire.make_plain()
    d.start()
    case = {"framing": "plaintext", "batch": [(ty, len(p)) for ty, p in batch]}
    try:
        h.write_packets(list(batch), res.evaluations % 2 == 1)   # every other batch with the library's debug flag on
    except Exception as e:  # noqa: BLE001
        res.evaluations += 1
        res.violation("C02/plain/batch-refused", f"write_packets raised {e!r} for a batch the documented format can carry (payload sizes "
                      f"{[len(p) for _, p in batch][:6]})", case)
        return
    res.evaluations += 1
    res.count(f"plain/{label}")
    if len(t.writes) != 1:
        res.violation("C02/writes-per-batch", f"{len(t.writes)} transport writes for one batch of {len(batch)}", case)
        return
    try:
        frames = refcodec.decode_plain_exact(t.writes[0])
    except refcodec.DecodeError as e:
        res.violation("C02/plain/undecodable", f"written bytes do not decode: {e}", {**case, "written": t.writes[0][:64].hex()})
        return
    if frames != [(ty, bytes(p)) for ty, p in batch]:
        res.violation("C02/plain/mismatch", f"decoded {[(a, len(b)) for a, b in frames][:6]} != given batch", case)
        return
    res.count("plain/frames_decoded_equal", len(frames))
    for ty, p in batch:
        res.sig("plain", ty if len(batch) == 1 else "b", size_class(len(p)), len(batch))
    if res.evaluations % 700 == 1:
        res.sample({"framing": "plaintext", "batch": [(ty, len(p)) for ty, p in batch], "written_head": t.writes[0][:24].hex()})


def plain_session(ctx: Ctx, batches: list[list[tuple[int, bytes]]], label: str) -> None:
    """Consecutive batches on ONE plaintext helper: every write decodes to its batch, and what was handed to the transport earlier stays intact."""
    res = ctx.res
    h, c, t, d = wire.make_plain()
    d.start()
    for k, batch in enumerate(batches):
        n0 = len(t.writes)
        h.write_packets(list(batch), k % 2 == 1)
        res.evaluations += 1
        res.count(f"plain/{label}")
        case = {"framing": "plaintext", "batch": [(ty, len(p)) for ty, p in batch], "write_no": k}
        new = t.writes[n0:]
        if len(new) != 1:
            res.violation("C02/writes-per-batch", f"{len(new)} transport writes for one batch of {len(batch)}", case)
            return
        try:
            frames = refcodec.decode_plain_exact(new[0])
        except refcodec.DecodeError as e:
            res.violation("C02/plain/undecodable", f"write {k} of the session does not decode: {e}", case)
            return
        if frames != [(ty, bytes(p)) for ty, p in batch]:
            res.violation("C02/plain/mismatch", f"write {k} of the session decoded {[(a, len(b)) for a, b in frames][:6]} != given batch", case)
            return
        stale = [a for a in t.changed_after_write() if a > 0]
        if stale:
            res.violation("C02/written-object-changed-after-write", f"the object handed to transport.write() {stale[0]} write(s) ago no longer holds the bytes it held then", case)
            return
        res.count("plain/frames_decoded_equal", len(frames))


class NoiseSession:
    def __init__(self) -> None:
        self.psk = os.urandom(32)
        self.h, self.c, self.t, self.d, self.srv = noisew.open_session(self.psk)
        self.nwrites = len(self.t.writes)
        self.frame_no = 0


def noise_batch(ctx: Ctx, s: NoiseSession, batch: list[tuple[int, bytes]], label: str) -> bool:
    res = ctx.res
    try:
        s.h.write_packets(list(batch), res.evaluations % 2 == 1)   # every other batch with the library's debug flag on
    except Exception as e:  # noqa: BLE001
        # every batch the format can carry IS written: a refusal of an in-domain batch (payloads <= 65515 bytes) is a batch not written
        res.evaluations += 1
        res.violation("C02/noise/batch-refused", f"write_packets raised {e!r} for a batch the documented format can carry (payload sizes "
                      f"{[len(p) for _, p in batch][:6]})", {"framing": "noise", "batch": [(ty, len(p)) for ty, p in batch], "first_frame_no": s.frame_no})
        s.nwrites = len(s.t.writes)
        return False
    res.evaluations += 1
    res.count(f"noise/{label}")
    new = s.t.writes[s.nwrites:]
    s.nwrites = len(s.t.writes)
    case = {"framing": "noise", "batch": [(ty, len(p)) for ty, p in batch], "first_frame_no": s.frame_no}
    stale = [a for a in s.t.changed_after_write() if a > 0]
    if stale:
        res.violation("C02/written-object-changed-after-write", f"the object handed to transport.write() {stale[0]} write(s) ago no longer holds the bytes it held then "
                      "(a transport under back-pressure still has it queued)", case)
    if len(new) != 1:
        res.violation("C02/writes-per-batch", f"{len(new)} transport writes for one batch of {len(batch)}", case)
        return False
    try:
        got = s.srv.decrypt_client_frames(new[0])
    except refcodec.DecodeError as e:
        res.violation("C02/noise/framing", f"outer/inner framing wrong: {e}", case)
        return False
    except Exception as e:  # refnoise.NoiseError
        res.violation("C02/noise/nonce-or-auth", f"responder with receive counter {s.srv.resp.rx.n} cannot authenticate frame: {e}", case)
        return False
    if got != [(ty, bytes(p)) for ty, p in batch]:
        res.violation("C02/noise/mismatch", f"decrypted {[(a, len(b)) for a, b in got][:6]} != given batch", case)
        return False
    first = s.frame_no
    s.frame_no += len(batch)
    res.count("noise/frames_decrypted_equal", len(batch))
    for n in (255, 256, 65535, 65536):
        if first <= n < s.frame_no:
            res.count(f"noise/nonce_crossed_{n}")
            res.sig("noise-nonce", n)
    for ty, p in batch:
        res.sig("noise", ty if len(batch) == 1 else "b", size_class(len(p)), len(batch))
    if res.evaluations % 700 == 2:
        res.sample({"framing": "noise", "batch": [(ty, len(p)) for ty, p in batch], "session_frame_no": first,
                    "written_head": new[0][:16].hex()})
    return True


def shard(ctx: Ctx) -> None:
    pr = protoparse.load_api()
    ids = sorted(pr.by_id)
    rng = ctx.rng
    res = ctx.res
    idx = 0
    # ---- plaintext: every id x every size, single-packet batches
    for ty in ids + [max(ids) + 1, 127, 128, 300, 16384, 65535, 2**21, 2**32 - 1]:
        for n in PLAIN_SIZES:
            idx += 1
            if ctx.mine(idx):
                plain_batch(ctx, [(ty, pay(n, ty))], "single")
    # ---- plaintext batches
    for k in range(1200 if ctx.thorough else 250):
        idx += 1
        if not ctx.mine(idx):
            continue
        b = [(rng.choice(ids), pay(rng.choice([0, 1, 5, 60, 127, 128, 300, 2000]), k)) for _ in range(rng.randint(1, 8))]
        plain_batch(ctx, b, "batch")
    # ---- plaintext: consecutive writes on one helper (sizes growing and shrinking, so that any reused output buffer is both extended and re-used)
    for k in range(12 if ctx.thorough else 3):
        idx += 1
        if ctx.mine(idx):
            sizes = [0, 5, 300, 2, 70000, 1, 128, 16384, 0, 127, 3, 65536, 7] if k % 2 == 0 else [rng.choice([0, 1, 9, 60, 255, 4000]) for _ in range(40)]
            plain_session(ctx, [[(rng.choice(ids), pay(n, j + k)) for _ in range(1 + (j + k) % 3)] for j, n in enumerate(sizes)], "one-helper-many-writes")
    # ---- noise: one session per shard, sweep ids x sizes, batches, then a long tail for nonce continuity
    s = NoiseSession()
    for ty in ids + [max(ids) + 1, 255, 256, 65535]:
        for n in NOISE_SIZES:
            idx += 1
            if ctx.mine(idx):
                if not noise_batch(ctx, s, [(ty, pay(n, ty))], "single"):
                    s = NoiseSession()
    for k in range(1200 if ctx.thorough else 250):
        idx += 1
        if not ctx.mine(idx):
            continue
        b = [(rng.choice(ids), pay(rng.choice([0, 1, 5, 60, 255, 256, 3000]), k)) for _ in range(rng.randint(1, 8))]
        if not noise_batch(ctx, s, b, "batch"):
            s = NoiseSession()
    # long session: consecutive small writes (nonce continuity). thorough crosses 65536 on shard 0.
    n_long = 2500 if not ctx.thorough else (70000 if ctx.shard == 0 else 6000)
    s = NoiseSession()
    for k in range(n_long):
        if not noise_batch(ctx, s, [(7, b"")] if k % 3 else [(8, b"x"), (7, b"")], "long-session"):
            break
    res.count("noise/longest_session_frames", 0)
    res.notes.setdefault("longest_noise_session_frames", []).append(s.frame_no)
    # ---- plaintext: large and small frames of the same type in ONE process, both orders (anything memoised per (type, length) must key on both
    #      in full: lengths that differ by a multiple of 65536 share their low 16 bits)
    if ctx.shard < 6:
        t_a, t_b = [(9, 11), (7, 21), (75, 99), (2, 3), (120, 123), (36, 37)][ctx.shard]
        for k in (0, 9, 17):
            for order in (0, 1):
                seq = [(t_a, 65536 + k), (t_a, k), (t_b, 131072 + k), (t_b | 1, k), (t_b, k), (t_a, 65536 + k)]
                if order:
                    seq.reverse()
                for ty, n in seq:
                    plain_batch(ctx, [(ty, pay(n, ty + k))], "large-then-small-same-type")
    # ---- noise: a packet the format cannot carry (> 65515 bytes) in the MIDDLE of a session - whatever the helper does with it (refuse it, or
    #      write it with a wrapped length field), the in-domain packets sent afterwards must still use strictly consecutive nonces
    if ctx.shard < 3:
        s3 = NoiseSession()
        okc = all(noise_batch(ctx, s3, [(7, b"")], "before-oversize") for _ in range(3 + ctx.shard))
        n_before = len(s3.t.writes)
        raised = None
        try:
            s3.h.write_packets([(1, pay(65516 + 1000 * ctx.shard, 1))], False)
        except Exception as e:  # noqa: BLE001
            raised = e
        new = s3.t.writes[n_before:]
        s3.nwrites = len(s3.t.writes)
        consumed = "nothing written"
        if new:
            try:
                s3.srv.resp.decrypt(b"".join(new)[3:])      # the outer length field cannot hold the size: take the whole write as the frame body
                consumed = "written (wrapped length field), decrypts under the next nonce"
                s3.frame_no += 1
            except Exception as e:  # noqa: BLE001
                consumed = f"written but does not decrypt under the next nonce: {e!r}"
        res.notes.setdefault("oversize_in_session", []).append(f"raised={raised!r}; {consumed}")
        if okc:
            for j in range(4):
                if not noise_batch(ctx, s3, [(7, b"")] if j % 2 else [(8, b"x"), (7, b"")], "after-oversize"):
                    break
    # ---- plaintext and Noise helpers (and two Noise sessions with different keys) alive in ONE process, writing the same (type, length) pairs
    #      alternately, both orders: nothing derived from a packet may be shared between helpers of different framing or different sessions
    sa, sb = NoiseSession(), NoiseSession()
    for k in range(120 if ctx.thorough else 30):
        ty = rng.choice(ids)
        n = rng.choice([0, 1, 5, 9, 60, 127, 128, 255, 256, 300])
        b = [(ty, pay(n, ty + k))]
        order = (k + ctx.shard) % 3
        if order == 0:
            plain_batch(ctx, b, "mixed-framings")
            ok = noise_batch(ctx, sa, b, "mixed-framings") and noise_batch(ctx, sb, b, "mixed-framings")
        elif order == 1:
            ok = noise_batch(ctx, sa, b, "mixed-framings")
            plain_batch(ctx, b, "mixed-framings")
            ok = noise_batch(ctx, sb, b, "mixed-framings") and ok
        else:
            ok = noise_batch(ctx, sb, b, "mixed-framings") and noise_batch(ctx, sa, b, "mixed-framings")
            plain_batch(ctx, b, "mixed-framings")
        if not ok:
            sa, sb = NoiseSession(), NoiseSession()
    # ---- observation only: payload larger than the format can carry
    if ctx.shard == 0:
        s2 = NoiseSession()
        try:
            s2.h.write_packets([(1, pay(70000, 1))], False)
            w = s2.t.writes[-1]
            res.notes["oversize_noise_payload"] = (f"70000-byte payload: helper wrote {len(w)} bytes with outer length field "
                                                   f"{int.from_bytes(w[1:3], 'big')} (truncated 16-bit) - unrepresentable, not judged")
        except Exception as e:  # noqa: BLE001
            res.notes["oversize_noise_payload"] = f"70000-byte payload: write_packets raised {e!r} - not judged"
    # ---- part S
    try:
        from vf.props import c02_s  # noqa: PLC0415
    except ImportError:
        res.notes["part_S"] = "not built"
        return
    c02_s.shard(ctx)


def replay(spec: dict[str, Any]) -> int:
    print("C02 replay: case =", spec.get("case"))
    case = spec["case"]
    ctx = Ctx("C02", 0, 1, "quick", 0)
    batch = [(ty, pay(n, ty)) for ty, n in case["batch"]]
    if case["framing"] == "plaintext":
        plain_batch(ctx, batch, "replay")
    else:
        s = NoiseSession()
        for _ in range(case.get("first_frame_no", 0)):
            noise_batch(ctx, s, [(7, b"")], "replay-prefix")
        noise_batch(ctx, s, batch, "replay")
    print(ctx.res.violations)
    return 1 if ctx.res.violations else 0

"""C12 — dispatch exactly once in order; unknown types ignored; peer requests answered (engine S + reference dispatcher)."""

from __future__ import annotations

import base64
import time
from typing import Any

from vf import msggen, protoparse
from vf.common import Ctx
from vf.sim.device import DeviceConfig
from vf.sim.scenario import Sim

LEVEL = "exploration"
RULE = ("(a) id sweep on live sessions with a recording subscriber registered for EVERY known type: ids 0..300, 65535, 2^21, 2^32-1 (plaintext) "
        "and 0..300, 65535 (noise) x payload {empty, valid random message of that type, random bytes, strict prefixes of the valid payload "
        "(every prefix at thorough, 3 sampled at quick)}; the trusted protobuf runtime classifies each payload as parseable or not. "
        "(b) seeded subscribe/unsubscribe/dispatch histories with re-entrant callbacks (self-removal, removing a peer, adding a new subscriber, "
        "adding one for another type) over 1-4 subscribers per type, judged by a reference dispatcher with snapshot semantics. (c) peer "
        "undefined-type frames between unanswered pings vs a silent control (same ping instants, same death); PingRequest / GetTimeRequest / DisconnectRequest answered (response first, then expected close), also while the client's own disconnect() is pending (crossing disconnects) and when they arrive while the session is being established (behind the HelloResponse or the last answer, same or own chunk). Non-trivial = a frame was sent to the "
        "client and its effect compared; distinct = (framing, id, payload class, expectation) resp. history shape")
ASSUMPTIONS = [
    "ids come from the api.proto text (vf.protoparse); payload validity is decided by the protobuf runtime (trusted)",
    "GetTimeResponse is compared with wall-clock time.time() +/- 2 s (the library uses the real clock there)",
    "engine S doubles as in C05",
]
BUDGET_S = {"quick": 300, "thorough": 3000}
MIN_EVALS = {"quick": 1500, "thorough": 15000}
PSK = bytes(range(4, 36))


def exhaustive(tier: str) -> Any:
    return ["every type id in 0..300 plus {65535, 2^21, 2^32-1} x payload classes, both framings (noise up to 65535)"]


class Live:
    """A live session inside a Sim, re-established on demand, with an all-types recording subscriber."""

    def __init__(self, sim: Sim, framing: str, record_all: bool = True) -> None:
        from aioesphomeapi import api_pb2 as pb

        self.record_all = record_all   # False: no catch-all recorder, so that a type can have NO subscriber, or exactly one

        self.sim = sim
        self.framing = framing
        self.pb = pb
        self.proto = protoparse.load_api()
        cfg = DeviceConfig(answer_ping=True)
        if framing == "noise":
            cfg.noise_psk = PSK
        self.dev = sim.device(cfg)
        self.kw = {"noise_psk": base64.b64encode(PSK).decode()} if framing == "noise" else {}
        self.log: list[tuple[int, Any]] = []
        # (a message api.proto declares but the compiled module lacks is C13's business, reported there; the session just cannot listen for it)
        self.classes = tuple(c for c in (getattr(pb, m.name, None) for m in self.proto.by_id.values()) if c is not None)
        self.cli: Any = None
        self.conn: Any = None
        self.view: Any = None
        self.n_sessions = 0

    def ensure(self) -> None:
        if self.conn is not None and self.conn.connection_state.name == "CONNECTED":
            return
        sim = self.sim
        self.cli = sim.client(keepalive=1e5, **self.kw)
        c = sim.call("connect", lambda: self.cli.connect(on_stop=sim.on_stop_cb(), login=False))
        sim.run(until=lambda: c.done, max_time=sim.clock + 50)
        if c.outcome != "ok":
            raise RuntimeError(f"connect failed: {c.exc!r}")
        self.conn = self.cli._connection  # noqa: SLF001
        self.view = sim.view(self.conn)
        if self.record_all:
            self.conn.add_message_callback(lambda m: self.log.append((sim.next_seq(), m)), self.classes)
        self.n_sessions += 1

    @property
    def dconn(self) -> Any:
        return self.dev.conn


def probe(ctx: Ctx, live: Live, ty: int, payload: bytes, pclass: str) -> None:
    from aioesphomeapi.core import ProtocolAPIError

    res = ctx.res
    sim = live.sim
    live.ensure()
    v = live.view
    dconn = live.dconn
    n_log, n_rx, n_fatal, n_stop = len(live.log), len(dconn.received), len(v.fatals), len(v.on_stop)
    wall0 = time.time()
    dconn.send_id(ty, payload)
    sim.run_for(0.001)
    res.evaluations += 1
    new_log = live.log[n_log:]
    new_rx = dconn.received[n_rx:]
    state = live.conn.connection_state.name
    m = live.proto.by_id.get(ty)
    case = {"framing": live.framing, "id": ty, "payload": payload.hex() if len(payload) < 200 else f"<{len(payload)} bytes>", "payload_class": pclass}

    def v_(key: str, what: str) -> None:
        res.violation(key, f"[{live.framing} id={ty} {m.name if m else 'undefined'} payload={pclass}] {what}", case, trace=sim.trace(25))

    if m is None:
        res.count("probe/undefined-id")
        res.sig(live.framing, "undef", ty, pclass)
        if new_log:
            v_("C12/undefined-id-delivered", f"{len(new_log)} subscriber callbacks for an undefined type number")
        if new_rx:
            v_("C12/undefined-id-answered", f"client wrote {[r['name'] for r in new_rx]}")
        if state != "CONNECTED" or len(v.fatals) != n_fatal:
            v_("C12/undefined-id-closed-connection", f"state {state}, fatal {[repr(f[2])[:80] for f in v.fatals[n_fatal:]]}")
            return
        # "no other effect" includes what comes next: a defined message and a peer request behind the undefined frame are handled as ever
        n_log2, n_rx2 = len(live.log), len(dconn.received)
        canary = live.pb.SensorStateResponse(key=ty & 0xFFFFFFF, state=1.5)
        dconn.send_msg(canary)
        dconn.send_msg(live.pb.PingRequest())
        sim.run_for(0.001)
        res.count("probe/undefined-id/followed-by-defined-traffic")
        got2 = [x for _, x in live.log[n_log2:]]
        if live.record_all and [type(x).__name__ for x in got2] != ["SensorStateResponse", "PingRequest"]:
            v_("C12/undefined-id-affected-later-messages", f"messages sent right after the undefined frame reached subscribers as {[type(x).__name__ for x in got2]} "
               "(expected the state message and the ping request)")
        if [r["name"] for r in dconn.received[n_rx2:]] != ["PingResponse"]:
            v_("C12/undefined-id-affected-later-requests", f"a PingRequest sent right after the undefined frame was answered with {[r['name'] for r in dconn.received[n_rx2:]]}")
        return
    cls = getattr(live.pb, m.name)
    ref = cls()
    try:
        ref.ParseFromString(payload)
        parseable = True
    except Exception:  # noqa: BLE001
        parseable = False
    res.sig(live.framing, ty, pclass, parseable)
    if not parseable:
        res.count("probe/known-id-unparseable")
        if new_log:
            v_("C12/undecodable-delivered", f"{len(new_log)} callbacks for an undecodable payload")
        if state != "CLOSED":
            v_("C12/undecodable-not-closed", f"state {state} after an undecodable payload of a known type")
        elif not v.fatals[n_fatal:] or not isinstance(v.fatals[n_fatal][2], ProtocolAPIError):
            v_("C12/undecodable-wrong-error", f"first fatal {v.fatals[n_fatal:][:1]}")
        elif [x[2] for x in v.on_stop[n_stop:]] != [False]:
            v_("C12/undecodable-on_stop", f"on_stop {v.on_stop[n_stop:]}")
        return
    res.count("probe/known-id-parseable")
    got = [x for _, x in new_log]
    if len(got) != 1:
        v_("C12/delivery-count", f"{len(got)} deliveries to the subscriber registered for this type, expected exactly 1")
    elif type(got[0]) is not cls or got[0].SerializeToString(deterministic=True) != ref.SerializeToString(deterministic=True):
        v_("C12/delivery-value", f"delivered {type(got[0]).__name__} != sent {m.name} (or field values differ)")
    names = [r["name"] for r in new_rx]
    if m.name == "PingRequest":
        res.count("peer-request/ping")
        if names != ["PingResponse"]:
            v_("C12/ping-not-answered", f"client wrote {names}, expected exactly one PingResponse")
    elif m.name == "GetTimeRequest":
        res.count("peer-request/time")
        if names != ["GetTimeResponse"]:
            v_("C12/time-not-answered", f"client wrote {names}, expected exactly one GetTimeResponse")
        else:
            ep = new_rx[0]["msg"].epoch_seconds
            if not (wall0 - 2 <= ep <= time.time() + 2):
                v_("C12/time-value", f"epoch_seconds={ep}, wall clock {wall0:.0f}")
    elif m.name == "DisconnectRequest":
        res.count("peer-request/disconnect")
        if names != ["DisconnectResponse"]:
            v_("C12/disconnect-not-answered", f"client wrote {names}, expected exactly one DisconnectResponse")
        elif v.closed_seq is None or new_rx[0]["seq"] > v.closed_seq:
            v_("C12/disconnect-response-after-close", "DisconnectResponse was not written before the CLOSED write")
        if state != "CLOSED":
            v_("C12/disconnect-not-closed", f"state {state} after the device's DisconnectRequest")
        elif [x[2] for x in v.on_stop[n_stop:]] != [True]:
            v_("C12/disconnect-on_stop", f"on_stop {v.on_stop[n_stop:]}, expected one call with True")
    else:
        if names:
            v_("C12/unexpected-reply", f"client wrote {names} in reaction to {m.name}")
        if state != "CONNECTED":
            v_("C12/valid-message-closed-connection", f"state {state}: {[repr(f[2])[:80] for f in v.fatals[n_fatal:]]}")
    if res.evaluations % 500 == 1:
        res.sample({**case, "parseable": parseable, "deliveries": len(got), "client_wrote": names, "state_after": state})


def id_sweep(ctx: Ctx) -> None:
    rng = ctx.rng
    proto = protoparse.load_api()
    from aioesphomeapi import api_pb2 as pb

    for framing in ("plain", "noise"):
        ids = list(range(0, 301)) + [65535]
        lows = (5, 7, 8, 25, 36)    # disconnect, ping, pong, a state, time request: undefined numbers that EQUAL a defined id modulo a power of two
        ids += [b + k for b in (256, 512, 1 << 14, 1 << 15, 0xFF00) for k in lows if b + k < 65536]
        if framing == "plain":
            ids += [2**21, 2**32 - 1] + [b + k for b in (1 << 16, 1 << 21, 1 << 28, 1 << 31, 1 << 32, 1 << 35, 1 << 56, 1 << 63, 1 << 64, 1 << 70) for k in (0,) + lows]
        with Sim() as sim:
            live = Live(sim, framing)
            for k, ty in enumerate(ids):
                if not ctx.mine(k):
                    continue
                m = proto.by_id.get(ty)
                probe(ctx, live, ty, b"", "empty")
                if m is None:
                    probe(ctx, live, ty, bytes(rng.getrandbits(8) for _ in range(rng.randint(1, 30))), "random-bytes")
                    probe(ctx, live, ty, b"\x08\x01", "valid-looking")
                    continue
                cls = getattr(pb, m.name)
                for rep in range(3 if ctx.thorough else 1):
                    msg = msggen.random_message(cls, rng, fill=1.0)
                    data = msg.SerializeToString()
                    probe(ctx, live, ty, data, "valid-random-message")
                    cuts = range(1, len(data)) if ctx.thorough else sorted(set(rng.sample(range(1, max(2, len(data))), min(3, max(1, len(data) - 1))))) if len(data) > 1 else []
                    for c in cuts:
                        if c < len(data):
                            probe(ctx, live, ty, data[:c], "strict-prefix")
                for rep in range(4 if ctx.thorough else 2):
                    probe(ctx, live, ty, bytes(rng.getrandbits(8) for _ in range(rng.randint(1, 24))), "random-bytes")
                # a string field whose bytes are not UTF-8 (a Latin-1 device name, a name cut inside a multi-byte character): undecodable for
                # either protobuf back end, though they raise different exception classes for it
                sf = [fd for fd in cls.DESCRIPTOR.fields if fd.type == fd.TYPE_STRING and not fd.is_repeated and fd.number < 16]
                if sf:
                    fd = sf[k % len(sf)]
                    bad = (b"caf\xe9", b"\xff\xfe", b"K\xc3")[k % 3]
                    probe(ctx, live, ty, bytes([fd.number << 3 | 2, len(bad)]) + bad, "invalid-utf8-in-string-field")
            ctx.res.count(f"sessions/{framing}", live.n_sessions)
            if sim.harness_errors:
                ctx.res.inconclusive.append("harness: " + sim.harness_errors[0][-300:])


# ------------------------------------------------------------------------------------------------ histories

TYPE_NAMES = ("SensorStateResponse", "TextSensorStateResponse")


def run_history(framing: str, ops: list[Any]) -> dict[str, Any]:
    """ops: ["sub", name, [type idx], behaviour] | ["unsub", name] | ["msg", type idx] | ["chunk", [type idx,...]]"""
    from aioesphomeapi import api_pb2 as pb

    with Sim() as sim:
        live = Live(sim, framing, record_all=False)   # the histories' own subscribers are the only ones (a sole handler must be able to exist)
        live.ensure()
        conn = live.conn
        classes = [getattr(pb, n) for n in TYPE_NAMES]
        # reference dispatcher
        ref_active: dict[str, tuple[list[int], str]] = {}
        removers: dict[str, Any] = {}
        cbs: dict[str, Any] = {}
        calls: list[tuple[int, str, int]] = []   # (message number, subscriber name, key)
        msg_no = [0]
        problems: list[str] = []
        pending_effects: list[Any] = []

        def make_cb(name: str, behaviour: str) -> Any:
            def cb(msg: Any) -> None:
                calls.append((msg.key, name, msg.key))
                kind = behaviour.split(":")
                if kind[0] == "self-remove":
                    if name in removers:
                        removers.pop(name)()
                        pending_effects.append(("remove", name))
                elif kind[0] == "remove":
                    peer = kind[1]
                    if peer in removers:
                        removers.pop(peer)()
                        pending_effects.append(("remove", peer))
                elif kind[0] == "add":
                    new = f"{name}+child{msg.key}"
                    tys = [int(kind[1])]
                    removers[new] = conn.add_message_callback(make_cb(new, "plain"), tuple(classes[t] for t in tys))
                    pending_effects.append(("add", new, tys))
            return cb

        expected: list[tuple[int, list[str]]] = []
        key = 0
        for op in ops:
            if op[0] == "sub":
                _, name, tys, beh = op
                if name in removers:
                    continue
                cbs[name] = make_cb(name, beh)
                removers[name] = conn.add_message_callback(cbs[name], tuple(classes[t] for t in tys))
                ref_active[name] = (tys, beh)
            elif op[0] == "resub":
                # the SAME subscriber registered again for the types it already has (the identical callable passed a second time, or one type listed
                # twice): it is still one subscriber - every message reaches it exactly once
                _, name, how = op
                if name in removers and name in ref_active:
                    tys = ref_active[name][0]
                    tt = tuple(classes[t] for t in tys)
                    conn.add_message_callback(cbs[name], tt + tt[:1] if how == "type-twice" else tt)
            elif op[0] == "unsub":
                if op[1] in removers:
                    removers.pop(op[1])()
                    ref_active.pop(op[1], None)
            else:
                tlist = [op[1]] if op[0] == "msg" else op[1]
                items = []
                for t in tlist:
                    key += 1
                    items.append((t, key))
                if op[0] == "msg":
                    live.dconn.send(TYPE_NAMES[items[0][0]], key=items[0][1])
                else:
                    live.dconn.outbox = []
                    for t, k in items:
                        live.dconn.send(TYPE_NAMES[t], key=k)
                    out, live.dconn.outbox = live.dconn.outbox, None
                    live.dconn.deliver_items(out, 0.0)
                # the reference processes message by message; effects of callbacks apply after each message
                for t, k in items:
                    snap = sorted(n for n, (tys, _) in ref_active.items() if t in tys)
                    expected.append((k, snap))
                    # apply the effects the snapshot members will cause (deterministic from behaviours)
                    for n in snap:
                        beh = ref_active.get(n, (None, "plain"))[1] if n in ref_active else None
                        if beh is None:
                            # removed earlier during this very delivery: still called (snapshot), its own effect still happens
                            beh = snap_beh.get(n, "plain")
                        kind = beh.split(":")
                        if kind[0] == "self-remove":
                            snap_beh[n] = beh
                            ref_active.pop(n, None)
                        elif kind[0] == "remove":
                            if kind[1] in ref_active:
                                snap_beh[kind[1]] = ref_active[kind[1]][1]
                                ref_active.pop(kind[1], None)
                        elif kind[0] == "add":
                            ref_active[f"{n}+child{k}"] = ([int(kind[1])], "plain")
                sim.run_for(0.001)
        got: dict[int, list[str]] = {}
        order: list[int] = []
        for k, name, _ in calls:
            if k not in got:
                order.append(k)
            got.setdefault(k, []).append(name)
        return {"expected": expected, "got": got, "order": order, "state": conn.connection_state.name,
                "harness_errors": list(sim.harness_errors), "loop_exceptions": list(sim.loop_exceptions), "trace": sim.trace(60)}


snap_beh: dict[str, str] = {}


def gen_history(rng: Any) -> list[Any]:
    ops: list[Any] = []
    names = [f"s{i}" for i in range(rng.randint(1, 4))]
    order = names[:]
    rng.shuffle(order)
    for n in order:
        tys = rng.choice([[0], [1], [0, 1]])
        r = rng.random()
        if r < 0.4:
            beh = "plain"
        elif r < 0.55:
            beh = "self-remove"
        elif r < 0.75:
            beh = "remove:" + rng.choice(names)
        elif r < 0.9:
            beh = f"add:{rng.choice(tys)}"
        else:
            beh = f"add:{1 - tys[0]}"
        ops.append(["sub", n, tys, beh])
    if rng.random() < 0.2:
        ops.append(["resub", rng.choice(names), rng.choice(["same-callable", "type-twice"])])
    for _ in range(rng.randint(2, 8)):
        r = rng.random()
        if r < 0.6:
            ops.append(["msg", rng.randrange(2)])
        elif r < 0.8:
            ops.append(["chunk", [rng.randrange(2) for _ in range(rng.randint(2, 4))]])
        elif r < 0.9:
            ops.append(["unsub", rng.choice(names)])
        else:
            ops.append(["sub", rng.choice(names), [rng.randrange(2)], "plain"])
    return ops


def histories(ctx: Ctx) -> None:
    res = ctx.res
    rng = ctx.rng.__class__(f"C12-hist/{ctx.seed}")
    n = 200000 if ctx.thorough else 6000
    for i in range(n):
        ops = gen_history(rng)
        framing = "noise" if i % 6 == 0 else "plain"
        if not ctx.mine(i):
            continue
        snap_beh.clear()
        o = run_history(framing, ops)
        res.evaluations += 1
        res.count("history/runs")
        if o["harness_errors"]:
            res.inconclusive.append("harness: " + o["harness_errors"][0][-300:])
            continue
        res.count("history/messages_dispatched", len(o["expected"]))
        res.count("history/callback_invocations", sum(len(v) for v in o["got"].values()))
        res.sig("hist", framing, repr(ops))
        case = {"framing": framing, "ops": ops}
        exp_order = [k for k, snap in o["expected"] if snap]
        if o["order"] != exp_order:
            res.violation("C12/history/arrival-order", f"messages reached subscribers in order {o['order']}, arrival order {exp_order}", case, trace=o["trace"])
        for k, snap in o["expected"]:
            g = sorted(o["got"].get(k, []))
            if g != snap:
                dup = len(g) != len(set(g))
                key = "duplicate-delivery" if dup else "missed-subscriber" if set(snap) - set(g) else "called-non-subscriber"
                res.violation(f"C12/history/{key}", f"message {k}: called {g}, subscribed at that moment {snap}", case, trace=o["trace"])
                break
        if o["state"] != "CONNECTED":
            res.violation("C12/history/connection-closed", f"state {o['state']} after a conformant history", case, trace=o["trace"])
        if o["loop_exceptions"]:
            res.violation("C12/history/callback-raised", f"{o['loop_exceptions'][0]}", case, trace=o["trace"])
        if res.evaluations % 400 == 2:
            res.sample({"framing": framing, "ops": ops, "dispatch": [(k, o["got"].get(k, [])) for k, _ in o["expected"]]})


def peer_requests_during_connect(ctx: Ctx) -> None:
    """Peer requests that arrive while the session is still being established (behind the HelloResponse, between the two answers, behind
    the last answer - in the same chunk or in a chunk of their own) must be answered like any other."""
    import itertools as it

    from vf.sim.device import DeviceConn

    res = ctx.res
    idx = 0
    for framing, login, req, where, same_chunk in it.product(("plain", "noise"), (False, True), ("PingRequest", "GetTimeRequest", "DisconnectRequest"),
                                                             ("behind-hello", "behind-last-answer"), (True, False)):
        if where == "behind-hello" and not login:
            continue   # without login the HelloResponse IS the last answer
        idx += 1
        if not ctx.mine(idx):
            continue
        for n_req in (1, 3):
            if req == "DisconnectRequest" and n_req > 1:
                continue
            with Sim() as sim:
                cfg = DeviceConfig()
                if framing == "noise":
                    cfg.noise_psk = PSK
                cfg.coalesce_replies = same_chunk

                def emit(c: Any, req: str = req, n_req: int = n_req) -> None:
                    for _ in range(n_req):
                        c.send(req)

                if where == "behind-hello":
                    cfg.hello_extra = emit
                else:
                    def last(c: Any, m: Any, login: bool = login) -> None:
                        if login:
                            DeviceConn._h_ConnectRequest(c, m)  # noqa: SLF001
                        else:
                            DeviceConn._h_HelloRequest(c, m)  # noqa: SLF001
                        emit(c)
                    cfg.handlers["ConnectRequest" if login else "HelloRequest"] = last
                dev = sim.device(cfg)
                kw = {"noise_psk": base64.b64encode(PSK).decode()} if framing == "noise" else {}
                cli = sim.client(password="pw", keepalive=1e5, **kw)
                c0 = sim.call("connect", lambda: cli.connect(on_stop=sim.on_stop_cb(), login=login))
                sim.run(until=lambda: c0.done, max_time=sim.clock + 100)
                sim.run_for(1.0)
                res.evaluations += 1
                res.count("workload/peer-request-during-connect")
                dconn = dev.conn
                names = dconn.received_names()
                answer = {"PingRequest": "PingResponse", "GetTimeRequest": "GetTimeResponse", "DisconnectRequest": "DisconnectResponse"}[req]
                got = names.count(answer)
                case = {"framing": framing, "login": login, "request": req, "where": where, "same_chunk": same_chunk, "n": n_req}
                res.sig("during-connect", framing, login, req, where, same_chunk, n_req, c0.outcome)
                res.count(f"during-connect/{req}/answered={got}/connect={c0.outcome}")
                if got != n_req:
                    res.violation(f"C12/during-connect/{req}-not-answered", f"device sent {n_req} {req} {where} ({'same chunk' if same_chunk else 'own chunk'}) while the "
                                  f"session was being established; client wrote {names}", case, trace=sim.trace(60))
                v = sim.conns[0]
                if req == "DisconnectRequest":
                    if v.obj.connection_state.name != "CLOSED":
                        res.violation("C12/during-connect/disconnect-not-closed", f"state {v.obj.connection_state.name} after the device's DisconnectRequest", case, trace=sim.trace(60))
                elif c0.outcome != "ok":
                    res.violation("C12/during-connect/connect-failed", f"connect() {c0.outcome} {c0.exc!r} although the device only asked {req}", case, trace=sim.trace(60))
                if c0.outcome == "ok" and v.obj.connection_state.name != "CLOSED":
                    d = sim.call("bye", lambda: cli.disconnect(force=True))
                    sim.run(until=lambda: d.done, max_time=sim.clock + 5)


def undefined_frames_and_keepalive(ctx: Ctx) -> None:
    """'Ignored with no other effect' includes the keep-alive bookkeeping: a peer that never answers pings must be pinged at the same instants and
    declared dead at the same instant whether or not it emits frames of undefined type in between (differential run against a silent control)."""
    res = ctx.res
    from aioesphomeapi.core import PingFailedAPIError

    max_id = max(protoparse.load_api().by_id)
    idx = 0
    for framing in ("plain", "noise"):
        for K in (1.0, 2.5):
            for ids in ([max_id + 1], [16385, 65535], [0, max_id + 7, 200000 if framing == "plain" else 40000]):
                idx += 1
                if not ctx.mine(idx):
                    continue
                runs = []
                for with_frames in (False, True):
                    with Sim() as sim:
                        cfg = DeviceConfig(answer_ping=False)
                        if framing == "noise":
                            cfg.noise_psk = PSK
                        dev = sim.device(cfg)
                        kw = {"noise_psk": base64.b64encode(PSK).decode()} if framing == "noise" else {}
                        cli = sim.client(keepalive=K, **kw)
                        c0 = sim.call("connect", lambda: cli.connect(on_stop=sim.on_stop_cb(), login=False))
                        sim.run(until=lambda: c0.done, max_time=sim.clock + 50)
                        t_est = sim.clock
                        if with_frames:
                            n = int(8 * K / 0.3)
                            for j in range(n):
                                dev.conn.send_id(ids[j % len(ids)], bytes([j & 0xFF]) * (j % 5), delay=0.3 * (j + 1) + 0.07)
                        sim.run_for(9 * K)
                        v = sim.conns[0]
                        pings = [round(r["t"] - t_est, 6) for r in dev.conn.received if r["name"] == "PingRequest"]
                        first = v.fatals[0][2] if v.fatals else None
                        runs.append({"pings": pings, "closed": None if v.closed_t is None else round(v.closed_t - t_est, 6), "cause": type(first).__name__ if first else None,
                                     "on_stop": [x[2] for x in v.on_stop], "trace": sim.trace(40)})
                res.evaluations += 1
                res.count("workload/undefined-frames-vs-keepalive")
                res.sig("undef-keepalive", framing, K, tuple(ids))
                a, b = runs
                case = {"framing": framing, "keepalive": K, "undefined_ids": ids}
                if a["cause"] != "PingFailedAPIError" or a["closed"] is None:
                    res.inconclusive.append(f"control run without frames did not end in a ping failure: {a['cause']} {a['closed']}")
                    continue
                if (b["pings"], b["closed"], b["cause"], b["on_stop"]) != (a["pings"], a["closed"], a["cause"], a["on_stop"]):
                    res.violation("C12/undefined-id-affected-keepalive", f"{framing} K={K}: with undefined-type frames {ids} in between, pings at {b['pings']} / closed at {b['closed']} "
                                  f"({b['cause']}); silent control: pings at {a['pings']} / closed at {a['closed']} ({a['cause']})", case, trace=b["trace"])


def replies_behind_backlog(ctx: Ctx) -> None:
    """The device asks (ping, time, ping+time in one chunk) while it is not taking data itself - the client's transport already holds unsent bytes
    (partially sent frame / nothing accepted at all): the replies queue behind the backlog, the connection stays up, and when the device reads again
    it gets one matching response per request, in request order, behind everything queued earlier."""
    res = ctx.res
    from aioesphomeapi import api_pb2 as pb

    idx = 0
    for framing in ("plain", "noise"):
        for first in ("block", ("partial", 900), ("partial", 4090), "past-high-water"):
            for drain in (None, ("rate", 11)) if first != "past-high-water" else (None, ("rate", 3000)):
                idx += 1
                if not ctx.mine(idx):
                    continue
                with Sim() as sim:
                    live = Live(sim, framing, record_all=False)
                    live.ensure()
                    dconn = live.dconn
                    n0 = len(dconn.received)
                    if first == "past-high-water":
                        # so much is queued that the transport has told the protocol to pause writing (pause_writing); the device's requests arrive
                        # in that state, and resume_writing comes only when the queue has drained below the low-water mark
                        from vf.sim import stall  # noqa: PLC0415

                        dconn.sock.send_fault = "block"
                        tr_ = stall.transport_of(sim, dconn)
                        stall.fill_write_buffer(live.cli, tr_, tr_.get_write_buffer_limits()[1] + 20000)
                        res.count("workload/replies-behind-backlog/protocol-paused", int(bool(getattr(tr_, "_protocol_paused", False))))
                    else:
                        dconn.sock.send_fault = first
                        live.cli.send_voice_assistant_audio(b"\x09" * 4096)
                        dconn.sock.send_fault = "block"
                    asked: list[str] = []
                    for step, group in enumerate((["PingRequest"], ["GetTimeRequest"], ["PingRequest", "GetTimeRequest", "PingRequest"], ["GetTimeRequest"])):
                        for name in group:
                            dconn.send_msg(getattr(pb, name)(), 0.0)
                            asked.append(name.replace("Request", "Response"))
                        for _ in range(6):
                            sim.small_step()
                        live.cli.switch_command(70 + step, True)      # the application keeps sending in between
                    up_while_blocked = live.conn.is_connected
                    dconn.sock.send_fault = drain
                    for _ in range(1500):
                        sim.small_step()
                        if sim.transports[-1].get_write_buffer_size() == 0:
                            break
                    dconn.sock.send_fault = None
                    sim.run_for(0.3)
                    got = [r["name"] for r in dconn.received[n0:]]
                    replies = [g for g in got if g in ("PingResponse", "GetTimeResponse")]
                    cmds = [r["msg"].key for r in dconn.received[n0:] if r["name"] == "SwitchCommandRequest" and r["msg"] is not None and 70 <= r["msg"].key <= 73]
                    res.evaluations += 1
                    res.count("workload/replies-behind-backlog")
                    res.count("workload/replies-behind-backlog/requests", len(asked))
                    res.sig("backlog", framing, repr(first), repr(drain))
                    case = {"framing": framing, "backlog": True, "first": repr(first), "drain": repr(drain)}
                    v = live.view
                    if not up_while_blocked or not live.conn.is_connected or v.on_stop or sim.loop_exceptions:
                        why = repr(v.fatals[0][2]) if v.fatals else (str(sim.loop_exceptions[0])[:200] if sim.loop_exceptions else "?")
                        res.violation("C12/valid-message-closed-connection", f"{framing}: ping/time requests from a device that is reading slowly ended the connection: {why}; "
                                      f"on_stop={[x[2] for x in v.on_stop]}", case, trace=sim.trace(30))
                    elif dconn.decode_errors:
                        res.violation("C12/backlog/device-decode-error", f"{dconn.decode_errors[:2]}", case, trace=sim.trace(30))
                    elif replies != asked:
                        key = "C12/ping-not-answered" if replies.count("PingResponse") != asked.count("PingResponse") else \
                            "C12/time-not-answered" if replies.count("GetTimeResponse") != asked.count("GetTimeResponse") else "C12/backlog/reply-order"
                        res.violation(key, f"{framing}: device asked {asked} while it was not reading; after it read again it got {replies}", case, trace=sim.trace(30))
                    elif cmds != [70, 71, 72, 73]:
                        res.violation("C12/backlog/later-requests-affected", f"{framing}: commands sent between the replies arrived as keys {cmds}", case, trace=sim.trace(30))


def slow_subscribers(ctx: Ctx) -> None:
    """A subscriber that takes its time (0.25 s, 3 s of loop time inside the callback - a blocking call in application code), registered through the
    public API (the library wraps it in a functools.partial): the other subscribers of that message and the frames behind it in the chunk - more
    messages, a PingRequest - are handled as ever, and the connection stays up."""
    from aioesphomeapi import api_pb2 as pb

    res = ctx.res
    idx = 0
    for framing in ("plain", "noise"):
        for burn in (0.25, 3.0):
            for which in ("states", "logs", "raw-callback"):
                idx += 1
                if not ctx.mine(idx):
                    continue
                with Sim() as sim:
                    live = Live(sim, framing, record_all=False)
                    live.ensure()
                    cli, conn = live.cli, live.conn
                    a: list[Any] = []
                    b: list[Any] = []
                    slow_done = []

                    def slow(x: Any) -> None:
                        a.append(x)
                        if not slow_done:
                            slow_done.append(1)
                            sim.burn(burn)

                    if which == "states":
                        cli.subscribe_states(slow)
                        cli.subscribe_states(b.append)
                        msgs = [pb.SensorStateResponse(key=1, state=1.0), pb.SensorStateResponse(key=1, state=2.0)]
                    elif which == "logs":
                        cli.subscribe_logs(slow)
                        cli.subscribe_logs(b.append)
                        msgs = [pb.SubscribeLogsResponse(message=b"one"), pb.SubscribeLogsResponse(message=b"two")]
                    else:
                        conn.add_message_callback(slow, (pb.SensorStateResponse,))
                        conn.add_message_callback(b.append, (pb.SensorStateResponse,))
                        msgs = [pb.SensorStateResponse(key=1, state=1.0), pb.SensorStateResponse(key=1, state=2.0)]
                    sim.run_for(0.01)
                    dconn = live.dconn
                    n_rx = len(dconn.received)
                    dconn.outbox = []
                    for m_ in msgs:
                        dconn.send_msg(m_)
                    dconn.send_msg(pb.PingRequest())
                    out, dconn.outbox = dconn.outbox, None
                    dconn.deliver_items(out, 0.0)
                    sim.run_for(0.5)
                    res.evaluations += 1
                    res.count("workload/slow-subscribers")
                    res.sig("slow-subscriber", framing, burn, which)
                    case = {"framing": framing, "slow_subscriber": {"seconds_inside_the_callback": burn, "registered_by": which}}
                    wrote = [r["name"] for r in dconn.received[n_rx:] if r["name"] in ("PingResponse",)]
                    if conn.connection_state.name != "CONNECTED" or live.view.on_stop or sim.loop_exceptions:
                        why = repr(live.view.fatals[0][2]) if live.view.fatals else (str(sim.loop_exceptions[0])[:200] if sim.loop_exceptions else "?")
                        res.violation("C12/valid-message-closed-connection", f"{framing}: a subscriber that took {burn}s ended the connection: {why}", case, trace=sim.trace(30))
                    elif len(a) != 2 or len(b) != 2:
                        res.violation("C12/delivery-count", f"{framing}: two messages, two subscribers (one of them slow): delivered {len(a)} + {len(b)}", case, trace=sim.trace(30))
                    elif wrote != ["PingResponse"]:
                        res.violation("C12/ping-not-answered", f"{framing}: the PingRequest behind the slowly handled messages was answered with {wrote}", case)


def crossing_disconnects(ctx: Ctx) -> None:
    """The device's DisconnectRequest arrives while the client's own disconnect() is waiting for its DisconnectResponse: it is still a peer
    request and must be answered (response first, then an expected close)."""
    res = ctx.res
    idx = 0
    for framing in ("plain", "noise"):
        for gap in (0.0, 0.01, 0.5):
            for same_chunk_ping in (False, True):
                idx += 1
                if not ctx.mine(idx):
                    continue
                with Sim() as sim:
                    cfg = DeviceConfig()
                    if framing == "noise":
                        cfg.noise_psk = PSK

                    def on_disc(c: Any, m: Any, gap: float = gap, same_chunk_ping: bool = same_chunk_ping) -> None:
                        # the device does not acknowledge; it sends its OWN request (it was about to reboot), the acknowledgement comes much later
                        if same_chunk_ping:
                            c.deliver_items([("msg", c.proto.id_of("PingRequest"), b""), ("msg", c.proto.id_of("DisconnectRequest"), b"")], gap)
                        else:
                            c.send("DisconnectRequest", _delay=gap)
                        c.send("DisconnectResponse", _delay=gap + 3.0)

                    cfg.handlers["DisconnectRequest"] = on_disc
                    dev = sim.device(cfg)
                    kw = {"noise_psk": base64.b64encode(PSK).decode()} if framing == "noise" else {}
                    cli = sim.client(keepalive=1e5, **kw)
                    c0 = sim.call("connect", lambda: cli.connect(on_stop=sim.on_stop_cb(), login=False))
                    sim.run(until=lambda: c0.done, max_time=sim.clock + 50)
                    d = sim.call("disconnect", lambda: cli.disconnect())
                    t_d = sim.clock
                    sim.run_for(1.0)
                    v = sim.conns[0]
                    names = dev.conn.received_names()
                    res.evaluations += 1
                    res.count("workload/crossing-disconnects")
                    res.sig("crossing", framing, gap, same_chunk_ping)
                    case = {"framing": framing, "gap": gap, "ping_in_same_chunk": same_chunk_ping}
                    if names.count("DisconnectResponse") != 1:
                        res.violation("C12/crossing-disconnect/not-answered", f"device sent DisconnectRequest while the client's disconnect() was pending; client wrote {names}", case, trace=sim.trace(50))
                    if same_chunk_ping and names.count("PingResponse") != 1:
                        res.violation("C12/crossing-disconnect/ping-not-answered", f"client wrote {names}", case, trace=sim.trace(50))
                    if v.obj.connection_state.name != "CLOSED" or v.closed_t is None or v.closed_t - t_d > gap + 0.1:
                        res.violation("C12/crossing-disconnect/not-closed", f"state {v.obj.connection_state.name}, closed {None if v.closed_t is None else v.closed_t - t_d:+.3f}s after disconnect() "
                                      f"(device's request came at +{gap}s)", case, trace=sim.trace(50))
                    if [x[2] for x in v.on_stop] != [True]:
                        res.violation("C12/crossing-disconnect/on_stop", f"stop hook calls {[x[2] for x in v.on_stop]}", case)
                    sim.run(until=lambda: d.done, max_time=sim.clock + 20)


def bad_payload_without_subscriber(ctx: Ctx) -> None:
    """A payload the protobuf runtime rejects closes the session with a protocol error whether or not anybody listens for that type
    and whether or not debug logging is on."""
    from aioesphomeapi.core import ProtocolAPIError

    res = ctx.res
    pr = protoparse.load_api()
    idx = 0
    bad = [b"\x0d\x01", b"\xff", b"\x0a\x7f\x01", b"\x08"]
    for framing in ("plain", "noise"):
        for debug in (False, True):
            for subscribed in (False, True):
                for ty in (25, 22, 8, 4, 10, 54, 70, 107, 123):
                    idx += 1
                    if not ctx.mine(idx):
                        continue
                    m = pr.by_id[ty]
                    with Sim() as sim:
                        live = Live(sim, framing, record_all=False)
                        live.ensure()
                        live.cli.set_debug(debug)
                        cls = getattr(live.pb, m.name)
                        payload = None
                        for b in bad:
                            try:
                                cls().ParseFromString(b)
                            except Exception:  # noqa: BLE001
                                payload = b
                                break
                        if payload is None:
                            continue
                        if subscribed:
                            live.conn.add_message_callback(lambda _m: None, (cls,))
                        live.dconn.send_id(ty, payload, 0.0)
                        sim.run_for(0.05)
                        v = live.view
                        res.evaluations += 1
                        res.count("workload/bad-payload-known-type")
                        res.sig("bad-payload", framing, debug, subscribed, ty)
                        first = v.fatals[0][2] if v.fatals else None
                        case = {"framing": framing, "id": ty, "payload": payload.hex(), "payload_class": "rejected-by-protobuf", "debug": debug, "subscribed": subscribed}
                        if live.conn.connection_state.name != "CLOSED" or not isinstance(first, ProtocolAPIError):
                            res.violation("C12/bad-payload-not-fatal", f"[{framing} id={ty} {m.name} debug={debug} subscribed={subscribed}] state "
                                          f"{live.conn.connection_state.name}, first fatal {first!r}; expected CLOSED with ProtocolAPIError", case, trace=sim.trace(25))


def bad_payload_while_disconnecting(ctx: Ctx) -> None:
    """An undecodable payload of a known type arrives while the client's own graceful disconnect() is waiting for its acknowledgement (the
    session is still up): it closes the connection with a protocol error all the same - recorded as the cause, and seen by whoever waits."""
    from aioesphomeapi.core import ProtocolAPIError

    res = ctx.res
    idx = 0
    for framing in ("plain", "noise"):
        for with_request in (False, True):
            for gap in (0.01, 0.5):
                idx += 1
                if not ctx.mine(idx):
                    continue
                with Sim() as sim:
                    cfg = DeviceConfig()
                    if framing == "noise":
                        cfg.noise_psk = PSK
                    cfg.handlers["DisconnectRequest"] = lambda c, m: c.send("DisconnectResponse", _delay=5.0)
                    cfg.handlers["DeviceInfoRequest"] = lambda c, m: None
                    dev = sim.device(cfg)
                    kw = {"noise_psk": base64.b64encode(PSK).decode()} if framing == "noise" else {}
                    cli = sim.client(keepalive=1e5, **kw)
                    c0 = sim.call("connect", lambda: cli.connect(on_stop=sim.on_stop_cb(), login=False))
                    sim.run(until=lambda: c0.done, max_time=sim.clock + 50)
                    if c0.outcome != "ok":
                        res.inconclusive.append(f"bad payload while disconnecting: connect failed {c0.exc!r}")
                        continue
                    req = sim.call("device_info", lambda: cli.device_info()) if with_request else None
                    sim.run_for(0.01)
                    d = sim.call("disconnect", lambda: cli.disconnect())
                    sim.run_for(gap)
                    dev.conn.send_id(25, b"\x0d\x01", 0.0)      # SensorStateResponse with a truncated fixed32
                    sim.run_for(1.0)
                    v = sim.conns[0]
                    res.evaluations += 1
                    res.count("workload/bad-payload-while-disconnecting")
                    res.sig("badpb-disc", framing, with_request, gap)
                    case = {"framing": framing, "bad_payload_while_disconnecting": True, "request_pending": with_request, "gap": gap}
                    recorded = v.fatal_sets[0][3] if v.fatal_sets else None
                    if v.obj.connection_state.name != "CLOSED":
                        res.violation("C12/undecodable-not-closed", f"{framing}: undecodable payload during a pending disconnect(): state {v.obj.connection_state.name}", case, trace=sim.trace(40))
                    if not isinstance(recorded, ProtocolAPIError):
                        res.violation("C12/undecodable-not-protocol-error", f"{framing}: undecodable payload of a known type while disconnect() was waiting: recorded cause of the "
                                      f"close is {recorded!r}, expected ProtocolAPIError", case, trace=sim.trace(40))
                    if req is not None and req.done and not isinstance(req.exc, ProtocolAPIError):
                        res.violation("C12/undecodable-not-protocol-error", f"{framing}: the request pending at that moment failed with {req.exc!r}, expected the protocol error", case,
                                      trace=sim.trace(40))
                    sim.run(until=lambda: d.done, max_time=sim.clock + 20)


def close_inside_delivery(ctx: Ctx) -> None:
    """The connection is closed from INSIDE the delivery of a message - by the library's own handler (a DisconnectRequest with application
    subscribers registered for that type too) or by a subscriber that force-disconnects: every subscriber registered for the type at that
    moment still gets the message exactly once (handler sets are unordered, so the closing handler may run first, last or in between)."""
    from aioesphomeapi import api_pb2 as pb

    res = ctx.res
    idx = 0
    for framing in ("plain", "noise"):
        for kind in ("peer-disconnect-request", "subscriber-forces-disconnect", "subscriber-forces-disconnect-all"):
            for n_subs in (1, 2, 3, 7, 40):
                for rep in range(3):
                    idx += 1
                    if not ctx.mine(idx):
                        continue
                    with Sim() as sim:
                        live = Live(sim, framing, record_all=False)
                        live.ensure()
                        conn = live.conn
                        calls: list[int] = []
                        cls = pb.DisconnectRequest if kind == "peer-disconnect-request" else pb.SensorStateResponse
                        closers = set(range(n_subs)) if kind.endswith("-all") else {(rep * 3) % n_subs} if kind.startswith("subscriber") else set()

                        def mk(i: int) -> Any:
                            def cb(m: Any) -> None:
                                calls.append(i)
                                if i in closers:
                                    conn.force_disconnect()
                            return cb

                        # registration order varies with rep: other types registered in between change nothing for this type
                        for i in range(n_subs):
                            conn.add_message_callback(mk(i), (cls,) if (i + rep) % 2 else (cls, pb.TextSensorStateResponse))
                        n_rx = len(live.dconn.received)
                        live.dconn.send_msg(cls())
                        live.dconn.send_msg(pb.SensorStateResponse(key=2))      # behind the closing message: must reach nobody
                        sim.run_for(0.01)
                        res.evaluations += 1
                        res.count(f"workload/close-inside-delivery/{kind}")
                        res.sig("close-inside", framing, kind, n_subs, rep)
                        case = {"framing": framing, "close_inside_delivery": kind, "subscribers": n_subs, "rep": rep}
                        exp = sorted(range(n_subs))
                        if sorted(calls) != exp:
                            missing = [i for i in exp if i not in calls]
                            res.violation("C12/close-inside-delivery/" + ("skipped" if missing else "extra"),
                                          f"{framing}: {n_subs} subscribers registered for {cls.__name__}, the connection is closed while it is being delivered "
                                          f"({kind}): {len(calls)} callbacks, never called: {missing[:8]}, more than once or after close: {sorted(set(c for c in calls if calls.count(c) > 1))[:8]}",
                                          case, trace=sim.trace(30))
                        if conn.connection_state.name != "CLOSED":
                            res.violation("C12/close-inside-delivery/not-closed", f"state {conn.connection_state.name}", case)
                        if kind == "peer-disconnect-request":
                            wrote = [r["name"] for r in live.dconn.received[n_rx:]]
                            if wrote != ["DisconnectResponse"]:
                                res.violation("C12/close-inside-delivery/disconnect-not-answered", f"client wrote {wrote}", case)


def shard(ctx: Ctx) -> None:
    from vf.sim import device as _device_fw  # noqa: PLC0415

    _device_fw.ROTATE_FIRMWARE = True    # the firmware flavour of default devices rotates (hello without a name, API 1.2 / 1.8 / 1.12, deep sleep)
    from vf.sim import device as _device

    _device.AUTO_ROTATE = True   # chunking of the device's stream rotates: as written / replies coalesced / cut into 1..8-byte pieces
    bad_payload_without_subscriber(ctx)
    undefined_frames_and_keepalive(ctx)
    crossing_disconnects(ctx)
    replies_behind_backlog(ctx)
    slow_subscribers(ctx)
    id_sweep(ctx)
    histories(ctx)
    peer_requests_during_connect(ctx)
    close_inside_delivery(ctx)
    bad_payload_while_disconnecting(ctx)


def replay(spec: dict[str, Any]) -> int:
    case = spec["case"]
    if "ops" in case:
        snap_beh.clear()
        o = run_history(case["framing"], case["ops"])
        print("\n".join(o["trace"]))
        print("expected", o["expected"])
        print("got", o["got"])
        return 0
    ctx = Ctx("C12", 0, 1, "quick", 0)
    with Sim() as sim:
        live = Live(sim, case["framing"])
        probe(ctx, live, case["id"], bytes.fromhex(case["payload"]) if not case["payload"].startswith("<") else b"", case["payload_class"])
        print("\n".join(sim.trace(40)))
    print(ctx.res.violations)
    return 1 if ctx.res.violations else 0

"""C20 — address resolution order / fallbacks and zeroconf ownership (engine R: real host_resolver + ZeroconfManager on a SimLoop,
fake mDNS and fake getaddrinfo that log every call; reference resolver written from the statement)."""

from __future__ import annotations

import ipaddress
import itertools
import socket
from typing import Any

from vf.common import Ctx
from vf.sim import mdns
from vf.sim.scenario import Sim

LEVEL = "exploration"
RULE = ("address lists of 1-3 hosts from {v4 literal, v6 literal, v6%numeric-scope literal, bare name, x.local, x.local., x.sub.local, x.sub.sub.local., FQDN, FQDN., FQDN with .local. inside, bare name with a 64-byte label, .local name with a control character (both not expressible in mDNS)} x per-host mDNS outcome "
        "{v4, v6, both, several of each, addresses but an incomplete answer (request reports failure), no answer within the timeout, raises} x per-host OS-resolver outcome {v4, v6, both (v4 first), empty, gaierror, "
        "unknown address family only} x zeroconf provision {no manager, empty manager, supplied AsyncZeroconf, supplied Zeroconf, instance the library "
        "created earlier and still uses, empty manager on a host where no mDNS socket can be opened (followed by the application supplying its own instance)} x entry point {host_resolver.async_resolve_host, APIClient.start_connection (addresses captured at the "
        "resolve->connect boundary, TCP attempts at the fake sockets)}; complete for <= 2 hosts, seeded sample for 3; caller cancellation / 30 s resolve "
        "timeout during an mDNS request or an OS lookup; ZeroconfManager operation sequences (all of length <= 5 over set/get/close/get-while-creation-fails). Oracle: reference "
        "resolver from the statement (result blocks in configured order, v6 before v4 inside an mDNS block, literal verbatim incl. scope id and port), "
        "exact lookup-call trace (none for literals, mDNS before OS, OS only when mDNS gave nothing, OS only for other names), never [] and never a raw "
        "OSError, close counts per fake instance (supplied: 0 on every path; library-created: exactly 1 once no longer needed). Non-trivial = the real "
        "resolver ran and its result, call trace and close counts were compared; distinct = (forms, outcomes, provision, entry, ending)")
ASSUMPTIONS = [
    "zeroconf's AsyncZeroconf/Zeroconf/AsyncServiceInfo are replaced, as bound in aioesphomeapi.zeroconf / aioesphomeapi.host_resolver, by logging doubles "
    "(the real ones need multicast sockets); loop.getaddrinfo is the simulated DNS",
    "order of several OS-resolver results for ONE host is compared as a multiset (the statement orders hosts, and v6-before-v4 for mDNS only)",
    "which error class/message is raised when nothing resolves is judged only as 'an APIConnectionError'; upper-case .LOCAL, a.b.local and non-numeric "
    "scope ids are outside the statement and not driven",
]
BUDGET_S = {"quick": 300, "thorough": 1800}
MIN_EVALS = {"quick": 3000, "thorough": 20000}
PORT = 6053

LITERAL = ("v4", "v6", "v6scope", "v6scope-same-text", "v6-ula-scoped", "v6-sitelocal-scoped")   # last: the same link-local text for every host, only the numeric scope differs
NAMES = ("bare", "local", "local.", "sub.local", "sub.local.", "local-underscore", "bare-underscore")   # (a name below a sub-domain of .local is a .local name too)
FQDN = ("fqdn", "fqdn.", "fqdn-local-inside")
UNEXPRESSIBLE = ("bare-64-byte-label", "local-control-char")   # bare / .local names that mDNS cannot express: the lookup fails before any request -> OS resolver
MDNS_FOUND = ("v4", "v6", "both", "multi", "incomplete-both", "same-text-two-scopes")   # incomplete: addresses received but no SRV/TXT within the timeout (request reports False)
MDNS_NOTHING = ("none", "raise")
OS_KINDS = ("v4", "v6", "both", "empty", "gaierror", "unknown-family", "v6-scoped", "v6-flow")
PROVISIONS = ("no-manager", "empty-manager", "supplied-async", "supplied-sync", "library-precreated", "empty-manager+create-fault",
              "supplied-async-closed-by-app")   # the application shut its own instance down before this resolve: nothing answers on it, nothing new is created


def label(form: str, i: int) -> str:
    """First label of host i = the name mDNS is asked for (node names with an underscore are ordinary ESPHome names)."""
    return f"dev_{i}" if form.endswith("-underscore") else f"dev{i}"


def host_str(form: str, i: int) -> str:
    if form == "local-underscore":
        return f"dev_{i}.local"
    if form == "bare-underscore":
        return f"dev_{i}"
    return {"v4": f"10.{i}.9.9", "v6": f"fd00:{i}::99", "v6scope": f"fe80::{i}:99%{i + 2}", "v6scope-same-text": f"fe80::1c2d:3eff:fe4f:5a6b%{i + 2}",
            "v6-ula-scoped": f"fd12:3456:{i}::10%{i + 2}", "v6-sitelocal-scoped": f"fec0::{i}:9%4",   # a numeric scope on an address outside fe80::/10 is used verbatim too
            "bare": f"dev{i}", "local": f"dev{i}.local",
            "local.": f"dev{i}.local.", "sub.local": f"dev{i}.iot.local", "sub.local.": f"dev{i}.corp.lan.local.",
            "fqdn-local-inside": f"dev{i}.local.example.com", "bare-64-byte-label": f"dev{i}" + "x" * 60, "local-control-char": f"dev{i}\x07.local", "fqdn": f"dev{i}.example.com", "fqdn.": f"dev{i}.example.com."}[form]


def mdns_answer(kind: str, i: int) -> Any:
    if kind == "v4":
        return {"v4": [f"10.{i}.0.1"]}
    if kind == "v6":
        return {"v6": [f"fd00:{i}::1"]}
    if kind == "both":
        return {"v4": [f"10.{i}.0.1"], "v6": [f"fd00:{i}::1"]}
    if kind == "multi":
        return {"v4": [f"10.{i}.0.1", f"10.{i}.0.2"], "v6": [f"fd00:{i}::1", f"fe80::{i}:2%{i + 4}"]}
    if kind == "same-text-two-scopes":
        # one MAC-derived link-local address announced on two interfaces: same text, two zones - two different destinations
        return {"v4": [f"10.{i}.0.1"], "v6": [f"fe80::{i}:2%4", f"fe80::{i}:2%5"]}
    if kind == "incomplete-both":
        return {"v4": [f"10.{i}.0.1"], "v6": [f"fd00:{i}::1"], "incomplete": True}
    if kind == "none":
        return "none"
    if kind == "raise":
        return OSError(f"mdns socket error {i}")
    if kind == "hang":
        return "hang"
    raise ValueError(kind)


def os_answer(kind: str, i: int) -> Any:
    if kind == "v4":
        return [f"10.{i}.1.1"]
    if kind == "v6":
        return [f"fd00:{i}:1::1"]
    if kind == "both":
        return [f"10.{i}.1.1", f"fd00:{i}:1::1"]
    if kind == "empty":
        return []
    if kind == "gaierror":
        return socket.gaierror(socket.EAI_NONAME, "Name or service not known")
    if kind == "unknown-family":
        return [(socket.AF_UNIX, socket.SOCK_STREAM, 0, "", "/tmp/x")]
    if kind == "v6-scoped":
        # link-local answers: the OS reports the zone only as the numeric scope_id of the sockaddr, the address text has no %zone
        return [f"fe80::{i}:7%{i + 5}", f"10.{i}.1.1"]
    if kind == "v6-flow":
        return [(socket.AF_INET6, socket.SOCK_STREAM, socket.IPPROTO_TCP, "", (f"fd00:{i}:2::1", PORT, 9, 0))]
    if kind == "hang":
        return "hang"
    raise ValueError(kind)


def tup(ip: str) -> tuple[Any, ...]:
    """Canonical (family, address, port, flowinfo, scope) of an expected address."""
    if ":" in ip:
        a, _, scope = ip.partition("%")
        return ("v6", str(ipaddress.ip_address(a)), PORT, 0, int(scope or 0))
    return ("v4", ip, PORT)


def reference(hosts: list[tuple[str, str, str]], mdns_available: bool = True, mdns_answers: bool = True) -> dict[str, Any]:
    """Reference resolver written from the statement. hosts = [(form, mdns kind, os kind)].
    mdns_available=False: no mDNS socket can be opened at all (every name falls back to the OS resolver, no mDNS request is ever made)."""
    blocks: list[list[list[tuple[Any, ...]]]] = []   # per host: ordered groups, each group compared as a multiset
    calls: list[tuple[str, str]] = []
    for i, (form, md, os_) in enumerate(hosts):
        host = host_str(form, i)
        groups: list[list[tuple[Any, ...]]] = []
        if form in LITERAL:
            groups = [[tup(host)]]
        else:
            if form in NAMES and mdns_available:
                calls.append(("mdns", label(form, i)))
                if md == "hang":
                    return {"kind": "cut", "calls": calls}
                if md in MDNS_FOUND and mdns_answers:
                    ans = mdns_answer(md, i)
                    groups = [g for g in ([tup(x) for x in ans.get("v6", [])], [tup(x) for x in ans.get("v4", [])]) if g]
            if not groups:
                calls.append(("os", host))
                if os_ == "hang":
                    return {"kind": "cut", "calls": calls}
                if os_ in ("gaierror", "-"):   # "-": no OS answer configured for this host = the simulated resolver does not know the name
                    return {"kind": "error", "calls": calls}
                ans = os_answer(os_, i)
                g = [tup(x) for x in ans if isinstance(x, str)] + \
                    [("v6", str(ipaddress.ip_address(x[4][0])), *x[4][1:]) for x in ans if isinstance(x, tuple) and x[0] == socket.AF_INET6]
                groups = [g] if g else []
        blocks.append(groups)
    if not any(blocks):
        return {"kind": "error", "calls": calls}
    return {"kind": "ok", "blocks": blocks, "calls": calls}


def canon_addrinfo(a: Any) -> tuple[Any, ...]:
    s = a.sockaddr
    if a.family == socket.AF_INET6:
        try:
            a = str(ipaddress.ip_address(s.address))
        except ValueError:
            a = s.address
        return ("v6", a, s.port, s.flowinfo, s.scope_id)
    if a.family == socket.AF_INET:
        return ("v4", s.address, s.port)
    return ("other", a.family)


def match_blocks(got: list[tuple[Any, ...]], blocks: list[list[list[tuple[Any, ...]]]]) -> str | None:
    pos = 0
    for hi, groups in enumerate(blocks):
        for g in groups:
            part = got[pos:pos + len(g)]
            if sorted(map(repr, part)) != sorted(map(repr, g)):
                flat = [x for gs in blocks for gg in gs for x in gg]
                if sorted(map(repr, got)) == sorted(map(repr, flat)):
                    return f"order: host #{hi} expected {g} at position {pos}, result {got}"
                return f"content: expected {flat}, result {got}"
            pos += len(g)
    if pos != len(got):
        return f"content: {len(got) - pos} extra addresses {got[pos:]}"
    return None


def run_case(case: dict[str, Any]) -> dict[str, Any]:
    """case = {hosts: [(form, mdns, os)], provision, entry, ending: None | ('cancel', t) }"""
    from aioesphomeapi import host_resolver as hr
    from aioesphomeapi import connection as C
    from aioesphomeapi.zeroconf import ZeroconfManager

    hosts = case["hosts"]
    out: dict[str, Any] = {}
    with Sim() as sim, mdns.MdnsPatch(sim) as world:
        for i, (form, md, os_) in enumerate(hosts):
            if form in NAMES and md != "-":
                world.answers[label(form, i)] = mdns_answer(md, i)
            if form not in LITERAL and os_ != "-":
                sim.net.dns[host_str(form, i)] = os_answer(os_, i)
        prov = case["provision"]
        supplied = None
        mgr: Any = None
        pre = None
        if prov in ("supplied-async", "supplied-async-closed-by-app"):
            supplied = world.supplied_async()
            mgr = ZeroconfManager(supplied)
            if prov.endswith("closed-by-app"):
                supplied.zeroconf.closed_by_app = True
                supplied.zeroconf._close()  # noqa: SLF001
        elif prov == "supplied-sync":
            supplied = world.supplied_zeroconf()
            mgr = ZeroconfManager(supplied)
        elif prov in ("empty-manager", "empty-manager+create-fault"):
            mgr = ZeroconfManager()
            if prov.endswith("create-fault"):
                world.create_fault = OSError(19, "No such device (no multicast-capable interface)")
        elif prov == "library-precreated" and case["entry"] == "direct":
            mgr = ZeroconfManager()
            pre = mgr.get_async_zeroconf().zeroconf
        host_list = [host_str(f, i) for i, (f, _, _) in enumerate(hosts)]
        # earlier resolutions of the SAME hosts through the SAME manager, in other worlds (the device was off / known only to the OS resolver / ...),
        # each run to completion and some time before the one that is judged: what they found must not matter now
        marks = (0, 0, 0)
        if case.get("history") and mgr is not None:
            for world_k, gap in case["history"]:
                for i, (form, _md, _os) in enumerate(hosts):
                    md_k, os_k = world_k[i]
                    world.answers.pop(label(form, i), None)
                    sim.net.dns.pop(host_str(form, i), None)
                    if form in NAMES and md_k != "-":
                        world.answers[label(form, i)] = mdns_answer(md_k, i)
                    if form not in LITERAL and os_k != "-":
                        sim.net.dns[host_str(form, i)] = os_answer(os_k, i)
                early = sim.call("resolve-earlier", lambda: hr.async_resolve_host(list(host_list), PORT, mgr))
                sim.run(until=lambda: early.done, max_time=sim.clock + 100)
                sim.run_for(gap)
            for i, (form, md, os_) in enumerate(hosts):
                world.answers.pop(label(form, i), None)
                sim.net.dns.pop(host_str(form, i), None)
                if form in NAMES and md != "-":
                    world.answers[label(form, i)] = mdns_answer(md, i)
                if form not in LITERAL and os_ != "-":
                    sim.net.dns[host_str(form, i)] = os_answer(os_, i)
            marks = (len(world.requests), len(sim.net.dns_calls), len(sim.net.connect_attempts))
        captured: list[Any] = []
        orig_csc = C.APIConnection._connect_socket_connect  # noqa: SLF001
        cli = None
        if case["entry"] == "direct":
            rec = sim.call("resolve", lambda: hr.async_resolve_host(list(host_list), PORT, mgr))
        else:
            async def spy(self: Any, addrs: Any) -> None:
                captured.append(list(addrs))
                return await orig_csc(self, addrs)

            C.APIConnection._connect_socket_connect = spy  # type: ignore[method-assign]  # noqa: SLF001
            kw: dict[str, Any] = {}
            if prov in ("supplied-async", "supplied-sync", "supplied-async-closed-by-app"):
                kw["zeroconf_instance"] = supplied
            cli = sim.client(host_list[0], PORT, None, addresses=list(host_list), **kw)
            if prov == "library-precreated":
                pre = cli.zeroconf_manager.get_async_zeroconf().zeroconf
            mgr = cli.zeroconf_manager
            if prov.endswith("create-fault"):
                world.create_fault = OSError(19, "No such device (no multicast-capable interface)")
            rec = sim.call("start_connection", lambda: cli.start_connection())
        try:
            ending = case.get("ending")
            if ending and ending[0] == "cancel":
                sim.after(ending[1], lambda: sim.cancel(rec))
            if ending and ending[0] == "double-cancel":
                # second cancellation while the first one is still being handled (e.g. while the library closes the instance it created)
                sim.run(max_time=sim.clock + ending[1])
                sim.cancel(rec)
                n0 = sum(z.close_calls for z in world.library_instances())
                for _ in range(30):
                    if rec.done or sum(z.close_calls for z in world.library_instances()) > n0:
                        break
                    sim.step()
                if not rec.done and rec.task is not None:
                    out["second_cancel_during_close"] = sum(z.close_calls for z in world.library_instances()) > n0
                    rec.task.cancel()
            sim.run(until=lambda: rec.done, max_time=sim.clock + 400)
            sim.settle()
            if ending and ending[0] in ("cancel", "double-cancel") and case["entry"] == "direct":
                # the same manager is used again afterwards: the lookups now answer
                for i, (form, md, os_) in enumerate(hosts):
                    if form in NAMES and md == "hang":
                        world.answers[label(form, i)] = mdns_answer("v4", i)
                    if os_ == "hang":
                        sim.net.dns[host_str(form, i)] = os_answer("v4", i)
                out["cut_seq"] = sim.next_seq()
                again = sim.call("resolve-again", lambda: hr.async_resolve_host(list(host_list), PORT, mgr))
                sim.run(until=lambda: again.done, max_time=sim.clock + 100)
                out["again"] = again
                sim.settle()
            out["lib_after_call"] = [(z.idx, z.close_calls) for z in world.library_instances()]
            if prov.endswith("create-fault") and mgr is not None:
                # later the application hands its own instance to the same manager (ReconnectLogic(zeroconf_instance=...) does this)
                world.create_fault = None
                late = world.supplied_async()
                try:
                    mgr.set_instance(late)
                except RuntimeError as e:
                    out["late_set_instance"] = repr(e)
            if mgr is not None:
                fin = sim.call("manager.async_close", lambda: mgr.async_close())
                sim.run(until=lambda: fin.done, max_time=sim.clock + 5)
                out["final_close"] = fin.outcome
            sim.settle()
        finally:
            C.APIConnection._connect_socket_connect = orig_csc  # type: ignore[method-assign]  # noqa: SLF001
        out.update({
            "rec": rec, "captured": captured, "pre": None if pre is None else pre.idx,
            "requests": list(world.requests)[marks[0]:], "dns_calls": list(sim.net.dns_calls)[marks[1]:], "dns_seqs": list(sim.net.dns_seqs)[marks[1]:],
            "instances": [(z.idx, z.origin, z.close_calls, z.used_after_close) for z in world.instances],
            "tcp": [(a["address"], a["outcome"]) for a in sim.net.connect_attempts[marks[2]:]],
            "loop_exceptions": list(sim.loop_exceptions), "harness_errors": list(sim.harness_errors), "trace": sim.trace(60),
            "mlog": list(world.log),
        })
    return out


def judge(case: dict[str, Any], o: dict[str, Any]) -> list[tuple[str, str]]:
    from aioesphomeapi.core import APIConnectionError

    out: list[tuple[str, str]] = []
    hosts = case["hosts"]
    ref = reference(hosts, mdns_available=not case["provision"].endswith("create-fault"), mdns_answers=not case["provision"].endswith("closed-by-app"))
    rec = o["rec"]
    ending = case.get("ending")
    direct = case["entry"] == "direct"
    # ---- result / error
    if not ending:
        if not rec.done:
            out.append(("C20/resolve-never-ended", "the call was still pending 400 s later"))
        elif direct:
            if rec.outcome == "ok":
                got = [canon_addrinfo(a) for a in rec.result]
                if not got:
                    out.append(("C20/empty-result-returned", "async_resolve_host returned [] instead of raising"))
                elif ref["kind"] == "error":
                    out.append(("C20/result-instead-of-error", f"returned {got}; the reference resolver raises"))
                else:
                    m = match_blocks(got, ref["blocks"])
                    if m:
                        out.append((f"C20/{m.split(':')[0]}", m))
            elif rec.outcome == "raised":
                if not isinstance(rec.exc, APIConnectionError):
                    out.append((f"C20/raw-exception/{type(rec.exc).__name__}", f"raised {rec.exc!r}"))
                elif ref["kind"] == "ok":
                    out.append(("C20/error-instead-of-result", f"raised {rec.exc!r}; the reference resolver returns {ref['blocks']}"))
            else:
                out.append(("C20/unexpected-ending", rec.outcome))
        else:
            # start_connection: nothing listens, so it always raises; what matters is what reached the connect step
            if rec.outcome != "raised" or not isinstance(rec.exc, APIConnectionError):
                out.append((f"C20/raw-exception/{type(rec.exc).__name__}", f"start_connection ended {rec.outcome} {rec.exc!r}"))
            if ref["kind"] == "error":
                if o["captured"] or o["tcp"]:
                    out.append(("C20/result-instead-of-error", f"connect step reached with {o['captured']} / TCP {o['tcp']}; the reference resolver raises"))
            elif not o["captured"]:
                out.append(("C20/error-instead-of-result", f"connect step never reached ({rec.exc!r}); reference {ref['blocks']}"))
            else:
                got = [canon_addrinfo(a) for a in o["captured"][0]]
                m = match_blocks(got, ref["blocks"])
                if m:
                    out.append((f"C20/{m.split(':')[0]}", m))
                flat = {tuple(x[1:]) for gs in ref["blocks"] for g in gs for x in g}     # (text, port[, flowinfo, scope]): the same text under two scopes are two addresses
                for addr, _ in o["tcp"]:
                    if (str(ipaddress.ip_address(addr[0])), *addr[1:]) not in flat:
                        out.append(("C20/tcp-attempt-to-unexpected-address", f"TCP attempt to {addr}; expected one of {sorted(flat, key=repr)}"))
                        break
                if not o["tcp"]:
                    out.append(("C20/no-tcp-attempt", "addresses resolved but no TCP attempt was made"))
    elif ending[0] in ("cancel", "double-cancel"):
        again = o.get("again")
        if again is not None:
            if not again.done:
                out.append(("C20/resolve-never-ended", "the resolve made after a cancelled one never ended"))
            elif again.outcome != "ok" or not again.result:
                out.append(("C20/resolve-after-cancel-failed", f"a resolve on the same manager after a cancelled one ended {again.outcome} {again.exc!r}"))
    elif ending[0] == "resolve-timeout":
        if not rec.done:
            out.append(("C20/resolve-never-ended", "a hanging lookup was not cut off by the resolve timeout within 400 s"))
        elif rec.outcome != "raised" or not isinstance(rec.exc, APIConnectionError):
            out.append((f"C20/raw-exception/{type(rec.exc).__name__}", f"hanging lookup ended {rec.outcome} {rec.exc!r}"))
        elif o["captured"] or o["tcp"]:
            out.append(("C20/result-instead-of-error", "connect step reached although the resolve timed out"))
    # ---- lookup-call trace (exact unless the call was cut short, then a prefix)
    seen: list[tuple[int, str, str]] = []
    for r in o["requests"]:
        seen.append((r["seq"], "mdns", r["name"].partition(".")[0]))
        if r["name"] != f"{r['name'].partition('.')[0]}._esphomelib._tcp.local." or r["type"] != "_esphomelib._tcp.local." \
                or r["server"] != f"{r['name'].partition('.')[0]}.local.":
            out.append(("C20/mdns-request-shape", f"mDNS request {r['type']} {r['name']} server={r['server']}"))
    dns_t = o["dns_calls"]
    # dns_calls carry no seq; merge by virtual time with mDNS requests (ties cannot occur: an mDNS request takes > 0 s)
    merged = sorted([(r["seq"], "mdns", r["name"].partition(".")[0]) for r in o["requests"]]
                    + [(sq, "os", h) for sq, (_t, h, _p) in zip(o["dns_seqs"], dns_t)])
    got_calls = [(k, n) for sq, k, n in merged if sq < o.get("cut_seq", 1 << 60)]
    exp_calls = ref["calls"]
    if ending:
        if got_calls != exp_calls[:len(got_calls)]:
            out.append(("C20/lookup-trace", f"lookups {got_calls}; reference (prefix of) {exp_calls}"))
    elif got_calls != exp_calls:
        lit = [host_str(f, i) for i, (f, _, _) in enumerate(hosts) if f in LITERAL]
        key = "C20/lookup-trace"
        if any(n in lit for _, n in got_calls):
            key = "C20/lookup-for-literal"
        elif [c for c in got_calls if c[0] == "os"] != [c for c in exp_calls if c[0] == "os"]:
            key = "C20/os-lookup-trace"
        elif [c for c in got_calls if c[0] == "mdns"] != [c for c in exp_calls if c[0] == "mdns"]:
            key = "C20/mdns-lookup-trace"
        out.append((key, f"lookups {got_calls}; reference {exp_calls}"))
    for _t, _h, p in dns_t:
        if p != PORT:
            out.append(("C20/os-lookup-port", f"getaddrinfo called with port {p}"))
            break
    # ---- ownership
    for idx, origin, closes, after in o["instances"]:
        if origin == "supplied" and closes > (1 if case["provision"].endswith("closed-by-app") else 0):
            out.append(("C20/supplied-instance-closed", f"the application's zeroconf instance #{idx} was closed {closes}x by the library"))
        if origin == "library":
            if closes > 1:
                out.append(("C20/library-instance-closed-twice", f"library-created instance #{idx} closed {closes}x"))
            if closes == 0:
                out.append(("C20/library-instance-leaked", f"library-created instance #{idx} never closed (after the call and manager.async_close())"))
        if after and not (origin == "supplied" and case["provision"].endswith("closed-by-app")):
            out.append(("C20/instance-used-after-close", f"instance #{idx} ({origin}) used {after}x after it was closed"))
    for idx, closes in o["lib_after_call"]:
        if "again" in o:
            break   # (a later resolve legitimately creates and closes further instances; totals are judged above)
        if idx == o["pre"]:
            if closes:
                out.append(("C20/shared-library-instance-closed-by-resolve", f"instance #{idx}, created earlier and still in use, was closed by the resolve"))
        elif closes != 1:
            out.append(("C20/library-instance-not-closed-at-return", f"instance #{idx} created for this resolve has {closes} closes when the call returned"))
    return out


def per_host_options() -> list[tuple[str, str, str]]:
    opts: list[tuple[str, str, str]] = [(f, "-", "-") for f in LITERAL]
    for f in NAMES:
        opts += [(f, m, "-") for m in MDNS_FOUND]
        opts += [(f, m, o) for m in MDNS_NOTHING for o in OS_KINDS]
    for f in FQDN + UNEXPRESSIBLE:
        opts += [(f, "-", o) for o in OS_KINDS]
    return opts


def one(ctx: Ctx, case: dict[str, Any], label: str) -> None:
    res = ctx.res
    o = run_case(case)
    res.evaluations += 1
    if o["harness_errors"]:
        res.inconclusive.append(f"{label}: {o['harness_errors'][0][-300:]}")
        return
    res.count(f"workload/{label}")
    res.count("mdns_requests_observed", len(o["requests"]))
    res.count("os_lookups_observed", len(o["dns_calls"]))
    res.count("zeroconf_instances/library", sum(1 for i in o["instances"] if i[1] == "library"))
    res.count("zeroconf_instances/supplied", sum(1 for i in o["instances"] if i[1] == "supplied"))
    res.count("tcp_attempts_observed", len(o["tcp"]))
    rec = o["rec"]
    res.count(f"ending/{rec.outcome}" + (f"/{type(rec.exc).__name__}" if rec.outcome == "raised" else ""))
    res.sig(tuple(case["hosts"]), case["provision"], case["entry"], case.get("ending") and case["ending"][0], rec.outcome)
    for key, what in judge(case, o):
        res.violation(key, what, {"case": case}, trace=o["trace"][-40:])
    if res.evaluations % 400 == 1:
        res.sample({"case": case, "hosts": [host_str(f, i) for i, (f, _, _) in enumerate(case["hosts"])], "outcome": rec.brief(),
                    "result": [canon_addrinfo(a) for a in rec.result] if rec.outcome == "ok" and rec.result else None,
                    "lookups": [(r["name"]) for r in o["requests"]] + [h for _, h, _ in o["dns_calls"]],
                    "instances(idx,origin,closes,used_after_close)": o["instances"]})


# ---------------------------------------------------------------- ZeroconfManager operation sequences
MGR_OPS = ("set_A", "set_A_sync", "set_B", "get", "close", "get_fails")


def run_manager_sequence(seq: tuple[str, ...], init: str) -> list[tuple[str, str]]:
    from aioesphomeapi.zeroconf import ZeroconfManager

    out: list[tuple[str, str]] = []
    with Sim() as sim, mdns.MdnsPatch(sim) as world:
        A = world.supplied_async()
        B = world.supplied_async()
        if init == "A":
            mgr = ZeroconfManager(A)
            cur: Any = A.zeroconf
        elif init == "A_sync":
            mgr = ZeroconfManager(A.zeroconf)
            cur = A.zeroconf
        else:
            mgr = ZeroconfManager()
            cur = None
        created = False
        lib_expected_closed: set[int] = set()
        for k, op in enumerate(seq):
            if op in ("set_A", "set_A_sync", "set_B"):
                arg = A if op == "set_A" else A.zeroconf if op == "set_A_sync" else B
                under = arg.zeroconf if isinstance(arg, mdns.FakeAsyncZeroconf) else arg
                exp_err = cur is not None and cur is not under
                try:
                    mgr.set_instance(arg)
                    raised = None
                except RuntimeError as e:
                    raised = e
                except Exception as e:  # noqa: BLE001
                    out.append(("C20/manager/unexpected-exception", f"step {k} {op}: {e!r}"))
                    return out
                if exp_err and raised is None:
                    out.append(("C20/manager/different-instance-accepted", f"step {k} {op} accepted while another instance is set ({seq}, init {init})"))
                    return out
                if not exp_err and raised is not None:
                    out.append(("C20/manager/same-instance-rejected", f"step {k} {op} raised {raised!r} ({seq}, init {init})"))
                    return out
                if not exp_err and cur is None:
                    cur = under
            elif op == "get_fails":
                # no mDNS socket can be opened: creating an instance raises; with an instance already set nothing is created
                world.create_fault = OSError(19, "No such device")
                try:
                    got = mgr.get_async_zeroconf()
                    if cur is None:
                        out.append(("C20/manager/create-fault-swallowed", f"step {k}: get returned {got!r} although creating an instance fails ({seq}, init {init})"))
                        return out
                    if got.zeroconf is not cur:
                        out.append(("C20/manager/get-returned-other-instance", f"step {k}: get returned #{got.zeroconf.idx}, current is #{cur.idx} ({seq}, init {init})"))
                        return out
                except OSError:
                    if cur is not None:
                        out.append(("C20/manager/unexpected-exception", f"step {k} get with an instance set raised ({seq}, init {init})"))
                        return out
                finally:
                    world.create_fault = None
            elif op == "get":
                try:
                    got = mgr.get_async_zeroconf()
                except Exception as e:  # noqa: BLE001
                    out.append(("C20/manager/unexpected-exception", f"step {k} get: {e!r}"))
                    return out
                if cur is None:
                    if got.zeroconf.origin != "library" or got.zeroconf.close_calls:
                        out.append(("C20/manager/get-did-not-create-fresh", f"step {k}: get returned instance #{got.zeroconf.idx} "
                                    f"({got.zeroconf.origin}, closes={got.zeroconf.close_calls}) ({seq}, init {init})"))
                        return out
                    cur = got.zeroconf
                    created = True
                elif got.zeroconf is not cur:
                    out.append(("C20/manager/get-returned-other-instance", f"step {k}: get returned #{got.zeroconf.idx}, current is #{cur.idx} ({seq}, init {init})"))
                    return out
            else:
                c = sim.call("close", lambda: mgr.async_close())
                sim.run(until=lambda: c.done, max_time=sim.clock + 5)
                if c.outcome != "ok":
                    out.append(("C20/manager/unexpected-exception", f"step {k} close: {c.exc!r}"))
                    return out
                if created and cur is not None:
                    lib_expected_closed.add(cur.idx)
                    cur = None
                    created = False
            if mgr.has_instance != (cur is not None):
                out.append(("C20/manager/has_instance", f"after step {k} {op}: has_instance={mgr.has_instance}, model {cur is not None} ({seq}, init {init})"))
                return out
            for z in world.instances:
                exp = 1 if z.idx in lib_expected_closed else 0
                if z.close_calls != exp:
                    key = "C20/supplied-instance-closed" if z.origin == "supplied" else \
                        ("C20/library-instance-closed-twice" if z.close_calls > exp and exp else
                         "C20/manager/library-instance-closed-early" if z.close_calls > exp else "C20/library-instance-leaked")
                    out.append((key, f"after step {k} {op}: instance #{z.idx} ({z.origin}) has {z.close_calls} closes, model {exp} ({seq}, init {init})"))
                    return out
    return out


def manager_sequences(ctx: Ctx) -> None:
    res = ctx.res
    n = 0
    maxlen = 5 if ctx.thorough else 4
    for init in ("empty", "A", "A_sync"):
        for ln in range(1, maxlen + 1):
            for seq in itertools.product(MGR_OPS, repeat=ln):
                n += 1
                if not ctx.mine(n):
                    continue
                found = run_manager_sequence(seq, init)
                res.evaluations += 1
                res.count("workload/manager-sequences")
                res.sig("mgr", init, seq)
                for key, what in found:
                    res.violation(key, what, {"manager_sequence": list(seq), "init": init})


def shard(ctx: Ctx) -> None:
    opts = per_host_options()
    rng = ctx.rng.__class__(f"C20/{ctx.seed}")
    idx = 0
    # one host: everything x every provision x both entries
    for h in opts:
        for prov in PROVISIONS:
            for entry in ("direct", "client"):
                idx += 1
                if ctx.mine(idx):
                    one(ctx, {"hosts": [h], "provision": prov, "entry": entry}, "one-host")
    # two hosts: complete matrix (direct entry, provision rotating; thorough: every provision)
    for a, b in itertools.product(opts, repeat=2):
        idx += 1
        provs = PROVISIONS if ctx.thorough else (PROVISIONS[idx % len(PROVISIONS)],)
        for prov in provs:
            idx += 1
            if ctx.mine(idx):
                one(ctx, {"hosts": [a, b], "provision": prov, "entry": "direct" if idx % 3 else "client"}, "two-hosts")
    # three hosts: seeded sample
    for _ in range(12000 if ctx.thorough else 1500):
        hs = [rng.choice(opts) for _ in range(3)]
        prov = rng.choice(PROVISIONS)
        entry = rng.choice(("direct", "client"))
        idx += 1
        if ctx.mine(idx):
            one(ctx, {"hosts": hs, "provision": prov, "entry": entry}, "three-hosts")
    # cut short: caller cancellation during a hanging mDNS request / OS lookup, and the library's own 30 s resolve timeout
    for form in NAMES + FQDN:
        for where in ("mdns", "os"):
            if where == "mdns" and form not in NAMES:
                continue
            for prov in PROVISIONS:
                if prov.endswith("create-fault") or prov.endswith("closed-by-app"):
                    continue   # (no mDNS request can hang when no mDNS socket exists / nothing answers on an instance the application shut down)
                for entry in ("direct", "client"):
                    for ending in (("cancel", 0.01), ("cancel", 1.0), ("double-cancel", 0.01), ("double-cancel", 1.0), None):
                        for second in (("v4", "-", "-"), ("bare", "both", "-")):
                            idx += 1
                            if not ctx.mine(idx):
                                continue
                            h = (form, "hang", "-") if where == "mdns" else (form, "none", "hang")
                            if ending is None and entry == "direct":
                                continue  # only the client path has a resolve timeout
                            case = {"hosts": [second, h], "provision": prov, "entry": entry, "ending": ending or ("resolve-timeout",)}
                            one(ctx, case, "cut-short")
    # histories: the same hosts resolved before through the same manager, in another world
    worlds = [("none", "gaierror"), ("none", "v4"), ("v4", "-"), ("both", "v4"), ("raise", "gaierror"), ("incomplete-both", "-"), ("none", "empty")]
    for form in ("bare", "local", "local.", "sub.local"):
        for prov in ("empty-manager", "supplied-async", "supplied-sync", "library-precreated"):
            for earlier in worlds:
                for now in worlds:
                    for gap in (0.0, 2.0, 61.0):
                        idx += 1
                        if not ctx.mine(idx) or (not ctx.thorough and (idx // ctx.nshards) % 3):
                            continue
                        hist = [[[list(earlier)], gap]] if idx % 2 else [[[list(earlier)], 0.5], [[list(earlier)], gap]]
                        one(ctx, {"hosts": [(form, now[0], now[1])], "provision": prov, "entry": "direct", "history": hist}, "after-earlier-resolutions")
    manager_sequences(ctx)


def exhaustive(tier: str) -> Any:
    subs = ["all single-host cases x 5 provisions x 2 entry points", "all ordered pairs of per-host options (78^2) for the direct/client entry"
            + (" x every provision" if tier == "thorough" else " with the provision rotating"),
            f"all ZeroconfManager operation sequences of length <= {5 if tier == 'thorough' else 4} over {{set_A, set_A_sync, set_B, get, close, get-while-creation-fails}} from 3 initial states"]
    return subs


def replay(spec: dict[str, Any]) -> int:
    c = spec["case"]
    if "manager_sequence" in c:
        found = run_manager_sequence(tuple(c["manager_sequence"]), c["init"])
        print(found)
        return 1 if found else 0
    case = c["case"]
    case["hosts"] = [tuple(h) for h in case["hosts"]]
    if case.get("ending"):
        case["ending"] = tuple(case["ending"])
    o = run_case(case)
    print("\n".join(o["trace"]))
    found = judge(case, o)
    print(found)
    return 1 if found else 0

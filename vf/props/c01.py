"""C01 — plaintext stream reassembly is lossless and independent of TCP segmentation.

Oracle: frames F1..Fm are encoded by the independent codec into a stream; with
cumulative chunk ends b1<..<br and frame ends e1<..<em, frame Fi must be handed
to process_packet during data_received call min{j | bj >= ei}, value-equal, in
order, once; nothing else may be delivered; no error may be reported; bytes of
a trailing partial frame are kept and the frame appears when its rest arrives.
"""

from __future__ import annotations

import itertools
from typing import Any

from vf import refcodec, wire
from vf.common import Ctx

LEVEL = "exploration"
RULE = ("cases = (frame sequence, trailing partial frame, segmentation of the byte stream, chunk buffer type); "
        "streams: every (type-class x length-class) single frame, seeded multi-frame streams, bursts of 129..6000 small frames, and all tiny streams; "
        "segmentations: whole / per-frame / bytewise / every single cut / pairs / random / ALL 2^(n-1) for short streams; "
        "a case is non-trivial when at least one frame was delivered and checked; distinct = distinct "
        "(frame shape classes, cut-position classes, buffer type, trailing class) signature")
ASSUMPTIONS = [
    "device encodes minimal varints and a single 0x00 preamble (the documented format)",
    "RecTransport reproduces the asyncio selector transport contract the helper relies on (calibrated in setup)",
    "process_packet boundary observed on a recording stand-in for APIConnection (engine W); engine S re-checks end to end",
]
BUDGET_S = {"quick": 240, "thorough": 2400}
MIN_EVALS = {"quick": 5000, "thorough": 100000}

TYPES = [0, 1, 2, 127, 128, 255, 16383, 16384, 2**21 - 1, 2**21, 2**28, 2**32 - 1]
LENS = [0, 1, 2, 3, 126, 127, 128, 129, 16383, 16384, 16385, 70000]


def exhaustive(tier: str) -> Any:
    n = 14 if tier == "thorough" else 10
    return [f"all 2^(n-1) segmentations of every stream of <= {n} bytes built from 1-3 tiny frames (types 1,127,128,300; payload 0-3)"]


def payload(n: int, salt: int) -> bytes:
    # deterministic, non-repeating-ish content so misplaced offsets show as value differences
    return bytes(((i * 131 + salt * 17 + (i >> 8) * 7) ^ 0x5A) & 0xFF for i in range(n)) if n < 4096 else \
        (bytes(((i * 131 + salt * 17) ^ 0x5A) & 0xFF for i in range(4096)) * (n // 4096 + 1))[:n]


def cut_class(pos: int, layout: list[tuple[int, dict[str, tuple[int, int]]]], total: int) -> str:
    """Class of a cut position in the stream: which part of which frame it falls inside."""
    for start, parts in layout:
        end = start + parts["payload"][1]
        if pos == start or pos == end:
            return "boundary"
        if start < pos < end:
            rel = pos - start
            for name, (a, b) in parts.items():
                if a < rel < b:
                    return "in-" + name
                if rel == a:
                    return "before-" + name
            return "in-frame"
    return "tail"


def run_case(frames: list[tuple[int, bytes]], tail: tuple[int, bytes] | None, tail_prefix: int,
             cuts: tuple[int, ...], kind: str, rest_cuts: tuple[int, ...] = ()) -> dict[str, Any]:
    """Execute one case on the real helper; return observations + verdict list."""
    stream = b"".join(refcodec.enc_plain(t, p) for t, p in frames)
    tail_bytes = refcodec.enc_plain(*tail) if tail else b""
    first = stream + tail_bytes[:tail_prefix]
    chunks = wire.cuts_to_chunks(first, cuts)
    h, c, t, d = wire.make_plain()
    d.start()
    problems: list[tuple[str, str]] = []
    # expected call index for each frame
    ends = list(itertools.accumulate(len(refcodec.enc_plain(ty, p)) for ty, p in frames))
    bounds = list(itertools.accumulate(len(ch) for ch in chunks))
    exp_call = []
    for e in ends:
        exp_call.append(next(j for j, b in enumerate(bounds) if b >= e))
    delivered_after: list[int] = []
    for ch in chunks:
        obj, ba = wire.wrap_chunk(ch, kind)
        ok = d.feed(obj)
        wire.scrub(ba)
        if not ok:
            problems.append(("stopped-reading", f"transport closed before chunk {d.n_calls}"))
            break
        delivered_after.append(len(c.packets))
    n_first = len(c.packets)
    # second phase: the rest of the trailing frame
    expected = list(frames)
    if tail:
        rest = tail_bytes[tail_prefix:]
        rchunks = wire.cuts_to_chunks(rest, rest_cuts) if rest else []
        rbounds = list(itertools.accumulate(len(x) for x in rchunks))
        base = d.n_calls
        for ch in rchunks:
            obj, ba = wire.wrap_chunk(ch, kind)
            d.feed(obj)
            wire.scrub(ba)
        if rest:
            expected.append(tail)
            exp_call.append(base + len(rbounds) - 1)
    # ---- oracle
    if n_first != len(frames):
        problems.append(("count-before-tail", f"{n_first} deliveries after the first phase, expected {len(frames)}"))
    got = c.packets
    if len(got) != len(expected):
        problems.append(("count", f"{len(got)} deliveries, expected {len(expected)}"))
    for i, (g, e) in enumerate(zip(got, expected)):
        gt, gp, gj = g
        if gt != e[0]:
            problems.append(("type", f"frame {i}: type {gt} != {e[0]}"))
        try:
            same = bytes(gp) == e[1]
        except Exception as ex:  # noqa: BLE001
            same = False
            problems.append(("payload-object", f"frame {i}: payload object unusable: {ex!r}"))
        if not same:
            problems.append(("payload", f"frame {i}: payload differs (len {len(gp)} vs {len(e[1])})"))
        if not isinstance(gp, bytes):
            problems.append(("payload-kind", f"frame {i}: payload handed over as {type(gp).__name__}"))
        if i < len(exp_call) and gj != exp_call[i]:
            when = "late" if gj > exp_call[i] else "early"
            problems.append((f"timing-{when}", f"frame {i}: delivered in call {gj}, last byte arrived in call {exp_call[i]}"))
    if c.fatal:
        problems.append(("fatal", f"report_fatal_error({c.fatal[0][0]!r})"))
    if d.escaped:
        problems.append(("escaped", f"exception escaped data_received: {d.escaped[0]!r}"))
    if t.closing:
        problems.append(("closed", "transport closed on a conformant stream"))
    if t.writes or t.writes_after_close:
        problems.append(("wrote", "helper wrote to the transport while receiving"))
    return {"problems": problems, "n_delivered": len(got), "stream_len": len(first)}


def run_pair(streams_: list[list[tuple[int, bytes]]], cutsets: list[tuple[int, ...]], kind: str) -> list[tuple[str, str]]:
    """Several helpers alive in one process (one per device an application talks to), fed alternately chunk by chunk: each connection gets
    exactly its own frames, at the right call - nothing of the reassembly state is shared between helpers."""
    hs = []
    for frames, cuts in zip(streams_, cutsets):
        stream = b"".join(refcodec.enc_plain(t, p) for t, p in frames)
        h, c, t, d = wire.make_plain()
        d.start()
        hs.append({"frames": frames, "chunks": wire.cuts_to_chunks(stream, cuts), "c": c, "d": d, "t": t, "pos": 0})
    problems: list[tuple[str, str]] = []
    k = 0
    while any(x["pos"] < len(x["chunks"]) for x in hs):
        x = hs[k % len(hs)]
        k += 1
        if x["pos"] >= len(x["chunks"]):
            continue
        obj, ba = wire.wrap_chunk(x["chunks"][x["pos"]], kind)
        x["pos"] += 1
        x["d"].feed(obj)
        wire.scrub(ba)
    for i, x in enumerate(hs):
        got = [(g[0], bytes(g[1])) for g in x["c"].packets]
        if got != [(t, p) for t, p in x["frames"]]:
            problems.append(("interleaved-helpers", f"helper {i} of {len(hs)} fed alternately: delivered {len(got)} frames "
                             f"{[(t, len(p)) for t, p in got][:6]}, its stream held {[(t, len(p)) for t, p in x['frames']][:6]}"))
        if x["c"].fatal or x["d"].escaped or x["t"].closing:
            problems.append(("interleaved-helpers-error", f"helper {i}: fatal={x['c'].fatal[:1]} escaped={x['d'].escaped[:1]}"))
    return problems


def layout_of(frames: list[tuple[int, bytes]]) -> list[tuple[int, dict[str, tuple[int, int]]]]:
    out = []
    pos = 0
    for ty, p in frames:
        lay = refcodec.plain_frame_layout(ty, p)
        out.append((pos, lay))
        pos += lay["payload"][1]
    return out


def frame_class(ty: int, p: bytes) -> tuple[int, int]:
    return (len(refcodec.enc_varint(ty)), len(refcodec.enc_varint(len(p))) if p else 0)


def streams(ctx: Ctx) -> list[tuple[str, list[tuple[int, bytes]]]]:
    out: list[tuple[str, list[tuple[int, bytes]]]] = []
    salt = 0
    for ty in TYPES:
        for ln in LENS:
            salt += 1
            out.append(("single", [(ty, payload(ln, salt))]))
    rng = ctx.rng.__class__(f"C01-streams/{ctx.seed}")
    n_multi = 400 if ctx.thorough else 90
    for k in range(n_multi):
        nfr = rng.randint(2, 6)
        fr = []
        for _ in range(nfr):
            ty = rng.choice(TYPES) if rng.random() < 0.6 else rng.randrange(0, 2**32)
            r = rng.random()
            if r < 0.55:
                ln = rng.randint(0, 40)
            elif r < 0.9:
                ln = rng.choice([0, 1, 127, 128, 129, 255, 256, 300])
            else:
                ln = rng.choice([16383, 16384, 16385, 20000])
            salt += 1
            fr.append((ty, payload(ln, salt)))
        out.append(("multi", fr))
    # bursts: hundreds to thousands of complete small frames, so that a single chunk can carry far more frames than any per-call bound
    for nfr in ((129, 200, 257, 513, 1000, 2500, 6000) if ctx.thorough else (129, 257, 600, 1500)):
        fr = []
        for _ in range(nfr):
            salt += 1
            fr.append((rng.choice((1, 7, 27, 93, 119, 300)), payload(rng.choice((0, 0, 1, 2, 5, 9)), salt)))
        out.append(("burst", fr))
    return out


def tiny_streams(limit: int) -> list[list[tuple[int, bytes]]]:
    atoms = [(ty, payload(ln, ty + ln)) for ty in (1, 127, 128, 300) for ln in (0, 1, 2, 3)]
    out = []
    for k in (1, 2, 3):
        for combo in itertools.product(atoms, repeat=k):
            n = sum(len(refcodec.enc_plain(*f)) for f in combo)
            if n <= limit:
                out.append(list(combo))
    return out


def check(ctx: Ctx, frames: list[tuple[int, bytes]], tail: Any, tail_prefix: int, cuts: tuple[int, ...],
          kind: str, label: str, rest_cuts: tuple[int, ...] = ()) -> None:
    res = ctx.res
    r = run_case(frames, tail, tail_prefix, cuts, kind, rest_cuts)
    res.evaluations += 1
    res.count(f"chunking/{label}")
    res.count(f"buffer/{kind}")
    if len(frames) > 128:
        res.count("bursts_of_more_than_128_frames")
    total = r["stream_len"]
    lay = layout_of(frames + ([tail] if tail else []))
    classes = sorted({cut_class(c, lay, total) for c in cuts})
    for cl in classes:
        res.count(f"cutclass/{cl}")
    if r["n_delivered"]:
        res.count("frames_delivered_and_checked", r["n_delivered"])
        res.sig(tuple(frame_class(*f) for f in frames) if len(frames) <= 8 else ("burst", len(frames)), tuple(classes), kind,
                None if not tail else (frame_class(*tail), min(tail_prefix, 9)), len(cuts) if len(cuts) < 4 else "many")
    if r["problems"]:
        case = {"frames": [(t, p.hex() if len(p) <= 64 else f"payload({len(p)})") for t, p in frames[:40]],
                "frame_lens": [len(p) for _, p in frames], "frame_types": [t for t, _ in frames],
                "tail": None if not tail else [tail[0], len(tail[1])], "tail_prefix": tail_prefix,
                "cuts": list(cuts[:50]), "kind": kind, "rest_cuts": list(rest_cuts)}
        seen_keys: set[str] = set()
        for key, what in r["problems"]:
            if key not in seen_keys:     # one witness per kind of problem and case (a broken burst has thousands of identical ones)
                seen_keys.add(key)
                res.violation(f"C01/{key}", what, case)
    if res.evaluations % 4000 == 1:
        res.sample({"frame_types": [t for t, _ in frames], "frame_lens": [len(p) for _, p in frames],
                    "tail": None if not tail else {"type": tail[0], "len": len(tail[1]), "prefix_bytes": tail_prefix},
                    "cuts": list(cuts[:20]), "n_cuts": len(cuts), "buffer": kind, "cut_classes": classes,
                    "delivered": r["n_delivered"]})


def interrupted_callback(ctx: Ctx) -> None:
    """KeyboardInterrupt / SystemExit raised inside the handling of a frame (Ctrl-C or sys.exit() in an application callback): asyncio re-raises those
    two out of the loop WITHOUT closing the transport (`except (SystemExit, KeyboardInterrupt): raise`), and an application that catches them
    and runs the loop again - to disconnect gracefully - gets further data_received calls on the same helper.  The frame whose handling was
    interrupted was handed over; every frame is still handed over exactly once, in order, unaltered (later ones when the next bytes arrive)."""
    from vf import refcodec, wire

    res = ctx.res
    rng = ctx.rng
    idx = 0
    for exc_type in (KeyboardInterrupt, SystemExit):
        for n_frames in (2, 3, 6):
            for at in range(n_frames):
                for cut_kind in ("one-chunk", "frame-per-chunk", "interrupted-frame-split", "bytewise"):
                    idx += 1
                    if not ctx.mine(7000 + idx):
                        continue
                    frames = [(25 + (k % 3), payload(rng.choice([0, 1, 5, 40, 200]), k)) for k in range(n_frames)]
                    blobs = [refcodec.enc_plain(t, p) for t, p in frames]
                    stream = b"".join(blobs)
                    if cut_kind == "one-chunk":
                        chunks = [stream]
                    elif cut_kind == "frame-per-chunk":
                        chunks = list(blobs)
                    elif cut_kind == "bytewise":
                        chunks = [stream[i:i + 1] for i in range(len(stream))]
                    else:
                        start = sum(len(b) for b in blobs[:at])
                        mid = start + max(1, len(blobs[at]) // 2)
                        chunks = [c for c in (stream[:mid], stream[mid:]) if c]
                    h, c, t, d = wire.make_plain()
                    d.start()
                    fired = []
                    orig = c.process_packet

                    def pp(msg_type: int, data: Any, orig: Any = orig) -> None:
                        orig(msg_type, data)
                        if len(c.packets) == at + 1 and not fired:
                            fired.append(1)
                            raise exc_type()

                    c.process_packet = pp  # type: ignore[method-assign]
                    escaped = []
                    for ch in chunks + [refcodec.enc_plain(7, b"")]:      # (a last frame arriving later, e.g. the device's next ping)
                        c.call_index += 1
                        try:
                            h.data_received(ch)
                        except (KeyboardInterrupt, SystemExit) as e:
                            escaped.append(type(e).__name__)      # the application catches it and keeps the loop running
                        except Exception as e:  # noqa: BLE001
                            escaped.append(repr(e))
                            break
                    res.evaluations += 1
                    res.count("workload/interrupted-callback")
                    res.sig("interrupted-callback", exc_type.__name__, n_frames, at, cut_kind)
                    got = [(ty, bytes(pl)) for ty, pl, _ in c.packets]
                    want = frames + [(7, b"")]
                    case = {"interrupted_callback": exc_type.__name__, "frames": n_frames, "interrupt_at": at, "cuts": cut_kind}
                    if got != want or c.fatal:
                        dup = len(got) - len(set(range(len(got)))) if False else None
                        res.violation("C01/interrupted-callback/sequence", f"{exc_type.__name__} raised while frame #{at} of {n_frames} was being handled ({cut_kind}); "
                                      f"handed over afterwards: {[(ty, len(pl)) for ty, pl in got]}, the device sent {[(ty, len(pl)) for ty, pl in want]}; "
                                      f"fatal: {[repr(f[0]) for f in c.fatal][:1]}", case)


def shard(ctx: Ctx) -> None:
    interrupted_callback(ctx)
    rng = ctx.rng
    idx = 0
    kinds = wire.BUF_KINDS
    # 1. structured + multi-frame streams
    for label, frames in streams(ctx):
        idx += 1
        if not ctx.mine(idx):
            continue
        stream_len = sum(len(refcodec.enc_plain(*f)) for f in frames)
        lay = layout_of(frames)
        boundaries = []
        for start, parts in lay:
            boundaries += [start + parts["length"][1], start + parts["type"][1], start + parts["payload"][1]]
        big = stream_len > 5000 or label == "burst"
        tails: list[tuple[Any, int]] = [(None, 0)]
        tf = (rng.choice(TYPES), payload(rng.choice([0, 1, 5, 200]), idx))
        tb = len(refcodec.enc_plain(*tf))
        hdr = refcodec.plain_frame_layout(*tf)["type"][1]
        for p in sorted({1, max(1, hdr - 1), hdr, min(tb - 1, hdr + 1), tb - 1}):
            if 0 < p < tb:
                tails.append((tf, p))
        if tb == 1:
            tails = tails[:1]
        burst = label == "burst"
        if burst:
            tails = tails[:2]
            # cuts around the frames next to powers of two of the frame count only (every boundary would be thousands of single cuts)
            boundaries = [lay[i][0] for i in (1, 64, 127, 128, 129, 130, 255, 256, 257, 512, 1024, len(lay) - 1) if i < len(lay)]
        for ti, (tail, tp) in enumerate(tails):
            n = stream_len + tp
            gen = wire.chunkings(
                n, boundaries, rng,
                n_random=(2 if burst else 6 if big else 30) * (3 if ctx.thorough else 1),
                pairs=(1 if burst else 4 if big else 20) * (3 if ctx.thorough else 1),
                exhaustive_upto=0,
                single_cap=(4 if burst else 40 if big else 200) * (2 if ctx.thorough else 1) if ti == 0 else (3 if burst else 25),
            )
            for ci, (clabel, cuts) in enumerate(gen):
                if big and clabel == "bytewise":
                    continue
                if ti > 0 and clabel in ("bytewise",) and n > 600:
                    continue
                kind = kinds[(ci + idx) % len(kinds)]
                rest_cuts: tuple[int, ...] = ()
                if tail and ci % 3 == 0:
                    rl = len(refcodec.enc_plain(*tail)) - tp
                    if rl > 1:
                        rest_cuts = (rng.randrange(1, rl),)
                check(ctx, frames, tail, tp, cuts, kind, clabel, rest_cuts)
    # 1a. large reads (up to asyncio's 256 KiB per data_received call) behind a chunk that ended in the middle of a frame
    for li, (size, count) in enumerate(((60000, 12), (20000, 30), (1200, 500), (70000, 9))):
        idx += 1
        if not ctx.mine(idx):
            continue
        frames = [(25 + k % 3, payload(size - (k * 37) % 900, k + li)) for k in range(count)]
        total = sum(len(refcodec.enc_plain(*f)) for f in frames)
        for clabel, cuts in (("40067+242553+rest", (40067, 40067 + 242553)), ("partial-then-256KiB-reads", tuple(range(777, total, 262144))),
                             ("256KiB-reads", tuple(range(262144, total, 262144)))):
            check(ctx, frames, None, 0, tuple(c for c in cuts if 0 < c < total), kinds[li % 3], "large-reads/" + clabel)
    # 1b. two or three helpers alive at once, fed alternately
    multi = [fr for label, fr in streams(ctx) if label == "multi"]
    for j in range(0, len(multi) - 2, 2):
        idx += 1
        if not ctx.mine(idx):
            continue
        group = multi[j:j + (3 if j % 4 == 0 else 2)]
        for rep in range(6 if ctx.thorough else 2):
            cutsets = []
            for fr in group:
                n = sum(len(refcodec.enc_plain(*f)) for f in fr)
                cutsets.append(tuple(sorted(rng.sample(range(1, n), min(n - 1, rng.randint(1, 9))))) if n > 1 else ())
            kind = kinds[(j + rep) % len(kinds)]
            res = ctx.res
            res.evaluations += 1
            res.count("chunking/interleaved-helpers")
            probs = run_pair(group, cutsets, kind)
            if not probs:
                res.count("frames_delivered_and_checked", sum(len(fr) for fr in group))
                res.sig("pair", tuple(tuple(frame_class(*f) for f in fr) for fr in group), kind, rep)
            for key, what in probs:
                res.violation(f"C01/{key}", what, {"pair": True, "frame_types": [[t for t, _ in fr] for fr in group], "frame_lens": [[len(p) for _, p in fr] for fr in group],
                                                   "cutsets": [list(c) for c in cutsets], "kind": kind})
    # 2. tiny streams: every segmentation, every buffer kind
    limit = 14 if ctx.thorough else 10
    for frames in tiny_streams(limit):
        idx += 1
        if not ctx.mine(idx):
            continue
        n = sum(len(refcodec.enc_plain(*f)) for f in frames)
        for mask in range(0, 1 << (n - 1)):
            cuts = tuple(i + 1 for i in range(n - 1) if mask >> i & 1)
            kind = kinds[(mask + idx) % len(kinds)]
            check(ctx, frames, None, 0, cuts, kind, "exhaustive")
        # a partial trailing frame after the tiny stream, every prefix length, every single cut
        tf = (300, payload(3, 9))
        tb = refcodec.enc_plain(*tf)
        for tp in range(1, len(tb)):
            for cut in range(0, n + tp):
                cuts = (cut,) if cut else ()
                check(ctx, frames, tf, tp, cuts, kinds[(tp + cut) % len(kinds)], "tiny-tail")
    # 3. part S: the real connection behind the helper, the real selector transport under it
    from vf.props import c01_s  # noqa: PLC0415

    c01_s.shard(ctx)


def replay(spec: dict[str, Any]) -> int:
    case = spec["case"]
    if case.get("part") == "S":
        from vf.common import Ctx as _Ctx  # noqa: PLC0415
        from vf.props import c01_s  # noqa: PLC0415

        c = _Ctx("C01", 0, 1, "quick", 0)
        c01_s.shard(c)
        for v in c.res.violations:
            print(v["key"], v["what"])
        return 1 if c.res.violations else 0
    if case.get("pair"):
        group = [[(t, payload(n, 100 * gi + i + 1)) for i, (t, n) in enumerate(zip(ts, ns))] for gi, (ts, ns) in enumerate(zip(case["frame_types"], case["frame_lens"]))]
        probs = run_pair(group, [tuple(c) for c in case["cutsets"]], case["kind"])
        print("replay C01 (interleaved helpers):", probs)
        return 1 if probs else 0
    frames = [(t, payload(n, i + 1)) for i, (t, n) in enumerate(zip(case["frame_types"], case["frame_lens"]))]
    tail = None
    if case.get("tail"):
        tail = (case["tail"][0], payload(case["tail"][1], 9))
    r = run_case(frames, tail, case["tail_prefix"], tuple(case["cuts"]), case["kind"], tuple(case.get("rest_cuts", ())))
    print("replay C01:", case)
    print("problems:", r["problems"])
    return 1 if r["problems"] else 0

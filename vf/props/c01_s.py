"""C01 part S - plaintext reassembly end to end: the real APIPlaintextFrameHelper under the real asyncio selector transport, with the real
APIConnection behind it (what process_packet does with a frame - ignore an unknown type, answer a ping, close - is part of what decides
whether the frames behind it in the same chunk are still handed over)."""

from __future__ import annotations

from typing import Any

from vf.common import Ctx
from vf.sim.device import DeviceConfig
from vf.sim.scenario import Sim


PSK = bytes(range(11, 43))


def session(sim: Sim, debug: bool | None, framing: str = "plain") -> tuple[Any, Any, list[Any]]:
    import base64

    dev = sim.device(DeviceConfig(noise_psk=PSK if framing == "noise" else None))
    cli = sim.client(keepalive=1e5, debug=debug, **({"noise_psk": base64.b64encode(PSK).decode()} if framing == "noise" else {}))
    c0 = sim.call("connect", lambda: cli.connect(login=False))
    sim.run(until=lambda: c0.done, max_time=sim.clock + 50)
    if c0.outcome != "ok":
        raise RuntimeError(f"connect failed: {c0.exc!r}")
    got: list[Any] = []
    cli.subscribe_states(got.append)
    sim.run_for(0.001)
    return cli, dev.conn, got


def shard(ctx: Ctx, framing: str = "plain", prop: str = "C01") -> None:
    from aioesphomeapi import api_pb2 as pb

    res = ctx.res
    rng = ctx.rng
    idx = 0
    if framing == "noise":
        unknown_all = [0, 124, 125, 200, 255, 300, 16384, 65535]      # (the Noise inner header has 16 bits for the type)
    else:
        unknown_all = [0, 124, 125, 200, 255, 300, 16384, 2**21, 2**28 + 7, 2**32 - 1]
    # (a) streams of known state frames with frames of UNKNOWN type numbers between them (newer firmware; every id above the table, 0, large
    #     varints), empty and non-empty payloads, under several segmentations and both logging configurations
    unknown = unknown_all
    for debug in (False, True):
        for plan in ("one-chunk", "per-frame", "bytewise", "random-cuts", "two-halves"):
            for rep in range(3 if ctx.thorough else 1):
                idx += 1
                if not ctx.mine(idx):
                    continue
                with Sim() as sim:
                    try:
                        cli, dconn, got = session(sim, debug, framing)
                    except RuntimeError as e:
                        res.inconclusive.append(f"{prop} part S: {e}")
                        continue
                    frames: list[bytes] = []
                    exp_keys: list[int] = []
                    for k in range(1, 13):
                        frames.append(dconn.encode("SensorStateResponse", pb.SensorStateResponse(key=k, state=float(k)).SerializeToString()))
                        exp_keys.append(k)
                        u = unknown[(k + rep) % len(unknown)]
                        frames.append(dconn.encode_id(u, b"" if k % 2 else bytes(rng.getrandbits(8) for _ in range(1 + k))))
                    stream = b"".join(frames)      # (for Noise the frames are encrypted here, in order: nonce order = wire order)
                    if plan == "one-chunk":
                        cuts: list[int] = []
                    elif plan == "per-frame":
                        cuts, pos = [], 0
                        for f in frames[:-1]:
                            pos += len(f)
                            cuts.append(pos)
                    elif plan == "bytewise":
                        cuts = list(range(1, len(stream)))
                    elif plan == "two-halves":
                        cuts = [len(stream) // 2]
                    else:
                        cuts = sorted(rng.sample(range(1, len(stream)), 9))
                    prev = 0
                    for c in cuts + [len(stream)]:
                        dconn.send_raw(stream[prev:c], 0.0)
                        prev = c
                        if plan != "one-chunk":
                            sim.run_for(0.0005)
                    sim.run_for(0.01)
                    res.evaluations += 1
                    res.count(f"S/unknown-types-between-known/{plan}/debug={debug}")
                    res.sig("S-unknown", plan, debug, rep)
                    keys = [s.key for s in got]
                    case = {"part": "S", "plan": plan, "debug": debug, "unknown_types": unknown, "framing": framing}
                    if keys != exp_keys:
                        res.violation(f"{prop}/S/frames-lost-behind-unknown-type", f"{plan}, debug logging {'on' if debug else 'off'}: 12 state frames with frames of unknown type "
                                      f"numbers between them; delivered keys {keys}", case, trace=sim.trace(30))
                    else:
                        res.count("S/frames_delivered_and_checked", len(keys))
                    if sim.conns and sim.conns[0].obj.connection_state.name != "CONNECTED":
                        res.violation(f"{prop}/S/closed-on-conformant-stream", f"{plan}: connection {sim.conns[0].obj.connection_state.name} after a conformant stream "
                                      f"(first fatal {sim.conns[0].fatals[:1]})", case, trace=sim.trace(30))
    # (c) the device's last words: a PingRequest (or time request) and then more frames in ONE chunk, on a socket the device has already reset - the
    #     answer's send() fails (EPIPE / ECONNRESET), asyncio silently starts closing the transport, connection_lost comes an iteration later.
    #     The frames behind the request were complete when the chunk arrived: they are handed over before the loss is reported
    for req in ("PingRequest", "GetTimeRequest"):
        for behind in (1, 6):
            for err in (32, 104):
                idx += 1
                if not ctx.mine(idx):
                    continue
                with Sim() as sim:
                    try:
                        cli, dconn, got = session(sim, None, framing)
                    except RuntimeError as e:
                        res.inconclusive.append(f"{prop} part S: {e}")
                        continue
                    dconn.sock.send_fault = BrokenPipeError(32, "Broken pipe") if err == 32 else ConnectionResetError(104, "Connection reset by peer")
                    msgs = [getattr(pb, req)()] + [pb.SensorStateResponse(key=300 + k, state=2.0) for k in range(behind)]
                    dconn.outbox = []
                    for m in msgs:
                        dconn.send_msg(m)
                    out_, dconn.outbox = dconn.outbox, None
                    dconn.deliver_items(out_, 0.0)
                    sim.run_for(0.05)
                    res.evaluations += 1
                    res.count("S/reply-fails-inside-read-loop")
                    res.sig("S-reply-fails", req, behind, err)
                    keys = [s.key for s in got]
                    case = {"part": "S", "reply_send_fails_with": err, "request": req, "frames_behind": behind, "framing": framing}
                    if keys != [300 + k for k in range(behind)]:
                        res.violation(f"{prop}/S/frames-lost-behind-ping", f"chunk = {req} + {behind} state frames, the reply's send() fails with errno {err}: delivered "
                                      f"keys {keys} ({len(keys)} of {behind})", case, trace=sim.trace(30))
                    else:
                        res.count("S/frames_delivered_and_checked", len(keys))
    # (d) a subscriber that is not instant (a database write, a slow log sink: 0.5 / 5 / 30 ms of the process's monotonic clock per state) and a
    #     device that sends a burst of states in ONE chunk and then stays / says goodbye / closes / dies: every frame of the chunk was complete
    #     when the chunk arrived, so every one is handed over inside that same read (same loop iteration), however long the handling takes
    for per_state in (0.0005, 0.005, 0.03):
        for n in (8, 40):
            for ending in ("stays", "eof", "bye+eof", "rst"):
                idx += 1
                if not ctx.mine(idx):
                    continue
                with Sim() as sim:
                    try:
                        cli, dconn, got = session(sim, None, framing)
                    except RuntimeError as e:
                        res.inconclusive.append(f"{prop} part S: {e}")
                        continue
                    seen: list[tuple[int, int]] = []      # (key, loop iteration in which it was handed over)

                    def slow(state: Any, sim: Sim = sim, seen: list[tuple[int, int]] = seen, per_state: float = per_state) -> None:
                        seen.append((state.key, len(sim.iter_info)))
                        sim.burn(per_state)

                    cli.subscribe_states(slow)
                    sim.run_for(0.001)
                    t0 = sim.clock
                    dconn.outbox = []
                    for k in range(n):
                        dconn.send_msg(pb.SensorStateResponse(key=500 + k, state=3.0))
                    if ending == "bye+eof":
                        dconn.send_msg(pb.DisconnectRequest())
                    out_, dconn.outbox = dconn.outbox, None
                    dconn.deliver_items(out_, 0.0)
                    if ending in ("eof", "bye+eof"):
                        dconn.eof(0.0)
                    elif ending == "rst":
                        dconn.rst(0.0)
                    sim.run_for(5.0)
                    res.evaluations += 1
                    res.count(f"S/slow-subscriber-burst/{ending}")
                    res.count("S/slow-subscriber-burst/ms-of-process-clock-spent-inside-one-read", int(1000 * per_state * len(seen)))
                    res.sig("S-slow-subscriber", per_state, n, ending)
                    keys = [k for k, _ in seen]
                    iters = sorted({i for _, i in seen})
                    case = {"part": "S", "slow_subscriber_seconds_per_state": per_state, "states_in_one_chunk": n, "then": ending, "framing": framing}
                    if keys != [500 + k for k in range(n)]:
                        res.violation(f"{prop}/S/frames-lost-behind-slow-subscriber", f"one chunk of {n} state frames, subscriber takes {per_state * 1000:g} ms per state, "
                                      f"device then {ending}: delivered {len(keys)} of {n} (keys {keys[:4]}..{keys[-2:]})", case, trace=sim.trace(30))
                    elif len(iters) != 1:
                        res.violation(f"{prop}/S/complete-frames-left-for-a-later-iteration", f"one chunk of {n} complete state frames (arrived at t={t0:.6f}), subscriber "
                                      f"takes {per_state * 1000:g} ms per state: handed over in {len(iters)} different loop iterations {iters[:6]} instead of "
                                      f"the one that read the chunk", case, trace=sim.trace(30))
                    else:
                        res.count("S/frames_delivered_and_checked", len(keys))
    # (b) the client answers from inside the read loop (PingRequest -> PingResponse) while its own write buffer is full up to the transport's
    #     high-water mark (a device that reads slowly): whatever flow control does with that write, the frames behind the PingRequest in the same
    #     chunk are complete and must be handed over
    for fill_to in ("just-below-high-water", "far-below", "above"):
        for behind in (2, 40):
            idx += 1
            if not ctx.mine(idx):
                continue
            with Sim() as sim:
                try:
                    cli, dconn, got = session(sim, False, framing)
                except RuntimeError as e:
                    res.inconclusive.append(f"{prop} part S: {e}")
                    continue
                tr = sim.transports[-1]
                dconn.sock.send_fault = "block"
                low, high = tr.get_write_buffer_limits()
                target = {"just-below-high-water": high - 1, "far-below": high // 2, "above": high + 5000}[fill_to]
                try:
                    s0 = tr.get_write_buffer_size()
                    cli.text_command(1, "")
                    ov = tr.get_write_buffer_size() - s0        # bytes one (short) command frame adds under this framing
                    for _ in range(4000):
                        size = tr.get_write_buffer_size()
                        remaining = target - size
                        if remaining >= ov + 300:
                            cli.send_voice_assistant_audio(b"\x00" * min(remaining - ov - 250, 60000))
                        elif remaining >= ov + 110:
                            cli.text_command(1, "x" * 50)
                        elif remaining >= ov:
                            cli.text_command(1, "x" * (remaining - ov))
                        else:
                            break
                except Exception as e:  # noqa: BLE001
                    res.inconclusive.append(f"{prop} part S: filling the write buffer raised {e!r}")
                    continue
                size0 = tr.get_write_buffer_size()
                msgs = [pb.PingRequest()] + [pb.SensorStateResponse(key=100 + k, state=1.0) for k in range(behind)]
                dconn.outbox = []
                for m in msgs:
                    dconn.send_msg(m)
                out_, dconn.outbox = dconn.outbox, None
                dconn.deliver_items(out_, 0.0)
                sim.run_for(0.01)
                res.evaluations += 1
                res.count(f"S/reply-written-inside-read-loop/{fill_to}")
                res.count("S/write_buffer_bytes_when_ping_arrived", size0)
                res.sig("S-wbuf", fill_to, behind)
                keys = [s.key for s in got]
                case = {"part": "S", "write_buffer": fill_to, "high_water": high, "buffered": size0, "frames_behind_ping": behind, "framing": framing}
                if keys != [100 + k for k in range(behind)]:
                    res.violation(f"{prop}/S/frames-lost-behind-ping", f"write buffer at {size0} of high-water {high}; chunk = PingRequest + {behind} state frames: "
                                  f"delivered keys {keys[:6]}... ({len(keys)} of {behind})", case, trace=sim.trace(30))
                else:
                    res.count("S/frames_delivered_and_checked", len(keys))

"""C10 — keepalive: ping only when idle; silent peer dropped in (5.5K, 6.5K]; live peer never (engine S + executable model)."""

from __future__ import annotations

import base64
from typing import Any

from vf.common import Ctx
from vf import refcodec
from vf.sim.device import DeviceConfig
from vf.sim.scenario import Sim

LEVEL = "exploration"
RULE = ("arrival schedules = bitmasks over slots on a K/2 grid shifted by K/8 (so no arrival coincides with a tick or a deadline), message kind "
        "rotating over PingResponse / state message without subscriber / log message / device PingRequest; K in {0.5,1,7.3,20,90}; plaintext and "
        "Noise; structured patterns (one message inside the pong window, gaps of 4.5K -/+ K/8, silence after a live phase); thorough enumerates "
        "ALL 2^16 masks over 16 slots for K=1 and K=20. Observed: device-side virtual timestamps of every PingRequest, time and class of the first "
        "fatal error, on_stop time/arg; oracle: 25-line executable model written from the statement, equality within 1 us. Non-trivial = at least "
        "one ping or a close was predicted and compared; distinct = (K, framing, mask)"
        " Also: the client itself sending commands every 0.3/0.5/0.9 K while the device is silent or sparse, and a device that stops reading (socket blocked, 80/300 KiB queued -> transport back-pressure; pings observed at transport.write): the schedule and the death must be those of the model, which only counts messages FROM the peer.")
ASSUMPTIONS = [
    "ticks are counted from the instant connect() returned (T0)",
    "exact coincidences of an arrival with a tick are run and recorded only: their order is the loop's, not the library's",
    "engine S doubles as in C05",
]
BUDGET_S = {"quick": 300, "thorough": 3000}
MIN_EVALS = {"quick": 1500, "thorough": 100000}
PSK = bytes(range(2, 34))
KINDS = ("PingResponse", "SensorStateResponse", "SubscribeLogsResponse", "PingRequest")


def exhaustive(tier: str) -> Any:
    if tier == "thorough":
        return ["all 2^16 arrival masks over 16 half-period slots, for K=1 and K=20 (plaintext)"]
    return False


def model(T0: float, K: float, arrivals: list[float], H: float) -> tuple[list[float], float | None]:
    """Executable keepalive model from the statement. Returns (ping instants, close instant or None)."""
    pings: list[float] = []
    pending = True          # "no message arrived during the preceding interval"
    deadline: float | None = None
    ai = 0
    tick = T0 + K
    while True:
        cand: list[tuple[float, int, str]] = [(tick, 2, "tick")]
        if ai < len(arrivals):
            cand.append((arrivals[ai], 0, "arrival"))
        if deadline is not None:
            cand.append((deadline, 1, "deadline"))
        t, _, kind = min(cand)
        if t > H:
            return pings, None
        if kind == "arrival":
            pending = False
            deadline = None
            ai += 1
        elif kind == "deadline":
            return pings, t
        else:
            if pending:
                pings.append(t)
                if deadline is None:
                    deadline = t + 4.5 * K
            pending = True
            tick = tick + K


def stalled_loop(ctx: Ctx) -> None:
    """The client process is stopped for a while (longer than K, across one or more ticks) while a peer is silent: ticks run late, but the peer has
    been silent all the same - it is declared dead when 4.5K have passed since the first unanswered ping, or as soon as the process runs again if
    that moment fell into the stop; never later, and a live peer is not dropped because of the stop."""
    res = ctx.res
    idx = 0
    for K in (0.8, 5.0, 20):
        for framing in ("plain", "noise"):
            for a, b in ((2.9, 4.2), (1.5, 3.1), (0.4, 1.6), (4.0, 6.3), (2.2, 2.9)):
                for live in (None, 40.0):
                    idx += 1
                    if not ctx.mine(5000 + idx):
                        continue
                    o = run_case(K, framing, [], 12, live if live is None else live * K, suspend=(a * K, b * K))
                    res.evaluations += 1
                    res.count("workload/stalled-loop")
                    res.sig("stalled-loop", K, framing, a, b, live)
                    case = {"K": K, "framing": framing, "offsets": [], "process_stopped": [a, b], "live_peer": live is not None}
                    if o.get("error") or o["harness_errors"]:
                        res.inconclusive.append(f"stalled loop: {o.get('error') or o['harness_errors'][0][-300:]}")
                        continue
                    T0 = o["T0"]
                    rel = None if o["close_t"] is None else (o["close_t"] - T0) / K
                    if live is not None:
                        if o["closed"]:
                            res.violation("C10/closed-while-alive", f"K={K}: peer answers every ping; process stopped {a}K..{b}K; session closed at {rel:.3f}K "
                                          f"({o['fatal']})", case)
                        continue
                    # silent from the start: first ping at the first tick that runs (1K, or the end of the stop if the stop covers 1K)
                    first_ping = b if a < 1.0 < b else 1.0
                    due = first_ping + 4.5
                    due = b if a < due < b else due
                    if not o["closed"]:
                        res.violation("C10/dead-peer-not-detected", f"K={K}: peer silent, process stopped {a}K..{b}K: still connected at 12K "
                                      f"(pings at {[round((t - T0) / K, 2) for t in o['pings']]}K)", case)
                    elif rel is not None and rel > due + 0.01:
                        res.violation("C10/closed-late", f"K={K}: peer silent, process stopped {a}K..{b}K: closed at {rel:.3f}K, due at {due:.3f}K", case)
                    elif rel is not None and rel < 5.5 - 0.01:
                        res.violation("C10/closed-early", f"K={K}: peer silent, process stopped {a}K..{b}K: closed at {rel:.3f}K", case)
                    elif o["fatal"] is None or o["fatal"][1] != "PingFailedAPIError":
                        res.violation("C10/wrong-close-cause", f"closed with {o['fatal']}", case)


def run_case(K: float, framing: str, offsets: list[tuple[float, str]], horizon_k: float, live_until: float | None = None,
             client_sends: list[float] | None = None, backpressure: tuple[float, int] | None = None,
             suspend: tuple[float, float] | None = None) -> dict[str, Any]:
    """offsets: (seconds after T0, message kind). live_until: device answers pings itself until T0+live_until (then silent)."""
    with Sim() as sim:
        # a live device answers pings itself, K/16 after receiving them (so a pong never coincides with the tick that caused it)
        lat = K / 16 if live_until is not None else 0.0
        cfg = DeviceConfig(answer_ping=live_until is not None, reply_delay=lat)
        from vf.sim import rotation as _rot  # noqa: PLC0415

        if _rot.decide("device_name", ("dev", "dev", "dev", "special-characters")) == "special-characters":
            # the name the device announces ends up in the client's log name and error texts: characters special to %-formatting / str.format
            cfg.name = "boiler 50% duty %s {0}"
        if framing == "noise":
            cfg.noise_psk = PSK
        dev = sim.device(cfg)
        kw: dict[str, Any] = {"keepalive": K}
        if framing == "noise":
            kw["noise_psk"] = base64.b64encode(PSK).decode()
        cli = sim.client(**kw)
        c = sim.call("connect", lambda: cli.connect(on_stop=sim.on_stop_cb(), login=False))
        sim.run(until=lambda: c.done, max_time=sim.clock + 100)
        if c.outcome != "ok":
            return {"error": f"connect failed: {c.exc!r}", "harness_errors": sim.harness_errors}
        T0 = c.t_ret
        assert T0 is not None
        conn = dev.conn
        for off, kind in offsets:
            if kind.startswith("PARTIAL"):
                # the beginning of a frame and nothing more (the peer died in the middle of a write): bytes, but no message
                from aioesphomeapi import api_pb2 as _pb  # noqa: PLC0415

                whole = conn.encode("SensorStateResponse", _pb.SensorStateResponse(key=1, state=2.0).SerializeToString()) if framing == "plain" else \
                    refcodec.enc_noise_outer(bytes(range(40)))
                conn.send_raw(whole[:int(kind.split(":")[1])], off)
            elif kind == "SensorStateResponse":
                conn.send(kind, _delay=off, key=1, state=2.0)
            elif kind == "SubscribeLogsResponse":
                conn.send(kind, _delay=off, message=b"x")
            else:
                conn.send(kind, _delay=off)
        if live_until is not None:
            sim.net.at(T0 + live_until, lambda: setattr(cfg, "answer_ping", False))
        # what the CLIENT sends is no sign of life of the peer: commands written while the device is silent must not change the schedule
        for off in client_sends or []:
            def send_cmd() -> None:
                try:
                    cli.switch_command(1, True)
                except Exception:  # noqa: BLE001  (after the close the gate refuses: fine)
                    pass
            sim.at(T0 + off, send_cmd)
        if backpressure is not None:
            # the device stops reading: the socket accepts nothing more, the transport's buffer passes its high-water mark (pause_writing)
            def stall() -> None:
                conn.sock.send_fault = "block"
                try:
                    for _ in range(backpressure[1] // 1024):
                        cli.send_voice_assistant_audio(b"\x00" * 1024)
                except Exception:  # noqa: BLE001
                    pass
            sim.at(T0 + backpressure[0], stall)
        if suspend is not None:
            # the client process does not run between these two instants (a blocking call in the application, SIGSTOP, a VM pause)
            sim.suspend_process(T0 + suspend[0], T0 + suspend[1])
        H = T0 + horizon_k * K
        sim.run(max_time=H)
        v = sim.conns[0]
        pings = [r["t"] for r in conn.received if r["name"] == "PingRequest"]
        if backpressure is not None:
            # nothing reaches the device any more: the pings are observed where the client hands them to the transport
            ping_frame = refcodec.enc_plain(dev.proto.id_of("PingRequest"), b"")
            pings = [w[1] for t in sim.transports for w in t.sim_writes if w[2] == ping_frame]
        pongs_from_device = [s["t"] + lat for s in conn.sent if s["name"] == "PingResponse"]
        arrivals_seen = [s["t"] for s in conn.sent if s["t"] > T0 - 1e-9 and s["name"] != "HelloResponse"]
        first_fatal = v.fatals[0] if v.fatals else None
        # judged up to a moment just BEFORE the end of the run: a tick that falls exactly on the horizon is inside or outside the run depending on
        # float rounding of T0 + n*K (it differs with where on the clock the scenario started) - harness arithmetic, not library behaviour
        Hj = H - K / 1000.0
        pings = [p for p in pings if p <= Hj]
        closed_in = v.closed_seq is not None and v.closed_t is not None and v.closed_t <= Hj
        return {
            "T0": T0, "H": Hj, "pings": pings, "close_t": v.closed_t if closed_in else None, "closed": closed_in,
            "fatal": None if first_fatal is None else (first_fatal[1], type(first_fatal[2]).__name__),
            "on_stop": [(x[1], x[2]) for x in v.on_stop],
            "device_sent_times": sorted(t for t in ([T0 + o for o, kd in offsets if not kd.startswith("PARTIAL")] + (pongs_from_device if live_until is not None else []))),
            "harness_errors": list(sim.harness_errors), "decode_errors": conn.decode_errors,
            "trace": sim.trace(80),
        }


def near(a: float | None, b: float | None) -> bool:
    if a is None or b is None:
        return a is b
    return abs(a - b) < 1e-6


def judge(K: float, o: dict[str, Any], arrivals: list[float]) -> list[tuple[str, str]]:
    out = []
    exp_pings, exp_close = model(o["T0"], K, arrivals, o["H"])
    got = o["pings"]
    if len(got) != len(exp_pings) or any(not near(a, b) for a, b in zip(got, exp_pings)):
        rel_g = [round((t - o["T0"]) / K, 4) for t in got]
        rel_e = [round((t - o["T0"]) / K, 4) for t in exp_pings]
        extra = [x for x in rel_g if x not in rel_e]
        missing = [x for x in rel_e if x not in rel_g]
        key = "ping-while-not-idle" if extra and not missing else "ping-missing-when-idle" if missing and not extra else "ping-instants-differ"
        out.append((f"C10/{key}", f"K={K}: pings at {rel_g} (in K after T0), model says {rel_e}"))
    if exp_close is None:
        if o["closed"]:
            out.append(("C10/closed-while-alive", f"K={K}: connection closed at +{(o['close_t'] - o['T0']) / K:.3f}K ({o['fatal']}), model: no close within the horizon"))
    else:
        if not o["closed"]:
            out.append(("C10/dead-peer-not-detected", f"K={K}: model closes at +{(exp_close - o['T0']) / K:.3f}K, connection still open at the horizon"))
        else:
            if not near(o["close_t"], exp_close):
                when = "early" if o["close_t"] < exp_close else "late"
                out.append((f"C10/closed-{when}", f"K={K}: closed at +{(o['close_t'] - o['T0']) / K:.4f}K, model +{(exp_close - o['T0']) / K:.4f}K"))
            if not o["fatal"] or o["fatal"][1] != "PingFailedAPIError":
                out.append(("C10/wrong-close-cause", f"first fatal {o['fatal']}, expected PingFailedAPIError"))
            if [a for _, a in o["on_stop"]] != [False]:
                out.append(("C10/on_stop", f"on_stop calls {o['on_stop']}, expected one with False"))
    return out


def mask_offsets(K: float, mask: int, nslots: int, rot: int) -> list[tuple[float, str]]:
    return [(K / 8 + i * K / 2, KINDS[(i + rot) % len(KINDS)]) for i in range(nslots) if mask >> i & 1]


def one(ctx: Ctx, K: float, framing: str, offsets: list[tuple[float, str]], horizon_k: float, label: str, sig: Any,
        live_until: float | None = None, client_sends: list[float] | None = None, backpressure: tuple[float, int] | None = None) -> None:
    res = ctx.res
    o = run_case(K, framing, offsets, horizon_k, live_until, client_sends, backpressure)
    res.evaluations += 1
    if o.get("error") or o["harness_errors"] or o["decode_errors"]:
        res.inconclusive.append(f"{label}: {o.get('error') or o['harness_errors'] or o['decode_errors']}")
        return
    arrivals = o["device_sent_times"]
    exp_pings, exp_close = model(o["T0"], K, arrivals, o["H"])
    res.count(f"workload/{label}")
    res.count("pings_compared", len(exp_pings))
    res.count("closes_predicted", 1 if exp_close is not None else 0)
    res.count("sessions_alive_at_horizon", 0 if o["closed"] else 1)
    if exp_pings or exp_close is not None:
        res.sig(K, framing, sig)
    if live_until is not None and exp_close is not None and arrivals:
        # corollary in the statement: a peer silent from t is detected within (t+5.5K, t+6.5K]
        t_last = max(arrivals)
        if o["closed"]:
            d = (o["close_t"] - t_last) / K
            res.count("silence_detection_window_checked")
            if not (5.5 - 1e-9 < d <= 6.5 + 1e-9):
                res.violation("C10/detection-window", f"K={K}: last message at t, closed at t+{d:.4f}K, outside (5.5K, 6.5K]",
                              {"K": K, "framing": framing, "offsets": offsets, "horizon_k": horizon_k, "live_until": live_until})
    for key, what in judge(K, o, arrivals):
        res.violation(key, what, {"K": K, "framing": framing, "offsets": offsets, "horizon_k": horizon_k, "live_until": live_until},
                      trace=o["trace"])
    if res.evaluations % 250 == 1:
        res.sample({"K": K, "framing": framing, "arrival_offsets_in_K": [round(off / K, 3) for off, _ in offsets][:24],
                    "ping_offsets_in_K": [round((t - o["T0"]) / K, 3) for t in o["pings"]],
                    "close_offset_in_K": None if not o["closed"] else round((o["close_t"] - o["T0"]) / K, 3), "workload": label})


def shard(ctx: Ctx) -> None:
    from vf.sim import device as _device_fw  # noqa: PLC0415

    _device_fw.ROTATE_FIRMWARE = True    # the firmware flavour of default devices rotates (hello without a name, API 1.2 / 1.8 / 1.12, deep sleep)
    from vf.sim import device as _device

    _device.AUTO_ROTATE = True   # chunking of the device's stream rotates: as written / replies coalesced / cut into 1..8-byte pieces
    stalled_loop(ctx)
    rng = ctx.rng
    idx = 0
    from fractions import Fraction

    # (the interval as a float, as an int - `keepalive=10` is what the library's own log reader passes - and as another real number type)
    Ks: tuple[Any, ...] = (0.5, 1.0, 7.3, 20.0, 90.0, 2, 10, Fraction(3, 2))
    # seeded masks over 24 slots
    n_masks = 40000 if ctx.thorough else 8000
    mrng = rng.__class__(f"C10-masks/{ctx.seed}")
    for i in range(n_masks):
        K = Ks[i % len(Ks)]
        framing = "noise" if i % 7 == 0 else "plain"
        dens = mrng.choice([0.05, 0.15, 0.3, 0.5, 0.8])
        mask = 0
        for b in range(24):
            if mrng.random() < dens:
                mask |= 1 << b
        idx += 1
        if ctx.mine(idx):
            one(ctx, K, framing, mask_offsets(K, mask, 24, i), 12 + 7, "seeded-mask-24", ("m24", mask))
    # structured patterns
    for K in Ks:
        for framing in ("plain", "noise"):
            pats: list[tuple[str, list[tuple[float, str]], float, float | None]] = []
            pats.append(("total-silence", [], 8, None))
            for w in (0.125, 1.0625, 2.5, 4.0625, 4.375):   # (never exactly on a tick: the order of a tick and an arrival in the same instant is the loop's)
                pats.append((f"one-message-inside-pong-window+{w}K", [((1 + w) * K, "SensorStateResponse")], 14, None))
            for gap in (4.5 - 0.125, 4.5 + 0.125):
                offs = [(0.125 * K, "PingResponse")]
                t = 0.125
                for _ in range(3):
                    t += gap
                    offs.append((t * K, "SubscribeLogsResponse"))
                pats.append((f"gaps-of-{gap}K", offs, 24, None))
            for gap in (0.5, 2.0, 4.375, 5.0):
                offs = []
                t = 0.125
                while t < 23:
                    offs.append((t * K, KINDS[len(offs) % 4]))
                    t += gap
                pats.append((f"messages-every-{gap}K-until-horizon", offs, 22, None))
            for live in (0.3, 2.0, 3.7, 6.25):
                pats.append((f"live-then-silent-at-{live}K", [], live + 9, live * K))
            # the peer dies in the middle of a frame: a fragment (1 byte / header only / header + part of the payload) is buffered, then silence.
            # Fragments arrive before the first ping, so that "the first ping followed by 4.5K of total silence" is unambiguous
            for nb in (1, 3, 5):
                pats.append((f"fragment-of-{nb}-bytes-then-silence", [(0.25 * K, f"PARTIAL:{nb}")], 9, None))
                pats.append((f"messages-then-fragment-of-{nb}-bytes-then-silence", [(0.25 * K, "SensorStateResponse"), (1.25 * K, "SubscribeLogsResponse"), (1.75 * K, f"PARTIAL:{nb}")], 11, None))
            pats.append(("exact-coincidence-recorded-only", [(1.0 * K, "PingResponse"), (2.0 * K, "SensorStateResponse")], 10, None))
            for label, offs, hk, live in pats:
                idx += 1
                if not ctx.mine(idx):
                    continue
                if not label.startswith("exact-coincidence"):
                    # an arrival exactly on a tick (nK) or on a possible deadline ((n+1/2)K) is decided by the loop's ordering, not by the
                    # library (and differs with the chunking of the stream): move such arrivals by K/32
                    offs = [(o + K / 32 if abs(o / K * 2 - round(o / K * 2)) < 1e-9 else o, kd) for o, kd in offs]
                if label.startswith("exact-coincidence"):
                    o = run_case(K, framing, offs, hk, None)
                    ctx.res.evaluations += 1
                    ctx.res.notes.setdefault("exact_coincidence_runs", []).append(
                        f"K={K} {framing}: pings at {[round((t - o['T0']) / K, 3) for t in o.get('pings', [])]} (recorded, not judged)")
                    continue
                one(ctx, K, framing, offs, hk, "structured/" + label.split("+")[0].split("-at-")[0], ("pat", label), live)
    # the client's own traffic, and write back-pressure, must not stand in for signs of life of the peer
    for K in Ks:
        for framing in ("plain", "noise"):
            for every in (0.3, 0.5, 0.9):
                idx += 1
                if ctx.mine(idx):
                    sends = [k * every * K + K / 16 for k in range(1, int(12 / every))]
                    one(ctx, K, framing, [(0.125 * K, "SensorStateResponse")], 10, "client-chatty-device-silent", ("chatty", every), None, client_sends=sends)
                idx += 1
                if ctx.mine(idx):
                    sends = [k * every * K + K / 16 for k in range(1, int(12 / every))]
                    offs = [((2 * j + 0.125) * K, "SensorStateResponse") for j in range(3)]
                    one(ctx, K, framing, offs, 16, "client-chatty-device-sparse", ("chatty-sparse", every), None, client_sends=sends)
        for at in (0.25, 1.6, 3.1):
            for nbytes in (80 * 1024, 300 * 1024):
                idx += 1
                if ctx.mine(idx):
                    one(ctx, K, "plain", [(0.125 * K, "SensorStateResponse")], 12, "device-stops-reading(back-pressure)", ("bp", at, nbytes), None,
                        backpressure=(at * K, nbytes))
    # exhaustive 16-slot masks
    if ctx.thorough:
        for K in (1.0, 20.0):
            for mask in range(1 << 16):
                idx += 1
                if ctx.mine(idx):
                    one(ctx, K, "plain", mask_offsets(K, mask, 16, mask), 8 + 7, "exhaustive-mask-16", ("m16", mask))
    else:
        for K in (1.0, 20.0):
            for mask in range(0, 1 << 16, 97):
                idx += 1
                if ctx.mine(idx):
                    one(ctx, K, "plain", mask_offsets(K, mask, 16, mask), 8 + 7, "strided-mask-16", ("m16", mask))


def replay(spec: dict[str, Any]) -> int:
    c = spec["case"]
    offs = [(a, b) for a, b in c["offsets"]]
    o = run_case(c["K"], c["framing"], offs, c["horizon_k"], c.get("live_until"))
    print("\n".join(o["trace"]))
    found = judge(c["K"], o, o["device_sent_times"])
    print(found)
    return 1 if found else 0

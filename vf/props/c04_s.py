"""C04 part S - the encrypted transport fails closed, end to end: a live Noise session on the simulated loop whose device deviates once
(corrupted / truncated / replayed / reordered / dropped frame, wrong key, handshake error frame, plaintext) - what reaches subscribers,
the first fatal error class, the close, and what connect() raises are judged at the APIConnection / APIClient boundary."""

from __future__ import annotations

import base64
import os
from typing import Any

from vf import refcodec
from vf.common import Ctx
from vf.sim.device import DeviceConfig
from vf.sim.scenario import Sim

PSK = bytes(range(13, 45))


def live_session(sim: Sim, psk_dev: bytes = PSK) -> tuple[Any, Any, Any, list[Any]]:
    cfg = DeviceConfig(name="dev", noise_psk=psk_dev)
    dev = sim.device(cfg)
    cli = sim.client(noise_psk=base64.b64encode(PSK).decode(), keepalive=1e5)
    c0 = sim.call("connect", lambda: cli.connect(on_stop=sim.on_stop_cb(), login=False))
    sim.run(until=lambda: c0.done, max_time=sim.clock + 100)
    got: list[Any] = []
    if c0.outcome == "ok":
        cli.subscribe_states(lambda s: got.append(s))
        sim.run_for(0.01)
    return cli, dev, c0, got


def deviation_at_the_deadline(ctx: Ctx) -> None:
    """The deviating handshake answer (another key -> error frame, another name) and the 30 s handshake deadline fall into one loop iteration (answer
    exactly at the deadline / process stopped across it): the frame is handled first and ends the session with its specific error, 'which is
    also what a pending readiness wait receives' - the connect call must not report something else."""
    from vf.sim import sweep

    res = ctx.res
    for idx, (label, spec) in enumerate(sweep.deadline_specs(("noise",), ("other-key", "other-name"))):
        if not ctx.mine(900 + idx):
            continue
        obs = sweep.run_spec(spec)
        res.evaluations += 1
        res.count("S/deviation-at-the-deadline")
        res.sig("S-deadline", label)
        if obs.harness_errors:
            res.inconclusive.append("C04 part S: " + obs.harness_errors[0][-300:])
            continue
        for _k, what in sweep.masked_first_cause(obs):
            res.violation("C04/S/readiness-wait-got-other-error", f"{label}: {what}", {"part": "S", "spec": spec}, trace=obs.trace[-40:])


def shard(ctx: Ctx) -> None:
    deviation_at_the_deadline(ctx)
    from aioesphomeapi import api_pb2 as pb
    from aioesphomeapi.core import APIConnectionError, HandshakeAPIError, InvalidEncryptionKeyAPIError, ProtocolAPIError

    res = ctx.res
    rng = ctx.rng
    idx = 0
    deviations = ["bitflip", "truncate", "replay", "swap", "drop-middle", "plaintext-frame", "empty-frame"]
    placements = ["own-chunk", "same-chunk-as-neighbours"]
    for dev_kind in deviations:
        for placement in placements:
            for rep in range(12 if ctx.thorough else 3):
                idx += 1
                if not ctx.mine(idx):
                    continue
                with Sim() as sim:
                    cli, dev, c0, got = live_session(sim)
                    if c0.outcome != "ok":
                        res.inconclusive.append(f"C04 part S: baseline connect failed {c0.exc!r}")
                        continue
                    dconn = dev.conn
                    n = 5
                    frames = [dconn.encode("SensorStateResponse", pb.SensorStateResponse(key=10 + k, state=float(k)).SerializeToString()) for k in range(n)]
                    j = 1 + rep % 3
                    items = list(frames)
                    if dev_kind == "bitflip":
                        f = bytearray(items[j])
                        pos = rng.randrange(3, len(f))
                        f[pos] ^= 1 << rng.randrange(8)
                        items[j] = bytes(f)
                        first_bad = j
                    elif dev_kind == "truncate":
                        body = items[j][3:3 + rng.randrange(0, len(items[j]) - 4)]
                        items[j] = refcodec.enc_noise_outer(body)
                        first_bad = j
                    elif dev_kind == "replay":
                        items.insert(j + 1, items[j])
                        first_bad = j + 1
                    elif dev_kind == "swap":
                        items[j], items[j + 1] = items[j + 1], items[j]
                        first_bad = j
                    elif dev_kind == "drop-middle":
                        del items[j]
                        first_bad = j
                    elif dev_kind == "plaintext-frame":
                        items[j] = refcodec.enc_plain(25, pb.SensorStateResponse(key=99, state=9.0).SerializeToString())
                        first_bad = j
                    else:
                        items[j] = refcodec.enc_noise_outer(b"")
                        first_bad = j
                    if placement == "own-chunk":
                        for it in items:
                            dconn.send_raw(it, 0.0)
                    else:
                        dconn.send_raw(b"".join(items), 0.0)
                    sim.run_for(0.05)
                    v = sim.conns[0]
                    keys = [s.key for s in got]
                    res.evaluations += 1
                    res.count(f"S/live-session-deviation/{dev_kind}")
                    res.sig("S", dev_kind, placement, j)
                    case = {"part": "S", "deviation": dev_kind, "placement": placement, "frame": j}
                    exp = [10 + k for k in range(first_bad)]
                    if keys != exp:
                        res.violation(f"C04/S/delivery/{dev_kind}", f"subscriber got keys {keys}; genuine messages before the deviation: {exp}", case, trace=sim.trace(40))
                    if v.obj.connection_state.name != "CLOSED":
                        res.violation(f"C04/S/not-closed/{dev_kind}", f"state {v.obj.connection_state.name} after the deviation", case, trace=sim.trace(40))
                    first = v.fatals[0][2] if v.fatals else None
                    want = ProtocolAPIError if dev_kind == "plaintext-frame" else InvalidEncryptionKeyAPIError
                    if first is None or not isinstance(first, want):
                        # an InvalidTag escaping data_received reaches the connection as connection_lost(exc): judged on what the connection reports
                        res.violation(f"C04/S/wrong-class/{dev_kind}", f"first fatal error {first!r}, expected {want.__name__}", case, trace=sim.trace(40))
                    if len(v.on_stop) != 1 or v.on_stop[0][2] is not False:
                        res.violation(f"C04/S/on_stop/{dev_kind}", f"stop hook calls {[x[2] for x in v.on_stop]}", case)
    # handshake-phase deviations through connect()
    hs = [("wrong-key", InvalidEncryptionKeyAPIError), ("error-frame", HandshakeAPIError), ("plaintext-device", ProtocolAPIError), ("bad-key-string", InvalidEncryptionKeyAPIError)]
    for kind, want in hs:
        idx += 1
        if not ctx.mine(idx):
            continue
        with Sim() as sim:
            cfg = DeviceConfig(name="dev", noise_psk=os.urandom(32) if kind == "wrong-key" else (None if kind == "plaintext-device" else PSK))
            dev = sim.device(cfg)
            if kind == "error-frame":
                def on_accept(c: Any) -> None:
                    def patched(data: bytes) -> None:
                        c.send_raw(refcodec.enc_noise_outer(b"\x01dev\x00") + refcodec.enc_noise_outer(b"\x01Something else went wrong"))
                    c._on_noise = patched  # type: ignore[method-assign]  # noqa: SLF001
                dev.on_accept = on_accept
            if kind == "plaintext-device":
                cfg.handlers["HelloRequest"] = lambda c, m: None

                def on_accept2(c: Any) -> None:
                    def on_bytes(data: bytes) -> None:
                        c.send_raw(refcodec.enc_plain(2, pb.HelloResponse(api_version_major=1, api_version_minor=10, name="dev").SerializeToString()))
                    c.on_bytes = on_bytes  # type: ignore[method-assign]
                dev.on_accept = on_accept2
            key = base64.b64encode(PSK).decode() if kind != "bad-key-string" else base64.b64encode(PSK[:31]).decode()
            cli = sim.client(noise_psk=key)
            c0 = sim.call("connect", lambda: cli.connect(login=False))
            sim.run(until=lambda: c0.done, max_time=sim.clock + 100)
            res.evaluations += 1
            res.count(f"S/handshake-deviation/{kind}")
            res.sig("S-hs", kind)
            case = {"part": "S", "handshake_deviation": kind}
            if c0.outcome != "raised" or not isinstance(c0.exc, want):
                res.violation(f"C04/S/connect-error/{kind}", f"connect() -> {c0.outcome} {c0.exc!r}, expected {want.__name__}", case, trace=sim.trace(40))
            if kind == "bad-key-string" and dev.conns and dev.conns[0].raw_writes:
                res.violation("C04/S/bad-key-wrote", f"{len(dev.conns[0].raw_writes)} client writes reached the device although the configured key is invalid", case)
            if sim.conns and sim.conns[0].obj.connection_state.name != "CLOSED":
                res.violation(f"C04/S/not-closed/{kind}", f"state {sim.conns[0].obj.connection_state.name}", case)

    # the same malformed key configured again and again - three attempts of one client, then a second client of the process
    from aioesphomeapi.core import BadNameAPIError  # noqa: PLC0415

    # (whitespace-only strings are configured keys too - they decode to zero bytes - not "no key": an empty string alone means no encryption)
    for klabel, key in (("16-bytes", base64.b64encode(PSK[:16]).decode()), ("31-bytes", base64.b64encode(PSK[:31]).decode()),
                        ("33-bytes", base64.b64encode(PSK + b"x").decode()), ("not-base64", "A" * 41),
                        ("one-space", " "), ("newline", "\n"), ("mixed-whitespace", " \t\r\n"), ("equals-signs", "===="), ("31-bytes+newline", base64.b64encode(PSK[:31]).decode() + "\n")):
        idx += 1
        if not ctx.mine(idx):
            continue
        with Sim() as sim:
            dev = sim.device(DeviceConfig(name="dev", noise_psk=PSK))
            clients = [sim.client(noise_psk=key), sim.client(noise_psk=key)]
            for attempt, cli in enumerate((clients[0], clients[0], clients[0], clients[1], clients[1])):
                c0 = sim.call("connect", lambda cli=cli: cli.connect(login=False))
                sim.run(until=lambda: c0.done, max_time=sim.clock + 100)
                res.evaluations += 1
                res.count("S/bad-key-string-again")
                res.sig("S-key-again", klabel, attempt)
                case = {"part": "S", "handshake_deviation": "bad-key-string-again", "key": klabel, "attempt": attempt}
                if c0.outcome != "raised" or not isinstance(c0.exc, InvalidEncryptionKeyAPIError):
                    res.violation("C04/S/connect-error/bad-key-string-again", f"attempt {attempt + 1} with the same malformed key ({klabel}): connect() -> {c0.outcome} {c0.exc!r}, "
                                  "expected InvalidEncryptionKeyAPIError", case, trace=sim.trace(40))
                    break
                wrote = sum(len(c.raw_writes) for c in dev.conns)
                if wrote:
                    res.violation("C04/S/bad-key-wrote" if True else "", f"attempt {attempt + 1}: {wrote} client writes reached the device although the configured key is invalid", case)
                    break
    # a device that completes the Noise handshake (it has the key) but is not the expected one: the name arrives in the ServerHello (current
    # firmware), or - ServerHello without a name, firmware before 2022.2 - only in the API hello; either way BadNameAPIError and nothing after it
    for where in ("server-hello", "server-hello+mac-field", "api-hello-only"):
        for traffic in (False, True):
            idx += 1
            if not ctx.mine(idx):
                continue
            with Sim() as sim:
                cfg = DeviceConfig(name="bedroom", noise_psk=PSK, noise_hello_mac=where.endswith("mac-field"))
                if where == "api-hello-only":
                    cfg.noise_name = None
                if traffic:
                    # the wrong device talks on right behind its hello answer (same chunk)
                    cfg.coalesce_replies = True
                    from vf.sim.device import DeviceConn  # noqa: PLC0415

                    orig = DeviceConn._h_HelloRequest  # noqa: SLF001

                    def hello_then_states(c: Any, m: Any, orig: Any = orig) -> None:
                        orig(c, m)
                        for k in range(3):
                            c.send("SensorStateResponse", key=70 + k, state=1.0)
                    cfg.handlers["HelloRequest"] = hello_then_states
                dev = sim.device(cfg)
                cli = sim.client(noise_psk=base64.b64encode(PSK).decode(), expected_name="kitchen", keepalive=1e5)
                delivered: list[Any] = []
                c0 = sim.call("connect", lambda: cli.connect(on_stop=sim.on_stop_cb(), login=traffic))
                sim.run(until=lambda: c0.done, max_time=sim.clock + 100)
                if c0.outcome == "ok":
                    try:
                        cli.subscribe_states(delivered.append)
                    except Exception:  # noqa: BLE001
                        pass
                    dev.conn.send("SensorStateResponse", key=80, state=2.0)
                    sim.run_for(0.05)
                res.evaluations += 1
                res.count(f"S/name-mismatch/{where}")
                res.sig("S-name", where, traffic)
                case = {"part": "S", "handshake_deviation": "name-mismatch", "name_in": where, "traffic_behind_hello": traffic}
                if c0.outcome != "raised" or not isinstance(c0.exc, BadNameAPIError) or c0.exc.received_name != "bedroom":
                    res.violation(f"C04/S/connect-error/name-mismatch/{where}", f"expected name 'kitchen', device 'bedroom' (name in {where}): connect() -> {c0.outcome} {c0.exc!r}",
                                  case, trace=sim.trace(40))
                if delivered or [d_ for d_ in sim.deliveries]:
                    res.violation(f"C04/S/delivered-after-name-mismatch/{where}", f"{len(delivered) + len(sim.deliveries)} messages of the wrong device were delivered", case)
                if sim.conns and sim.conns[0].obj.connection_state.name != "CLOSED":
                    res.violation(f"C04/S/not-closed/name-mismatch/{where}", f"state {sim.conns[0].obj.connection_state.name}", case)
                if where.startswith("server-hello"):
                    # the name arrives with the ServerHello, before the handshake completes: the session ends there - no API message is written
                    # to the wrong device (a login would carry the password) and nothing it sends reaches the connection
                    got_api = [r["name"] for c in dev.conns for r in c.received]
                    if got_api:
                        res.violation(f"C04/S/wrote-after-name-mismatch/{where}", f"the wrong device decoded {got_api} from the client after announcing its name", case,
                                      trace=sim.trace(40))
                    pk = [p for v in sim.conns for p in v.packets]
                    if pk:
                        res.violation(f"C04/S/delivered-after-name-mismatch/{where}", f"{len(pk)} messages of the wrong device reached the connection "
                                      f"(types {[p[1] for p in pk][:5]})", case, trace=sim.trace(40))

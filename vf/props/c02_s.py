"""C02 part S: every public sending method of APIClient on a live simulated session, per framing.

Monitor 4 (wire monitor): each send_messages call is paired with the transport.write calls made while it ran
(exactly one) and with the frames the independent device decoded from it (ids from the api.proto text,
payload must parse back to an equal message)."""

from __future__ import annotations

from typing import Any

from vf import protoparse, refcodec
from vf.common import Ctx
from vf.sim import apisweep


def check_batches(ctx: Ctx, framing: str, o: dict[str, Any]) -> None:
    res = ctx.res
    proto = protoparse.load_api()
    received = o["received"]
    ri = 0
    for b in o["send_batches"]:
        if b["raised"] is not None and not b["writes"]:
            continue
        res.evaluations += 1
        res.count(f"S/batches/{framing}")
        case = {"framing": framing, "part": "S", "batch": list(b["names"])}
        if len(b["writes"]) != 1:
            res.violation("C02/S/writes-per-batch", f"{len(b['writes'])} transport writes for send_messages({b['names']})", case)
            ri += len(b["msgs"])
            continue
        want = [(proto.id_of(n), m.SerializeToString()) for n, m in zip(b["names"], b["msgs"])]
        if framing == "plain":
            try:
                got = refcodec.decode_plain_exact(b["writes"][0][2])
            except refcodec.DecodeError as e:
                res.violation("C02/S/undecodable", f"write for {b['names']} does not decode: {e}", case)
                ri += len(b["msgs"])
                continue
        else:
            got = [(r["id"], r["payload"]) for r in received[ri:ri + len(b["msgs"])]]
        ri += len(b["msgs"])
        if got != want:
            res.violation("C02/S/mismatch", f"device decoded {[(i, len(p)) for i, p in got]} for batch {b['names']} = {[(i, len(p)) for i, p in want]}", case)
            continue
        res.count("S/frames_decoded_equal", len(want))
        for n in b["names"]:
            res.sig("S", framing, n)
    if o["decode_errors"]:
        res.violation("C02/S/device-decode-error", str(o["decode_errors"][:2]), {"framing": framing, "part": "S", "batch": []})


def shard(ctx: Ctx) -> None:
    # (framing, API version, library debug logging on/off, API password configured or not): the login batch and every method under each
    jobs = [("plain", (1, 10), False, "pw"), ("noise", (1, 10), False, "pw"), ("plain", (1, 0), True, "pw"), ("noise", (1, 4), True, "pw"),
            ("plain", (1, 10), True, None), ("noise", (1, 10), True, "a much longer password: ü€ 0123456789" * 3), ("plain", (1, 9), False, None), ("noise", (1, 10), False, "")]
    for i, (framing, api, debug, password) in enumerate(jobs):
        if not ctx.mine(i):
            continue
        o = apisweep.run(framing, api, debug=debug, password=password)
        ctx.res.count(f"S/sessions/debug={debug}/password={'set' if password else 'unset'}")
        if o.get("error") or o.get("harness_errors"):
            ctx.res.inconclusive.append(f"api sweep {framing}: {o.get('error') or o['harness_errors'][0][-300:]}")
            continue
        ctx.res.notes.setdefault("S_unswept_methods", []).extend(o["unswept"])
        ctx.res.count("S/methods_swept", len(o["methods"]))
        check_batches(ctx, framing, o)

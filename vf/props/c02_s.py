"""C02 part S: every public sending method of APIClient on a live simulated session, per framing.

Monitor 4 (wire monitor): each send_messages call is paired with the transport.write calls made while it ran
(exactly one) and with the frames the independent device decoded from it (ids from the api.proto text,
payload must parse back to an equal message)."""

from __future__ import annotations

from typing import Any

from vf import protoparse, refcodec
from vf.common import Ctx
from vf.sim import apisweep


def check_batches(ctx: Ctx, framing: str, o: dict[str, Any]) -> None:
    res = ctx.res
    proto = protoparse.load_api()
    received = o["received"]
    ri = 0
    for b in o["send_batches"]:
        if b["raised"] is not None and not b["writes"]:
            continue
        res.evaluations += 1
        res.count(f"S/batches/{framing}")
        case = {"framing": framing, "part": "S", "batch": list(b["names"])}
        if len(b["writes"]) != 1:
            res.violation("C02/S/writes-per-batch", f"{len(b['writes'])} transport writes for send_messages({b['names']})", case)
            ri += len(b["msgs"])
            continue
        want = [(proto.id_of(n), m.SerializeToString()) for n, m in zip(b["names"], b["msgs"])]
        if framing == "plain":
            try:
                got = refcodec.decode_plain_exact(b["writes"][0][2])
            except refcodec.DecodeError as e:
                res.violation("C02/S/undecodable", f"write for {b['names']} does not decode: {e}", case)
                ri += len(b["msgs"])
                continue
        else:
            got = [(r["id"], r["payload"]) for r in received[ri:ri + len(b["msgs"])]]
        ri += len(b["msgs"])
        if got != want:
            res.violation("C02/S/mismatch", f"device decoded {[(i, len(p)) for i, p in got]} for batch {b['names']} = {[(i, len(p)) for i, p in want]}", case)
            continue
        res.count("S/frames_decoded_equal", len(want))
        for n in b["names"]:
            res.sig("S", framing, n)
    if o["decode_errors"]:
        res.violation("C02/S/device-decode-error", str(o["decode_errors"][:2]), {"framing": framing, "part": "S", "batch": []})


def shard(ctx: Ctx) -> None:
    # (framing, API version, library debug logging on/off, API password configured or not): the login batch and every method under each
    jobs = [("plain", (1, 10), False, "pw"), ("noise", (1, 10), False, "pw"), ("plain", (1, 0), True, "pw"), ("noise", (1, 4), True, "pw"),
            ("plain", (1, 10), True, None), ("noise", (1, 10), True, "a much longer password: ü€ 0123456789" * 3), ("plain", (1, 9), False, None), ("noise", (1, 10), False, "")]
    for i, (framing, api, debug, password) in enumerate(jobs):
        if not ctx.mine(i):
            continue
        o = apisweep.run(framing, api, debug=debug, password=password)
        ctx.res.count(f"S/sessions/debug={debug}/password={'set' if password else 'unset'}")
        if o.get("error") or o.get("harness_errors"):
            ctx.res.inconclusive.append(f"api sweep {framing}: {o.get('error') or o['harness_errors'][0][-300:]}")
            continue
        ctx.res.notes.setdefault("S_unswept_methods", []).extend(o["unswept"])
        ctx.res.count("S/methods_swept", len(o["methods"]))
        check_batches(ctx, framing, o)
    backpressure(ctx)


def backpressure(ctx: Ctx) -> None:
    """The device stops reading for a while (socket buffer full): the transport queues what the client writes - in 3.12 as memoryviews of the
    very objects it was given - and flushes when the device reads again.  What the device then decodes is still exactly what was sent."""
    import base64

    from aioesphomeapi import api_pb2 as pb
    from vf.sim.device import DeviceConfig
    from vf.sim.scenario import Sim

    res = ctx.res
    psk = bytes(range(5, 37))
    for j, (framing, n_cmds, chunk) in enumerate((("plain", 40, 700), ("noise", 40, 700), ("noise", 200, 90), ("plain", 12, 30000), ("noise", 12, 30000),
                                                   ("noise", 120, 40000), ("plain", 120, 40000))):   # (the last two queue well over 1 MiB)
        if not ctx.mine(100 + j):
            continue
        with Sim() as sim:
            cfg = DeviceConfig(noise_psk=psk if framing == "noise" else None)
            dev = sim.device(cfg)
            cli = sim.client(keepalive=1e5, **({"noise_psk": base64.b64encode(psk).decode()} if framing == "noise" else {}))
            c0 = sim.call("connect", lambda: cli.connect(login=False))
            sim.run(until=lambda: c0.done, max_time=sim.clock + 50)
            if c0.outcome != "ok":
                res.inconclusive.append(f"C02 back-pressure: connect failed {c0.exc!r}")
                continue
            dconn = dev.conn
            n0 = len(dconn.received)
            dconn.sock.send_fault = "block"
            sent: list[tuple[str, bytes]] = []
            refused = 0
            for k in range(n_cmds):
                # a send that the library REFUSES (raises) while the device is not reading is the library's choice: that message is then
                # simply not part of what was sent - but everything it accepted must still decode, in order, under consecutive nonces
                try:
                    if k % 3 == 0:
                        data = bytes((k * 7 + i) % 251 for i in range(chunk + k))
                        cli.send_voice_assistant_audio(data)
                        sent.append(("VoiceAssistantAudio", pb.VoiceAssistantAudio(data=data).SerializeToString()))
                    elif k % 3 == 1:
                        cli.switch_command(k, bool(k % 2))
                        sent.append(("SwitchCommandRequest", pb.SwitchCommandRequest(key=k, state=bool(k % 2)).SerializeToString()))
                    else:
                        cli.text_command(k, "t" * (k % 50))
                        sent.append(("TextCommandRequest", pb.TextCommandRequest(key=k, state="t" * (k % 50)).SerializeToString()))
                except Exception:  # noqa: BLE001
                    refused += 1
                if k % 5 == 0:
                    sim.run_for(0.001)
            res.count("S/back-pressure/sends_refused_by_the_library", refused)
            sim.run_for(0.05)
            got_while_blocked = len(dconn.received) - n0
            # the device reads again - at once (j even) or slowly, a few KiB per loop iteration, so that the transport falls below its low-water
            # mark (resume_writing) with data still queued; the application keeps sending while the queue drains
            dconn.sock.send_fault = None if j % 2 == 0 else ("rate", 3000 + 1000 * (j % 3))
            for step in range(400):
                sim.small_step()
                if step % 3 == 0 and step < 240 and sim.conns and sim.conns[0].obj.is_connected:
                    try:
                        cli.switch_command(900 + step, True)
                        sent.append(("SwitchCommandRequest", pb.SwitchCommandRequest(key=900 + step, state=True).SerializeToString()))
                    except Exception:  # noqa: BLE001
                        refused += 1
            dconn.sock.send_fault = None
            sim.run_for(0.5)
            got = [(r["name"], r["payload"]) for r in dconn.received[n0:]]
            res.evaluations += 1
            res.count(f"S/back-pressure/{framing}")
            res.count("S/back-pressure/messages_queued_while_device_not_reading", len(sent) - got_while_blocked)
            res.sig("S-bp", framing, n_cmds, chunk)
            case = {"framing": framing, "part": "S", "batch": [], "back_pressure": {"commands": n_cmds, "audio_chunk": chunk}}
            if dconn.decode_errors:
                res.violation("C02/S/device-decode-error", f"after the device resumed reading: {dconn.decode_errors[:2]}", case, trace=sim.trace(30))
            elif got != sent:
                first = next((i for i, (a, b) in enumerate(zip(got, sent)) if a != b), min(len(got), len(sent)))
                res.violation("C02/S/mismatch", f"device resumed reading: decoded {len(got)} messages, {len(sent)} were sent; first difference at #{first}", case, trace=sim.trace(30))
            else:
                res.count("S/frames_decoded_equal", len(sent))

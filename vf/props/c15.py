"""C15 — commands carry exactly the arguments the caller supplied (engine S; table-driven expected request)."""

from __future__ import annotations

import base64
import itertools
from typing import Any

from vf import protoparse
from vf.common import Ctx
from vf.sim.device import DeviceConfig
from vf.sim.scenario import Sim

LEVEL = "exploration"
RULE = ("every command method x EVERY subset of its optional arguments x value class {falsy (0, 0.0, False, '', (0,0,0), enum 0), typical, extreme} "
        "x negotiated API versions around each threshold (cover 1.0/1.1, climate preset 1.4/1.5, service int 1.2/1.3, plus 1.10), plus execute_service "
        "over all argument types incl. arrays and empty arrays; the request decoded independently at the device is compared with the request "
        "a declarative table predicts: key, for each supplied argument its field(s) = transform(value) and has_<field> true iff api.proto declares "
        "such a flag, everything else at default. Non-trivial = the device decoded a request and it was compared; distinct = (method, supplied "
        "subset, value class, version class)")
ASSUMPTIONS = [
    "the convention table is written from api.proto (which has_* flags exist is read from the .proto text) and the statement, not from client.py",
    "float fields are compared after float32 rounding by the protobuf runtime on both sides",
    "arguments supplied by position: the positional parameter order of the command methods is the one published at the pinned commit (table POSITIONAL)",
    "engine S doubles as in C05",
]
BUDGET_S = {"quick": 300, "thorough": 1800}
MIN_EVALS = {"quick": 15000, "thorough": 40000}
PSK = bytes(range(6, 38))


def exhaustive(tier: str) -> Any:
    return ["every subset of optional arguments of every command method (light 2^12, climate 2^10, fan 2^6, ...) x 3 value classes"]


def M() -> Any:
    from aioesphomeapi import model

    return model


def values() -> dict[str, dict[str, tuple[Any, Any, Any]]]:
    """method -> optional arg -> (falsy, typical, extreme)."""
    m = M()
    return {
        "cover_command": {"position": (0.0, 0.5, 1.0), "tilt": (0.0, 0.25, 1.0), "stop": (False, True, True)},
        "fan_command": {"state": (False, True, True), "speed": (m.FanSpeed.LOW, m.FanSpeed.MEDIUM, m.FanSpeed.HIGH), "speed_level": (0, 3, 2**31 - 1),
                        "oscillating": (False, True, True), "direction": (m.FanDirection.FORWARD, m.FanDirection.REVERSE, m.FanDirection.REVERSE),
                        "preset_mode": ("", "eco", "x" * 300)},
        "light_command": {"state": (False, True, True), "brightness": (0.0, 0.5, 1.0), "color_mode": (0, 35, 2**31 - 1), "color_brightness": (0.0, 0.25, 1.0),
                          "rgb": ((0.0, 0.0, 0.0), (1.0, 0.5, 0.25), (1.0, 1.0, 1.0)), "white": (0.0, 0.75, 1.0), "color_temperature": (0.0, 153.0, 1e6),
                          "cold_white": (0.0, 0.5, 1.0), "warm_white": (0.0, 0.5, 1.0), "transition_length": (0.0, 1.2346, 4294967.0),
                          "flash_length": (0, 0.0007, 59.9996), "effect": ("", "rainbow", "é" * 100)},
        "climate_command": {"mode": (m.ClimateMode.OFF, m.ClimateMode.HEAT, m.ClimateMode.AUTO), "target_temperature": (0.0, 21.5, -40.0),
                            "target_temperature_low": (0.0, 18.0, 1e9), "target_temperature_high": (0.0, 24.0, -1e9),
                            "fan_mode": (m.ClimateFanMode.ON, m.ClimateFanMode.LOW, m.ClimateFanMode.QUIET),
                            "swing_mode": (m.ClimateSwingMode.OFF, m.ClimateSwingMode.BOTH, m.ClimateSwingMode.HORIZONTAL),
                            "custom_fan_mode": ("", "turbo", "y" * 200), "preset": (m.ClimatePreset.NONE, m.ClimatePreset.AWAY, m.ClimatePreset.ACTIVITY),
                            "custom_preset": ("", "night", "z" * 200), "target_humidity": (0.0, 45.0, 100.0)},
        "siren_command": {"state": (False, True, True), "tone": ("", "beep", "t" * 100), "volume": (0.0, 0.5, 1.0), "duration": (0, 30, 2**32 - 1)},
        "lock_command": {"code": ("", "1234", "9" * 64)},
        "valve_command": {"position": (0.0, 0.5, 1.0), "stop": (False, True, True)},
        "media_player_command": {"command": (m.MediaPlayerCommand.PLAY, m.MediaPlayerCommand.MUTE, m.MediaPlayerCommand.UNMUTE), "volume": (0.0, 0.5, 1.0),
                                 "media_url": ("", "http://x/y.mp3", "u" * 500), "announcement": (False, True, True)},
        "alarm_control_panel_command": {"code": ("", "1234", "0" * 32)},
    }


class _Str(str):
    """A str subclass (what a config library or a translation layer may hand over)."""


def alt_form(v: Any) -> Any:
    import enum

    if isinstance(v, enum.Enum):
        return int(v.value)
    if isinstance(v, bool):
        return 1 if v else 0
    if isinstance(v, float):
        return int(v) if v == int(v) else v
    if isinstance(v, tuple):
        return list(v)
    if isinstance(v, str):
        return _Str(v)
    return v


REQUIRED = {
    "lock_command": lambda m: [("command", m.LockCommand.UNLOCK), ("command", m.LockCommand.LOCK), ("command", m.LockCommand.OPEN)],
    "alarm_control_panel_command": lambda m: [("command", m.AlarmControlPanelCommand.DISARM), ("command", m.AlarmControlPanelCommand.TRIGGER)],
}
REQUEST = {
    "cover_command": "CoverCommandRequest", "fan_command": "FanCommandRequest", "light_command": "LightCommandRequest",
    "climate_command": "ClimateCommandRequest", "siren_command": "SirenCommandRequest", "lock_command": "LockCommandRequest",
    "valve_command": "ValveCommandRequest", "media_player_command": "MediaPlayerCommandRequest",
    "alarm_control_panel_command": "AlarmControlPanelCommandRequest",
}
FIXED = {
    # methods whose arguments are all required: (request, [(kwargs)...])
    "switch_command": ("SwitchCommandRequest", [{"state": False}, {"state": True}]),
    "number_command": ("NumberCommandRequest", [{"state": 0.0}, {"state": 4.5}, {"state": -1e30}]),
    "select_command": ("SelectCommandRequest", [{"state": ""}, {"state": "opt"}, {"state": "ü" * 50}]),
    "text_command": ("TextCommandRequest", [{"state": ""}, {"state": "hello"}, {"state": "x" * 255}]),
    "date_command": ("DateCommandRequest", [{"year": 0, "month": 0, "day": 0}, {"year": 2024, "month": 2, "day": 29}, {"year": 2**32 - 1, "month": 12, "day": 31}]),
    "time_command": ("TimeCommandRequest", [{"hour": 0, "minute": 0, "second": 0}, {"hour": 23, "minute": 59, "second": 58}]),
    "datetime_command": ("DateTimeCommandRequest", [{"epoch_seconds": 0}, {"epoch_seconds": 1700000000}, {"epoch_seconds": 2**32 - 1}]),
    "button_command": ("ButtonCommandRequest", [{}]),
    "update_command": ("UpdateCommandRequest", None),
}


# positional parameter order of the command methods as published at the pinned commit (after `key`; media_player_command is keyword-only).
# An argument supplied by position is a supplied argument: every third call of the sweeps passes its arguments positionally.
POSITIONAL = {
    "cover_command": ["position", "tilt", "stop"],
    "fan_command": ["state", "speed", "speed_level", "oscillating", "direction", "preset_mode"],
    "light_command": ["state", "brightness", "color_mode", "color_brightness", "rgb", "white", "color_temperature", "cold_white", "warm_white",
                      "transition_length", "flash_length", "effect"],
    "climate_command": ["mode", "target_temperature", "target_temperature_low", "target_temperature_high", "fan_mode", "swing_mode", "custom_fan_mode",
                        "preset", "custom_preset", "target_humidity"],
    "siren_command": ["state", "tone", "volume", "duration"],
    "lock_command": ["command", "code"],
    "valve_command": ["position", "stop"],
    "alarm_control_panel_command": ["command", "code"],
}


def positional_args(method: str, required: dict[str, Any], supplied: dict[str, Any]) -> list[Any] | None:
    order = POSITIONAL.get(method)
    allv = {**required, **supplied}
    if order is None or any(k not in order for k in allv):
        return None
    last = max((order.index(k) for k in allv), default=-1)
    return [allv.get(name) for name in order[:last + 1]]


def expected_request(method: str, key: int, supplied: dict[str, Any], required: dict[str, Any], apiv: tuple[int, int]) -> Any:
    """The table: arguments -> expected request message (built with the protobuf runtime, independent of client.py)."""
    from aioesphomeapi import api_pb2 as pb

    pr = protoparse.load_api()
    name = REQUEST[method]
    decl = pr.messages[name]
    req = getattr(pb, name)(key=key)
    m = M()

    def put(field: str, value: Any, flag: str | None = None) -> None:
        setattr(req, field, value)
        fl = flag or "has_" + field
        if decl.field_by_name(fl) is not None:
            setattr(req, fl, True)

    for a, v in required.items():
        setattr(req, a, v)
    for a, v in supplied.items():
        if method == "cover_command":
            if apiv >= (1, 1):
                if a == "stop":
                    if v:
                        req.stop = True
                else:
                    put(a, v)
            continue
        if method == "valve_command" and a == "stop":
            if v:
                req.stop = True
            continue
        if method == "light_command" and a == "rgb":
            req.has_rgb = True
            req.red, req.green, req.blue = v
            continue
        if method == "light_command" and a in ("transition_length", "flash_length"):
            put(a, int(round(v * 1000)))
            continue
        if method == "climate_command" and a == "preset":
            if apiv < (1, 5):
                req.has_legacy_away = True
                req.legacy_away = v == m.ClimatePreset.AWAY
            else:
                put("preset", v)
            continue
        put(a, v)
    if method == "cover_command" and apiv < (1, 1):
        # documented legacy encoding: stop / fully open / fully closed only
        if supplied.get("stop"):
            req.has_legacy_command, req.legacy_command = True, m.LegacyCoverCommand.STOP
        elif supplied.get("position") == 1.0:
            req.has_legacy_command, req.legacy_command = True, m.LegacyCoverCommand.OPEN
        elif supplied.get("position") == 0.0:
            req.has_legacy_command, req.legacy_command = True, m.LegacyCoverCommand.CLOSE
    return req


def diff(got: Any, exp: Any) -> list[tuple[str, str]]:
    out = []
    for fd in exp.DESCRIPTOR.fields:
        g, e = getattr(got, fd.name), getattr(exp, fd.name)
        if fd.is_repeated:
            g, e = list(g), list(e)
        if g != e:
            if fd.name.startswith("has_"):
                kind = "flag-missing" if e else "flag-set-but-not-supplied"
            elif not getattr(exp, "has_" + fd.name, True) and hasattr(exp, "has_" + fd.name):
                kind = "value-set-but-not-supplied"
            else:
                kind = "value"
            out.append((fd.name, f"{kind}: got {g!r:.60}, expected {e!r:.60}"))
    return out


class Session:
    def __init__(self, sim: Sim, apiv: tuple[int, int], framing: str = "plain", hello_name: str | None = None) -> None:
        cfg = DeviceConfig(api_major=apiv[0], api_minor=apiv[1], hello_name=hello_name)
        if framing == "noise":
            cfg.noise_psk = PSK
        self.dev = sim.device(cfg)
        kw = {"noise_psk": base64.b64encode(PSK).decode()} if framing == "noise" else {}
        self.cli = sim.client(keepalive=1e5, **kw)
        c = sim.call("connect", lambda: self.cli.connect(login=False))
        sim.run(until=lambda: c.done, max_time=sim.clock + 50)
        if c.outcome != "ok":
            raise RuntimeError(f"connect failed {c.exc!r}")
        self.apiv = apiv
        self.sim = sim

    def last(self, n0: int) -> list[dict[str, Any]]:
        return self.dev.conn.received[n0:]


def run_commands(ctx: Ctx, apiv: tuple[int, int], methods: list[str], framing: str, stride: int = 1, hello_name: str | None = None) -> None:
    res = ctx.res
    vals = values()
    m = M()
    with Sim() as sim:
        s = Session(sim, apiv, framing, hello_name)
        idx = 0
        for method in methods:
            if method in FIXED:
                reqname, kwl = FIXED[method]
                if kwl is None:
                    kwl = [{"command": c} for c in m.UpdateCommand]
                for kw in kwl:
                    idx += 1
                    if not ctx.mine(idx):
                        continue
                    from aioesphomeapi import api_pb2 as pb

                    key = 100 + idx % 7
                    exp = getattr(pb, reqname)(key=key, **kw)
                    n0 = len(s.dev.conn.received)
                    getattr(s.cli, method)(key, **kw)
                    judge(ctx, s, n0, method, exp, kw, {}, "fixed", apiv, framing)
                continue
            opt = vals[method]
            names = list(opt)
            reqs = REQUIRED[method](m) if method in REQUIRED else [None]
            for r in range(len(names) + 1):
                for subset in itertools.combinations(names, r):
                    for vc in range(4):
                        idx += 1
                        if idx % stride or not ctx.mine(idx // stride):
                            continue
                        if vc == 3 and (not subset or idx % 2):
                            continue
                        # vc 3: the typical value in another legal Python form (an int for an integral float, a list for a tuple, a str subclass,
                        # the plain int of an enum member, 1 for True)
                        supplied = {a: (opt[a][vc] if vc < 3 else alt_form(opt[a][1 if a != "color_temperature" else 1])) for a in subset}
                        rq = reqs[idx % len(reqs)]
                        required = {rq[0]: rq[1]} if rq else {}
                        key = (idx * 2654435761) & 0xFFFFFFFF if idx % 5 == 0 else idx % 251
                        exp = expected_request(method, key, supplied, required, apiv)
                        n0 = len(s.dev.conn.received)
                        pos = positional_args(method, required, supplied) if idx % 3 == 0 else None
                        try:
                            if pos is not None:
                                res.count("calls/arguments-passed-positionally")
                                getattr(s.cli, method)(key, *pos)
                            elif method == "media_player_command":
                                s.cli.media_player_command(key, **supplied)
                            elif required:
                                getattr(s.cli, method)(key, *required.values(), **supplied)
                            else:
                                getattr(s.cli, method)(key, **supplied)
                        except Exception as e:  # noqa: BLE001
                            res.evaluations += 1
                            res.violation(f"C15/{method}/call-raised/{type(e).__name__}", f"{method}(key, " + (", ".join(map(repr, pos)) if pos is not None else
                                          ", ".join(f"{k}={v!r:.30}" for k, v in {**required, **supplied}.items())) + f") on a live session raised {e!r}",
                                          {"method": method, "supplied": {k: repr(v) for k, v in supplied.items()}, "positional": pos is not None, "api_version": list(apiv)})
                            continue
                        judge(ctx, s, n0, method, exp, supplied, required, ("falsy", "typical", "extreme", "typical-in-another-python-form")[vc] + ("/positional" if pos is not None else ""), apiv, framing)
        if sim.harness_errors:
            res.inconclusive.append("harness: " + sim.harness_errors[0][-300:])


def run_same_key_sequences(ctx: Ctx, apiv: tuple[int, int], methods: list[str], framing: str) -> None:
    """The SAME entity key (and the same required argument) used again and again with different subsets of the optional arguments - everything,
    then nothing, then one at a time, then everything again: an omitted argument is at its default whatever an EARLIER call for that key carried."""
    res = ctx.res
    vals = values()
    m = M()
    with Sim() as sim:
        s = Session(sim, apiv, framing)
        idx = 0
        for method in methods:
            if method in FIXED:
                continue
            opt = vals[method]
            names = list(opt)
            if not names:
                continue
            reqs = REQUIRED[method](m) if method in REQUIRED else [None]
            for rq in reqs:
                idx += 1
                if not ctx.mine(idx):
                    continue
                required = {rq[0]: rq[1]} if rq else {}
                key = 4711
                plan: list[tuple[tuple[str, ...], int]] = [(tuple(names), 1), ((), 0)] + [((n,), 2) for n in names] + [((), 1), (tuple(names), 2), ((), 2)] + \
                    [(tuple(x for x in names if x != n), 1) for n in names] + [((), 0)]
                for subset, vc in plan:
                    supplied = {a: opt[a][vc] for a in subset}
                    exp = expected_request(method, key, supplied, required, apiv)
                    # every step twice in a row: the identical command issued again is sent again (a user pressing the button twice)
                    for again in (False, True):
                        n0 = len(s.dev.conn.received)
                        if method == "media_player_command":
                            s.cli.media_player_command(key, **supplied)
                        elif required:
                            getattr(s.cli, method)(key, *required.values(), **supplied)
                        else:
                            getattr(s.cli, method)(key, **supplied)
                        judge(ctx, s, n0, method, exp, supplied, required, "same-key-" + ("falsy", "typical", "extreme")[vc] + ("-repeated" if again else ""), apiv, framing)
                        res.count("calls/same-key-sequence" + ("/identical-call-repeated" if again else ""))
        if sim.harness_errors:
            res.inconclusive.append("harness: " + sim.harness_errors[0][-300:])


def run_backlogged(ctx: Ctx, apiv: tuple[int, int], framing: str, drain: Any, first: Any) -> None:
    """Commands issued while the device is NOT reading (its window is closed, the transport queues what it is given - in 3.12 the very objects, or
    memoryviews of them) and while the queue drains slowly afterwards: every command the client accepted reaches the device as the request the call
    described, in call order.  `first` is how the kernel treats the first write of the stall ("block" = EAGAIN, ("partial", n) = takes n bytes)."""
    res = ctx.res
    vals = values()
    m = M()
    with Sim() as sim:
        s = Session(sim, apiv, framing)
        sock = s.dev.conn.sock
        n0 = len(s.dev.conn.received)
        sock.send_fault = first
        s.cli.send_voice_assistant_audio(b"\x07" * 5000)
        sock.send_fault = "block"
        expected: list[tuple[str, Any, dict[str, Any], dict[str, Any]]] = []
        idx = 0
        plan: list[tuple[str, dict[str, Any], dict[str, Any]]] = []
        for method in REQUEST:
            opt = vals[method]
            names = list(opt)
            reqs = REQUIRED[method](m) if method in REQUIRED else [None]
            for vc, subset in ((1, tuple(names)), (0, tuple(names)), (2, tuple(names[::2])), (1, ())):
                rq = reqs[(idx + vc) % len(reqs)]
                plan.append((method, {a: opt[a][vc] for a in subset}, {rq[0]: rq[1]} if rq else {}))
        draining = False
        for method, supplied, required in plan:
            idx += 1
            key = 5000 + idx
            exp = expected_request(method, key, supplied, required, apiv)
            try:
                if method == "media_player_command":
                    s.cli.media_player_command(key, **supplied)
                elif required:
                    getattr(s.cli, method)(key, *required.values(), **supplied)
                else:
                    getattr(s.cli, method)(key, **supplied)
            except Exception as e:  # noqa: BLE001
                res.evaluations += 1
                res.violation(f"C15/{method}/call-raised/{type(e).__name__}", f"{method}(...) on a live session whose device is reading slowly raised {e!r}",
                              {"method": method, "supplied": {k: repr(v) for k, v in supplied.items()}, "api_version": list(apiv), "framing": framing,
                               "backlog": True})
                continue
            expected.append((method, exp, supplied, required))
            if idx == len(plan) // 2:
                sock.send_fault = drain     # second half of the calls is made while the queue drains a few hundred bytes per loop iteration
                draining = True
            if draining or idx % 7 == 0:
                sim.small_step()
        sock.send_fault = None
        sim.run_for(0.5)
        got = [r for r in s.last(n0) if r["name"] != "VoiceAssistantAudio"]
        res.count(f"backlog/{framing}/commands_queued_while_device_not_reading", len(expected))
        case0 = {"api_version": list(apiv), "framing": framing, "backlog": True, "drain": repr(drain), "first": repr(first)}
        if s.dev.conn.decode_errors or len(got) != len(expected):
            res.evaluations += 1
            res.violation("C15/backlog/request-count-or-type", f"{len(expected)} commands were accepted while the device was not reading; when it read again it "
                          f"decoded {len(got)} requests, decode errors: {s.dev.conn.decode_errors[:2]}", case0)
        for (method, exp, supplied, required), r in zip(expected, got):
            res.evaluations += 1
            res.count("requests_compared")
            res.sig("backlog", method, tuple(sorted(supplied)), framing)
            if r["name"] != type(exp).__name__ or r["msg"] is None:
                res.violation(f"C15/{method}/request-count-or-type", f"queued behind a backlog: device decoded {r['name']}, the call was {method}", {**case0, "method": method})
                continue
            if r["msg"] != exp:
                for field, what in diff(r["msg"], exp)[:4]:
                    res.violation(f"C15/{method}/{field}/{what.split(':')[0]}", f"{method}({', '.join(f'{k}={v!r:.30}' for k, v in supplied.items())}) queued "
                                  f"behind a backlog: field {field} {what}", {**case0, "method": method, "supplied": {k: repr(v) for k, v in supplied.items()}})
        if sim.harness_errors:
            res.inconclusive.append("harness: " + sim.harness_errors[0][-300:])


def judge(ctx: Ctx, s: Session, n0: int, method: str, exp: Any, supplied: dict[str, Any], required: dict[str, Any], vclass: str,
          apiv: tuple[int, int], framing: str) -> None:
    res = ctx.res
    res.evaluations += 1
    new = s.last(n0)
    res.count(f"calls/{method}")
    vkey = "legacy" if (method == "cover_command" and apiv < (1, 1)) or (method == "climate_command" and apiv < (1, 5) and "preset" in supplied) else "current"
    res.sig(method, tuple(sorted(supplied)), vclass, vkey)
    case = {"method": method, "supplied": {k: repr(v) for k, v in supplied.items()}, "required": {k: repr(v) for k, v in required.items()},
            "api_version": list(apiv), "framing": framing}
    if len(new) != 1 or new[0]["name"] != type(exp).__name__ or new[0]["msg"] is None:
        res.violation(f"C15/{method}/request-count-or-type", f"device received {[r['name'] for r in new]}, expected one {type(exp).__name__}", case)
        return
    got = new[0]["msg"]
    res.count("requests_compared")
    if got != exp:
        for field, what in diff(got, exp)[:4]:
            kind = what.split(":")[0]
            res.violation(f"C15/{method}/{field}/{kind}", f"{method}({', '.join(f'{k}={v!r:.30}' for k, v in supplied.items())}) @api {apiv[0]}.{apiv[1]}: "
                          f"field {field} {what}", case)
    if res.evaluations % 3000 == 1:
        res.sample({**case, "value_class": vclass, "decoded_request": str(got).replace("\n", " ")[:200]})


def run_services(ctx: Ctx, apiv: tuple[int, int]) -> None:
    from aioesphomeapi import api_pb2 as pb

    res = ctx.res
    m = M()
    T = m.UserServiceArgType
    samples: dict[Any, list[Any]] = {
        T.BOOL: [False, True], T.INT: [0, 5, -2**31, 2**31 - 1], T.FLOAT: [0.0, 1.5, -1e30], T.STRING: ["", "abc", "ü" * 40],
        T.BOOL_ARRAY: [[], [False], [True, False, True]], T.INT_ARRAY: [[], [0], [1, -2, 2**31 - 1]],
        T.FLOAT_ARRAY: [[], [0.0], [1.5, -2.25]], T.STRING_ARRAY: [[], [""], ["a", "b"]],
    }
    field = {T.BOOL: "bool_", T.FLOAT: "float_", T.STRING: "string_", T.BOOL_ARRAY: "bool_array", T.INT_ARRAY: "int_array",
             T.FLOAT_ARRAY: "float_array", T.STRING_ARRAY: "string_array"}
    with Sim() as sim:
        s = Session(sim, apiv)
        rng = ctx.rng
        for k in range(300 if ctx.thorough else 60):
            types = [rng.choice(list(T)) for _ in range(rng.randint(0, 5))] if k > 8 else [list(T)[k % 8]]
            args = [m.UserServiceArg(name=f"a{i}", type=t) for i, t in enumerate(types)]
            data = {f"a{i}": rng.choice(samples[t]) for i, t in enumerate(types)}
            svc = m.UserService(name="svc", key=1000 + k, args=args)
            exp = pb.ExecuteServiceRequest(key=1000 + k)
            for i, t in enumerate(types):
                a = exp.args.add()
                v = data[f"a{i}"]
                if t == T.INT:
                    setattr(a, "int_" if apiv >= (1, 3) else "legacy_int", v)
                elif t in (T.BOOL, T.FLOAT, T.STRING):
                    setattr(a, field[t], v)
                else:
                    getattr(a, field[t]).extend(v)
            n0 = len(s.dev.conn.received)
            s.cli.execute_service(svc, data)
            res.evaluations += 1
            res.count("calls/execute_service")
            res.sig("execute_service", tuple(int(t) for t in types), apiv >= (1, 3))
            new = s.last(n0)
            case = {"method": "execute_service", "types": [t.name for t in types], "data": {k_: repr(v) for k_, v in data.items()}, "api_version": list(apiv)}
            if len(new) != 1 or new[0]["msg"] is None or new[0]["name"] != "ExecuteServiceRequest":
                res.violation("C15/execute_service/request-count-or-type", f"device received {[r['name'] for r in new]}", case)
                continue
            res.count("requests_compared")
            if new[0]["msg"] != exp:
                res.violation("C15/execute_service/arguments" + ("/legacy-int" if apiv < (1, 3) else ""),
                              f"execute_service({case['types']}) @api {apiv}: decoded {str(new[0]['msg'])[:150]!r} != expected {str(exp)[:150]!r}", case)


def run_multi_session(ctx: Ctx, versions: list[tuple[int, int]]) -> None:
    """ONE APIClient over several consecutive sessions with different negotiated API versions: every version-dependent request must follow
    the version of the session it is sent in (nothing remembered from an earlier session, e.g. per-service or per-entity encodings)."""
    from aioesphomeapi import api_pb2 as pb

    res = ctx.res
    m = M()
    T = m.UserServiceArgType
    svc = m.UserService(name="svc", key=4242, args=[m.UserServiceArg(name="n", type=T.INT), m.UserServiceArg(name="s", type=T.STRING),
                                                  m.UserServiceArg(name="l", type=T.INT_ARRAY)])
    with Sim() as sim:
        cfg = DeviceConfig(api_major=versions[0][0], api_minor=versions[0][1])
        dev = sim.device(cfg)
        cli = sim.client(keepalive=1e5)
        for si, apiv in enumerate(versions):
            cfg.api_major, cfg.api_minor = apiv
            # sessions are opened the way an application may: connect(), or the two steps start_connection() + finish_connection() that
            # ReconnectLogic uses for every session; and they end by disconnect() or by the device going away
            how = ("connect", "two-step", "two-step", "connect")[(si + len(versions)) % 4]
            res.count(f"calls/multi-session/session-opened-by/{how}")
            if how == "connect":
                c = sim.call("connect", lambda: cli.connect(login=False))
                sim.run(until=lambda: c.done, max_time=sim.clock + 50)
            else:
                c = sim.call("start", lambda: cli.start_connection())
                sim.run(until=lambda: c.done, max_time=sim.clock + 50)
                if c.outcome == "ok":
                    c = sim.call("finish", lambda: cli.finish_connection(login=False))
                    sim.run(until=lambda: c.done, max_time=sim.clock + 50)
            if c.outcome != "ok":
                res.inconclusive.append(f"multi-session connect failed: {c.exc!r}")
                return
            shim = type("S", (), {"dev": dev, "cli": cli, "last": lambda self, n0: dev.conn.received[n0:]})()
            # execute_service, same service key in every session
            n0 = len(dev.conn.received)
            cli.execute_service(svc, {"n": 7 + si, "s": "x", "l": [1, 2]})
            exp = pb.ExecuteServiceRequest(key=4242)
            a = exp.args.add()
            setattr(a, "int_" if apiv >= (1, 3) else "legacy_int", 7 + si)
            exp.args.add().string_ = "x"
            exp.args.add().int_array.extend([1, 2])
            new = dev.conn.received[n0:]
            res.evaluations += 1
            res.count("calls/multi-session/execute_service")
            res.sig("multi-session", "execute_service", si, apiv)
            case = {"method": "execute_service", "session": si, "versions": [list(v) for v in versions], "api_version": list(apiv)}
            if len(new) != 1 or new[0]["msg"] != exp:
                res.violation("C15/execute_service/arguments/multi-session", f"session {si} @api {apiv} after sessions {versions[:si]}: decoded "
                              f"{str(new[0]['msg'] if new else None)[:120]!r} != expected {str(exp)[:120]!r}", case)
            # cover / climate, same entity key in every session
            for method, supplied in (("cover_command", {"position": 1.0}), ("cover_command", {"position": 0.5, "tilt": 0.25}), ("cover_command", {"stop": True}),
                                     ("climate_command", {"preset": m.ClimatePreset.AWAY}), ("climate_command", {"preset": m.ClimatePreset.HOME, "target_temperature": 21.0})):
                expq = expected_request(method, 77, supplied, {}, apiv)
                n0 = len(dev.conn.received)
                getattr(cli, method)(77, **supplied)
                judge(ctx, shim, n0, method, expq, supplied, {}, "multi-session", apiv, "plain")
            if si % 3 == 1:
                dev.conn.eof(0.0)         # the device reboots (firmware update): the session ends without disconnect() being called
                sim.run_for(0.5)
            else:
                d = sim.call("disconnect", lambda: cli.disconnect())
                sim.run(until=lambda: d.done, max_time=sim.clock + 50)
            sim.run_for(0.1)


def run_two_clients(ctx: Ctx, va: tuple[int, int], vb: tuple[int, int]) -> None:
    """TWO APIClient objects alive in one process, each with its own device and its own negotiated API version, used alternately with the
    same service / entity keys: every request follows the version of the session it is sent on (nothing shared between the clients)."""
    from aioesphomeapi import api_pb2 as pb

    res = ctx.res
    m = M()
    T = m.UserServiceArgType
    svc = m.UserService(name="svc", key=4242, args=[m.UserServiceArg(name="n", type=T.INT), m.UserServiceArg(name="s", type=T.STRING)])
    with Sim() as sim:
        pairs = []
        for k, apiv in enumerate((va, vb)):
            cfg = DeviceConfig(api_major=apiv[0], api_minor=apiv[1], name=f"dev{k}")
            dev = sim.device(cfg, addresses=(f"10.0.{k}.1",))
            cli = sim.client(f"10.0.{k}.1", keepalive=1e5)
            c = sim.call("connect", lambda cli=cli: cli.connect(login=False))
            sim.run(until=lambda: c.done, max_time=sim.clock + 50)
            if c.outcome != "ok":
                res.inconclusive.append(f"two-clients connect failed: {c.exc!r}")
                return
            pairs.append((cli, dev, apiv))
        for rnd in range(3):
            for k in ((0, 1) if rnd % 2 == 0 else (1, 0)):
                cli, dev, apiv = pairs[k]
                shim = type("S", (), {"dev": dev, "cli": cli, "last": lambda self, n0, dev=dev: dev.conn.received[n0:]})()
                n0 = len(dev.conn.received)
                cli.execute_service(svc, {"n": 7 + rnd, "s": "x"})
                exp = pb.ExecuteServiceRequest(key=4242)
                setattr(exp.args.add(), "int_" if apiv >= (1, 3) else "legacy_int", 7 + rnd)
                exp.args.add().string_ = "x"
                new = dev.conn.received[n0:]
                res.evaluations += 1
                res.count("calls/two-clients/execute_service")
                res.sig("two-clients", "execute_service", rnd, k, va, vb)
                case = {"method": "execute_service", "two_clients": [list(va), list(vb)], "client": k, "api_version": list(apiv)}
                if len(new) != 1 or new[0]["msg"] != exp:
                    res.violation("C15/execute_service/arguments/two-clients", f"client {k} @api {apiv} next to a client @api {pairs[1 - k][2]}: decoded "
                                  f"{str(new[0]['msg'] if new else None)[:120]!r} != expected {str(exp)[:120]!r}", case)
                other_n0 = len(pairs[1 - k][1].conn.received)
                for method, supplied in (("cover_command", {"position": 1.0}), ("cover_command", {"position": 0.5, "tilt": 0.25}), ("cover_command", {"stop": True}),
                                         ("climate_command", {"preset": m.ClimatePreset.AWAY}), ("light_command", {"state": True, "brightness": 0.5}),
                                         ("fan_command", {"state": True, "speed_level": 2})):
                    expq = expected_request(method, 77, supplied, {}, apiv)
                    n0 = len(dev.conn.received)
                    getattr(cli, method)(77, **supplied)
                    judge(ctx, shim, n0, method, expq, supplied, {}, "two-clients", apiv, "plain")
                # same entity key and command on both clients; only one of them supplies the optional argument in this round
                for method, reqd, optional in (("lock_command", {"command": m.LockCommand.UNLOCK}, {"code": f"{1000 + rnd}"}),
                                               ("alarm_control_panel_command", {"command": m.AlarmControlPanelCommand.DISARM}, {"code": f"{2000 + rnd}"}),
                                               ("siren_command", {}, {"tone": "alarm", "volume": 0.5}), ("select_command", {"state": "a"}, {}),
                                               ("media_player_command", {}, {"media_url": "http://x/y.mp3"})):
                    if method not in REQUEST:
                        continue
                    supplied = optional if (rnd + k) % 2 == 0 else {}
                    expq = expected_request(method, 78, supplied, reqd, apiv)
                    n0 = len(dev.conn.received)
                    try:
                        getattr(cli, method)(78, *reqd.values(), **supplied)
                    except TypeError:
                        continue
                    judge(ctx, shim, n0, method, expq, supplied, reqd, "two-clients", apiv, "plain")
                if len(pairs[1 - k][1].conn.received) != other_n0:
                    res.violation("C15/request-on-the-other-clients-session", f"commands on client {k} produced {len(pairs[1 - k][1].conn.received) - other_n0} "
                                  "requests at the OTHER client's device", case)


def shard(ctx: Ctx) -> None:
    from vf.sim import device as _device

    _device.AUTO_ROTATE = True   # chunking of the device's stream rotates: as written / replies coalesced / cut into 1..8-byte pieces
    if ctx.shard < 6:
        orders = [[(1, 2), (1, 10), (1, 0), (1, 5), (1, 4), (2, 0)], [(1, 10), (1, 2), (1, 10)], [(1, 0), (1, 1), (1, 0)], [(1, 4), (1, 5), (1, 4), (2, 1)],
                  [(2, 0), (1, 2), (2, 5), (1, 3)], [(1, 3), (1, 2), (1, 3), (1, 2)]]
        run_multi_session(ctx, orders[ctx.shard])
    two = [((1, 2), (1, 10)), ((1, 10), (1, 2)), ((1, 0), (1, 5)), ((1, 4), (1, 5)), ((2, 0), (1, 1)), ((1, 10), (1, 10))]
    if 6 <= ctx.shard < 12 or ctx.nshards < 12:
        run_two_clients(ctx, *two[ctx.shard % 6])
    all_methods = list(REQUEST) + list(FIXED)
    thr = ctx.thorough
    # current API: everything, every subset
    run_commands(ctx, (1, 10), all_methods, "plain")
    # thresholds
    for apiv in ((1, 0), (1, 1)):
        run_commands(ctx, apiv, ["cover_command", "valve_command", "lock_command"], "plain")
    for apiv in ((1, 4), (1, 5)):
        run_commands(ctx, apiv, ["climate_command", "fan_command"], "plain")
    # old firmware also leaves the name out of its hello: the negotiated version is the one it announced all the same
    for apiv in ((1, 0), (1, 4), (1, 2)):
        run_commands(ctx, apiv, ["cover_command", "climate_command", "valve_command"], "plain", hello_name="")
    run_commands(ctx, (1, 10), ["fan_command", "siren_command", "media_player_command", "cover_command", "lock_command", "switch_command"], "noise")
    run_same_key_sequences(ctx, (1, 10), list(REQUEST), "plain")
    for j, (framing, drain, first) in enumerate((("plain", ("rate", 400), ("partial", 1000)), ("noise", ("rate", 300), ("partial", 1500)),
                                                 ("plain", None, "block"), ("noise", ("rate", 5000), "block"))):
        if ctx.mine(9000 + j):
            run_backlogged(ctx, (1, 10), framing, drain, first)
    if thr:
        run_same_key_sequences(ctx, (1, 4), list(REQUEST), "noise")
        for apiv in ((1, 2), (1, 3), (1, 9), (2, 0)):
            run_commands(ctx, apiv, all_methods, "plain", stride=3)
    if ctx.shard < 7:
        run_services(ctx, [(1, 0), (1, 2), (1, 3), (1, 4), (1, 5), (1, 10), (2, 0)][ctx.shard])


def replay(spec: dict[str, Any]) -> int:
    print("C15 replay:", spec.get("key"))
    print(spec.get("what"))
    print(spec.get("case"))
    return 0

"""C18 — reconnect manager: one attempt at a time, specified backoff, clean stop (engine S + offline trace checker).

The real ReconnectLogic drives the real APIClient against the simulated device / network / mDNS.  Recorded: every
APIClient.start_connection / finish_connection invocation at the class boundary (= the manager's attempts), the user callbacks
on_connect / on_disconnect / on_connect_error (enter and return), harness calls of start() / stop(), injected mDNS record batches
(and whether a registered listener received them), listener add/remove and close on the fake zeroconf instances, connection
objects created / closed / stopped.  The checker is a pass over that log in sequence order.
"""

from __future__ import annotations

import base64
import itertools
from typing import Any

from vf.common import Ctx
from vf.sim import clientlog, mdns
from vf.sim.device import DeviceConfig
from vf.sim.scenario import Sim

LEVEL = "exploration"
RULE = ("histories of 3-25 steps on one ReconnectLogic + APIClient from {start(), stop(), stop_callback(); set the device/network behaviour of the following "
        "attempts to ok | refuse | unreachable name | TCP hang | garbage at hello | silent | invalid password | requires encryption | wrong noise key; end the "
        "session by device EOF / RST / DisconnectRequest / garbage or by the user's disconnect() / disconnect(force); inject an mDNS batch (matching PTR, "
        "matching A, both, the same as refresh of a cached record (old != None), PTR/A of another device); advance 0 / 1 ms / 0.5 / 1 / 2 / 3 / 5 / 6 / 10 / 60 s or to exactly the manager's armed retry timer "
        "(- 1 ms, +0, + 1 ms)}; client addressed by FQDN or IP literal (name given) or by x.local through the fake mDNS; plaintext or noise client; supplied or "
        "library-created zeroconf; ALL histories up to length 3 (quick) / 4 (thorough) over an 11-symbol alphabet, seeded random beyond. Trace checker: (a) a "
        "start_connection never enters while another start/finish is in progress, connection objects never overlap; (b) every attempt instant is justified "
        "(a start() call, failure + min(round(1.8^n),60) s with n = failures reported since the last success/start, 60 s after an auth/encryption-class "
        "error, disconnect +0 / +5 s, a matching mDNS record delivered to the registered listener while waiting or connecting - not while handshaking or "
        "connected); (c) bounded progress: with no intervening start/stop/mDNS action the first attempt after each such trigger begins at exactly its due "
        "instant; (d) on_connect / on_disconnect alternate starting with on_connect, one per established / ended session, each failed attempt is reported "
        "once to on_connect_error with the raised exception; (e) after stop() returned and until the next start(): no attempt, the manager is no listener "
        "on any zeroconf instance, a library-created instance is closed, a supplied one never. Non-trivial = at least one attempt was judged; distinct = "
        "(variant, history, attempt/callback outcome sequence)")
ASSUMPTIONS = [
    "exact attempt instants (b)/(c) are judged with user callbacks that return immediately; in the slow-callback variants (callbacks suspend 0.3 s while "
    "holding the manager's lock) the return instant of any callback also justifies an attempt and (c) is not judged - (a), (d), (e) are",
    "after an auth/encryption-class error the manager keeps retrying at 60 s also for later non-auth failures; both 60 s and the count-based backoff are "
    "accepted as justified there, and exactness (c) is judged only where the statement gives a single value",
    "an attempt the manager itself cancels (stop, or a restart while still resolving/connecting) may or may not be reported to on_connect_error",
    "AAAA / TXT / SRV records naming the device are outside the statement's 'mDNS record for the device' as implemented (PTR alias, A name): not driven",
    "engine S doubles as in C05; zeroconf doubles as in C20",
]
BUDGET_S = {"quick": 300, "thorough": 3000}
MIN_EVALS = {"quick": 1500, "thorough": 15000}
PSK = bytes(range(7, 39))
PSK2 = bytes(range(8, 40))
TOL = 1e-6

WORLDS = ("ok", "refuse", "dns-fail", "tcp-hang", "garbage", "silent", "badauth", "needs-encryption", "badkey", "netunreach")
AUTH_WORLDS = ("badauth", "needs-encryption", "badkey")


def backoff(n: int) -> int:
    """From the statement: min(round(1.8^n), 60)."""
    return int(min(round(1.8 ** min(n, 40)), 60))


def records(kind: str, name: str = "dev") -> list[Any]:
    from zeroconf import DNSAddress, DNSNsec, DNSPointer, DNSService, DNSText, RecordUpdate
    from zeroconf.const import _CLASS_IN, _TYPE_A, _TYPE_AAAA, _TYPE_NSEC, _TYPE_PTR, _TYPE_SRV, _TYPE_TXT

    def ptr(n: str) -> Any:
        return RecordUpdate(DNSPointer("_esphomelib._tcp.local.", _TYPE_PTR, _CLASS_IN, 4500, f"{n}._esphomelib._tcp.local."), None)

    def a(n: str) -> Any:
        return RecordUpdate(DNSAddress(f"{n}.local.", _TYPE_A, _CLASS_IN, 120, bytes([10, 0, 0, 1])), None)

    def refresh(r: Any) -> Any:
        # the device was seen before: zeroconf hands over the cached record as `old` (a reboot within the TTL looks exactly like this)
        return RecordUpdate(r.new, r.new)

    # records of the types a real answer carries around the PTR / A ones (python-zeroconf hands over all records of one packet as one batch:
    # SRV and TXT in front of the A record in an answer to a service query, AAAA before A, NSEC at the end)
    def srv(n: str) -> Any:
        return RecordUpdate(DNSService(f"{n}._esphomelib._tcp.local.", _TYPE_SRV, _CLASS_IN, 120, 0, 0, 6053, f"{n}.local."), None)

    def txt(n: str) -> Any:
        return RecordUpdate(DNSText(f"{n}._esphomelib._tcp.local.", _TYPE_TXT, _CLASS_IN, 4500, b"\x0bversion=1.0\x0dmac=aabbccddeeff"), None)

    def aaaa(n: str) -> Any:
        return RecordUpdate(DNSAddress(f"{n}.local.", _TYPE_AAAA, _CLASS_IN, 120, bytes([0xFD, 0]) + bytes(13) + b"\x01"), None)

    def nsec(n: str) -> Any:
        return RecordUpdate(DNSNsec(f"{n}.local.", _TYPE_NSEC, _CLASS_IN, 120, f"{n}.local.", [_TYPE_A, _TYPE_AAAA]), None)

    extra = {"match-a-behind-srv-txt": [srv(name), txt(name), a(name)], "match-ptr-behind-aaaa-nsec": [aaaa(name), nsec(name), ptr(name)],
             "nomatch-other-types": [srv(name), txt(name), aaaa(name), nsec(name)]}
    if kind in extra:
        return extra[kind]
    return {"match-ptr": [ptr(name)], "match-a": [a(name)], "match-both": [ptr("other"), a(name), ptr(name)],
            "match-ptr-refresh": [refresh(ptr(name))], "match-a-refresh": [refresh(a("other")), refresh(a(name))],
            "nomatch-ptr": [ptr("other")], "nomatch-a": [a("other")], "nomatch-both": [ptr("other2"), a("dev2")]}[kind]


def run_history(case: dict[str, Any]) -> dict[str, Any]:
    """case = {variant: {addr: ip|local, noise: bool, zc: supplied|library}, hist: [...]}"""
    import socket

    from aioesphomeapi.reconnect_logic import ReconnectLogic

    var = case["variant"]
    hist = case["hist"]
    if var.get("name_via") == "rename":
        # the manager is first used under another name (one failed attempt, so that it has been waiting and listening under the old name), is
        # stopped, and the application then assigns the device's current name: everything afterwards is judged under the new name
        hist = [["world", "refuse"], ["start"], ["run", 0.5], ["stop"], ["world", "ok"], ["rename"]] + list(hist)
    out: dict[str, Any] = {}
    with Sim() as sim, mdns.MdnsPatch(sim) as world, clientlog.Recording(sim) as log:
        HOST = var.get("host", "dev")      # the device's node name = the first label of its .local host name
        cfg = DeviceConfig(reply_delay=0.01, name=HOST)
        if "api_minor" in var:
            cfg.api_minor = int(var["api_minor"])       # (firmware newer / older than the client)
        dev = sim.device(cfg, addresses=("10.0.0.1",), delay=0.001)
        base_policy = sim.net.connect_policy
        state = {"world": "ok"}

        def policy(sock: Any, addr: Any) -> tuple[Any, ...]:
            w = state["world"]
            if w == "refuse":
                return ("refuse", 0.001)
            if w == "tcp-hang":
                return ("hang",)
            if w == "netunreach":
                return ("sync-unreach",)
            return base_policy(sock, addr)

        sim.net.connect_policy = policy

        def apply_world(w: str) -> None:
            state["world"] = w
            cfg.invalid_password = w == "badauth"
            cfg.answer_hello = w not in ("silent", "needs-encryption")
            cfg.hello_extra = (lambda c: c.send_raw(b"\x42\x42\x42\x42")) if w == "garbage" else None
            cfg.handlers.pop("HelloRequest", None)
            if var["noise"]:
                cfg.noise_psk = PSK2 if w == "badkey" else PSK
                cfg.noise_silent = w == "silent"
            elif w == "needs-encryption":
                cfg.handlers["HelloRequest"] = lambda c, m: c.send_raw(b"\x01\x00\x00")
            if var["addr"] == "local":
                world.answers[HOST] = "none" if w == "dns-fail" else {"v4": ["10.0.0.1"]}
                sim.net.dns[f"{HOST}.local"] = socket.gaierror(socket.EAI_NONAME, "Name or service not known")
            else:
                sim.net.dns["dev.example.com"] = socket.gaierror(socket.EAI_NONAME, "x") if w == "dns-fail" else ["10.0.0.1"]

        apply_world("ok")
        kw: dict[str, Any] = {}
        if var["noise"]:
            kw["noise_psk"] = base64.b64encode(PSK).decode()
        supplied = None
        if var["zc"] == "supplied":
            supplied = world.supplied_async()
            kw["zeroconf_instance"] = supplied
        address = {"local": f"{HOST}.local", "ip": "dev.example.com", "literal": "10.0.0.1"}[var["addr"]]
        cli = sim.client(address, 6053, "pw", **kw)
        cbs: list[tuple[Any, ...]] = []   # (seq, t, name, phase, arg)

        slow = float(var.get("slow_cb") or 0.0)

        def mk(name: str) -> Any:
            async def cb(*a: Any) -> None:
                cbs.append((sim.next_seq(), sim.clock, name, "enter", a[0] if a else None))
                sim.log("cb", name, a[0] if a and not isinstance(a[0], BaseException) else (type(a[0]).__name__ if a else None))
                if slow:
                    # an application callback that suspends (it holds the manager's lock meanwhile); a cancellation of the manager's task
                    # while it is in here ends the callback without a 'ret' event
                    fut = sim.loop.create_future()
                    sim.net.at(sim.clock + slow, lambda: fut.done() or fut.set_result(None))
                    await fut
                cbs.append((sim.next_seq(), sim.clock, name, "ret", a[0] if a else None))
                if var.get("cb_raises") == name:
                    # an application bug inside the hook: the session it was told about is established all the same
                    raise RuntimeError(f"application bug inside {name}")
            return cb

        name_via = var.get("name_via", "ctor")
        rl = ReconnectLogic(client=cli, on_connect=mk("on_connect"), on_disconnect=mk("on_disconnect"), on_connect_error=mk("on_connect_error"),
                            name="" if name_via == "empty" else None if var["addr"] == "local" or name_via == "attr" else "devold" if name_via == "rename" else HOST)
        if name_via == "attr" and var["addr"] != "local":
            # the application learns the device name after constructing the manager (an entry configured by IP address) and assigns it
            rl.name = HOST
        harness: list[tuple[Any, ...]] = []   # (seq, t, what, extra)
        calls: list[Any] = []
        skipped = 0

        def retry_timer() -> float | None:
            for h in sim.loop._scheduled:  # noqa: SLF001
                if not h._cancelled and getattr(h._callback, "__name__", "") == "_call_connect_once":  # noqa: SLF001
                    return h._when  # noqa: SLF001
            return None

        def do_call(name: str, factory: Any, wait: str) -> None:
            r = sim.call(name, factory)
            calls.append(r)
            if wait == "done":
                sim.run(until=lambda: r.done, max_time=sim.clock + 200)
            else:
                sim.settle()

        for step in hist:
            op = step[0]
            if op == "rename":
                rl.name = HOST
            elif op == "world":
                apply_world(step[1])
            elif op == "start":
                do_call("start", lambda: rl.start(), step[1] if len(step) > 1 else "done")
            elif op == "stop":
                do_call("stop", lambda: rl.stop(), step[1] if len(step) > 1 else "done")
            elif op == "stop_cb":
                harness.append((sim.next_seq(), sim.clock, "stop_cb", None))
                rl.stop_callback()
                task = rl._stop_task  # noqa: SLF001
                if task is not None:
                    if task.done():
                        harness.append((sim.next_seq(), sim.clock, "stop_cb_ret", None))
                    else:
                        task.add_done_callback(lambda _t: harness.append((sim.next_seq(), sim.clock, "stop_cb_ret", None)))
                sim.settle()
            elif op == "run":
                dt = step[1]
                if isinstance(dt, str):
                    w = retry_timer()
                    if w is None:
                        skipped += 1
                        continue
                    target = w + {"timer-": -0.001, "timer": 0.0, "timer+": 0.001}[dt]
                    if target > sim.clock:
                        sim.run(max_time=target)
                    else:
                        skipped += 1
                elif dt == 0:
                    sim.settle()
                else:
                    sim.run_for(dt)
            elif op == "mdns":
                recs = records(step[1], HOST)
                at = sim.clock
                if len(step) > 2 and step[2] == "at-timer":
                    w = retry_timer()
                    if w is None:
                        skipped += 1
                        continue
                    at = w

                def fire(recs: Any = recs, kind: str = step[1]) -> None:
                    seq = sim.next_seq()
                    n = world.deliver_records(recs)
                    harness.append((seq, sim.clock, "mdns", (kind, n)))

                if at > sim.clock:
                    sim.at(at, fire)
                    sim.run(max_time=at)
                    sim.settle()
                else:
                    fire()
                    sim.settle()
            elif op == "dev":
                live = [c for c in dev.conns if not c.sock.closed]
                if not live:
                    skipped += 1
                    continue
                c = live[-1]
                kind = step[1]
                if kind == "eof":
                    c.eof(0.0)
                elif kind == "rst":
                    c.rst(0.0)
                elif kind == "discreq":
                    if not c.can_send_encrypted():
                        skipped += 1
                        continue
                    c.send("DisconnectRequest", _delay=0.0)
                else:
                    c.send_raw(b"\x42\x42\x42" if not c.noise else b"\x07\x00\x00", 0.0)
                sim.run_for(0.001)
            elif op == "disconnect":
                do_call("cli.disconnect", lambda: cli.disconnect(), "done")
            elif op == "force":
                do_call("cli.force", lambda: cli.disconnect(force=True), "none")
            else:
                raise ValueError(step)
        # horizon: long enough for any single retry (<= 60 s) to be due, then a final stop and a quiet period
        sim.run_for(70.0)
        do_call("stop", lambda: rl.stop(), "done")
        t_final_stop = sim.clock
        sim.run_for(130.0)
        if cli._connection is not None:  # noqa: SLF001  (stop() does not disconnect the client: end the last session so that the counts are final)
            d = sim.call("bye", lambda: cli.disconnect(force=True))
            sim.run(until=lambda: d.done, max_time=sim.clock + 5)
            sim.run_for(1.0)
        out.update({
            "log": list(log), "cbs": cbs, "harness": harness, "calls": calls, "skipped": skipped, "t_final_stop": t_final_stop, "t_end": sim.clock,
            "conns": [(v.idx, v.created_seq, v.closed_seq, [(s[0], s[2]) for s in v.on_stop]) for v in sim.conns],
            "instances": [{"idx": z.idx, "origin": z.origin, "created": z.created_seq, "closed_seq": z.closed_seq, "closes": z.close_calls,
                           "listener_log": list(z.listener_log), "listeners_now": len(z.listeners), "used_after_close": z.used_after_close}
                          for z in world.instances],
            "tcp": [(a["t_begin"], a["address"][0], a["outcome"]) for a in sim.net.connect_attempts],
            "open_sockets": len(sim.open_sockets()), "harness_errors": list(sim.harness_errors), "loop_exceptions": list(sim.loop_exceptions),
            "trace": sim.trace(200), "pending_calls": [c.name for c in calls if not c.done],
            "live_timers": sim.live_timers(), "timer_fired": list(sim.timer_fired),
        })
    return out


def is_auth(err: Any) -> bool:
    from aioesphomeapi.core import InvalidAuthAPIError, InvalidEncryptionKeyAPIError, RequiresEncryptionAPIError

    return isinstance(err, (InvalidAuthAPIError, InvalidEncryptionKeyAPIError, RequiresEncryptionAPIError))


def judge(case: dict[str, Any], o: dict[str, Any]) -> tuple[list[tuple[str, str]], dict[str, int]]:
    from aioesphomeapi.core import APIConnectionCancelledError

    out: list[tuple[str, str]] = []
    st = {"attempts": 0, "attempts_failed": 0, "sessions": 0, "sessions_ended": 0, "mdns_delivered_matching": 0, "mdns_not_delivered": 0, "mdns_not_delivered/while-waiting-between-attempts": 0, "backoff_instants_superseded_by_newer_failure": 0,
          "due_checked": 0, "due_skipped": 0, "stops": 0, "starts": 0, "restarts(manager-cancelled)": 0, "justified_by/start": 0, "justified_by/backoff": 0,
          "justified_by/disconnect": 0, "justified_by/mdns": 0, "justified_by/lock-released-by-callback": 0, "refused-by-client(already connected)": 0}
    evs: list[tuple[int, float, str, Any]] = []
    for e in o["log"]:
        if e[3] in ("start_connection", "finish_connection"):
            evs.append((e[0], e[1], f"{e[2]}:{e[3]}", e))
    for c in o["cbs"]:
        evs.append((c[0], c[1], f"cb:{c[2]}:{c[3]}", c[4]))
    for h in o["harness"]:
        evs.append((h[0], h[1], h[2], h[3]))
    for c in o["calls"]:
        if c.name in ("start", "stop"):
            evs.append((c.seq_call, c.t_call, f"call:{c.name}:enter", None))
            if c.done and c.seq_ret is not None:
                evs.append((c.seq_ret, c.t_ret, f"call:{c.name}:ret", c.outcome))
        elif c.name in ("cli.disconnect", "cli.force"):
            evs.append((c.seq_call, c.t_call, "user-disconnect", None))
    for idx, created, closed, stops in o["conns"]:
        evs.append((created, 0.0, "conn:new", idx))
        if closed is not None:
            evs.append((closed, 0.0, "conn:closed", idx))
    evs.sort(key=lambda x: x[0])

    J: list[tuple[float, str]] = []          # justified instants
    dues: list[dict[str, Any]] = []          # bounded-progress obligations
    actions: list[tuple[int, float, str]] = []   # intervening harness actions (start/stop/mdns delivered/user disconnect)
    attempts: list[dict[str, Any]] = []
    phase = "idle"                            # idle | connecting | opened | handshaking | connected
    open_conns: set[int] = set()
    stopped = True                            # before the first start() the manager is stopped
    stop_pending = 0
    stop_ret_seq: int | None = None
    c1 = c2 = 0
    auth = False
    last_cb: str | None = None
    n_connect = n_disconnect = 0
    pending_fail: dict[str, Any] | None = None
    sessions_via_manager = 0
    zombie = False
    starts_in_progress = 0
    outstanding_stops: list[int] = []
    start_enter_seqs: list[int] = []
    armed_stop_rets: list[tuple[int, float]] = []

    def justified(t: float) -> str | None:
        for jt, why in J:
            if abs(jt - t) <= TOL:
                return why
        return None

    slow = bool(case["variant"].get("slow_cb"))
    in_backoff = False      # a failed attempt has been reported to the application and the next attempt has not started: the manager is waiting to retry
    for seq, t, kind, e in evs:
        if kind == "cb:on_connect_error:ret":
            in_backoff = True
        elif kind in ("enter:start_connection", "call:stop:enter", "stop_cb", "call:start:enter"):
            in_backoff = False
        if slow and kind.startswith("cb:") and kind.endswith(":ret"):
            # callbacks run under the manager's lock: an attempt that became due while a callback was suspended starts when it returns
            J.append((t, "lock-released-by-callback"))
        if kind == "conn:new":
            if open_conns:
                out.append(("C18/two-connections-alive", f"connection object #{e} created while #{sorted(open_conns)} not closed"))
            open_conns.add(e)
        elif kind == "conn:closed":
            open_conns.discard(e)
        elif kind == "call:start:enter":
            st["starts"] += 1
            J.append((t, "start"))
            actions.append((seq, t, "start"))
            stop_ret_seq = None
            stopped = False
            starts_in_progress += 1
            start_enter_seqs.append(seq)
        elif kind == "call:start:ret":
            starts_in_progress = max(0, starts_in_progress - 1)
            stop_ret_seq = None
            stopped = False
            J.append((t, "start"))
            actions.append((seq, t, "start-returned"))
            c1 = 0
            if phase == "idle":
                c2 = 0
                auth = False
        elif kind in ("call:stop:enter", "stop_cb"):
            stop_pending += 1
            outstanding_stops.append(seq)
            actions.append((seq, t, "stop"))
        elif kind in ("call:stop:ret", "stop_cb_ret"):
            stop_pending = max(0, stop_pending - 1)
            s_enter = outstanding_stops.pop(0) if outstanding_stops else seq
            st["stops"] += 1
            actions.append((seq, t, "stop-returned"))
            # (e) is armed only if no start() call is in progress at this moment (their order is then the lock's, not the statement's)
            stop_ret_seq = seq if not any(se > s_enter for se in start_enter_seqs) else None
            if stop_ret_seq is not None:
                armed_stop_rets.append((seq, t))
                stopped = True
            if phase == "connected":
                # stop() does not disconnect the client: the session lives on without a manager ("zombie"); the manager itself is idle again
                zombie = True
                phase = "idle"
        elif kind == "user-disconnect":
            actions.append((seq, t, "user-disconnect"))
        elif kind == "mdns":
            mk, n = e
            if n == 0:
                st["mdns_not_delivered"] += 1
                if mk.startswith("match") and phase == "idle" and not stopped and not stop_pending and not starts_in_progress and in_backoff \
                        and st["starts"] == 1 and st["stops"] == 0 and not slow:
                    # boundary oracle for "while it is waiting": a failed attempt has been reported, the retry has not started, nobody ever called
                    # stop(): the manager IS waiting, so a matching record broadcast now must reach it - that no listener is registered (nothing was
                    # delivered) is the failure, not an excuse
                    st["mdns_not_delivered/while-waiting-between-attempts"] += 1
                    out.append(("C18/not-listening-while-waiting", f"a matching mDNS record was broadcast at t={t:.6f} while the manager was waiting to retry "
                                f"(failed attempt reported, no stop() ever called): no listener of the manager was registered on any zeroconf instance"))
            elif mk.startswith("match"):
                st["mdns_delivered_matching"] += 1
                actions.append((seq, t, "mdns"))
                if phase in ("idle", "connecting") and not stopped:
                    J.append((t, "mdns"))
                    if phase == "idle" and not stop_pending:
                        dues.append({"t": t, "seq": seq, "why": "matching mDNS record while waiting"})
        elif kind == "enter:start_connection":
            st["attempts"] += 1
            att = {"seq": seq, "t": t, "result": None}
            attempts.append(att)
            if pending_fail is not None:
                out.append(("C18/failed-attempt-not-reported", f"attempt failed with {pending_fail['exc']!r} at t={pending_fail['t']:.6f} and the next attempt "
                            f"started at t={t:.6f} without an on_connect_error call"))
                pending_fail = None
            if phase == "connected" and stop_pending:
                # a stop() in progress has already reset the manager under its lock (it returns only after closing zeroconf)
                zombie = True
                phase = "idle"
            att["phase_before"] = "connected" if (zombie and phase == "idle") else phase
            att["open_conns_at_enter"] = len(open_conns)
            if phase != "idle":
                out.append(("C18/attempt-while-attempt-in-progress", f"start_connection entered at t={t:.6f} while the manager's previous attempt was {phase}"))
            if stop_ret_seq is not None:
                out.append(("C18/attempt-after-stop", f"start_connection entered at t={t:.6f} after stop() had returned (no start() since)"))
            why = justified(t)
            if why is None:
                near = min(J, key=lambda j: abs(j[0] - t)) if J else None
                out.append(("C18/unjustified-attempt", f"attempt started at t={t:.6f}; justified instants {[(round(j[0], 6), j[1]) for j in J[-6:]]}"
                            + (f"; nearest {near[0]:.6f} ({near[1]})" if near else "")))
            else:
                st["justified_by/" + why.split(" ")[0]] += 1
            phase = "connecting"
        elif kind == "ret:start_connection":
            before = attempts[-1].get("phase_before") if attempts else "idle"
            refused = e[5] != "ok" and "lready connected" in str(e[6])
            if e[5] == "ok":
                phase = "opened"
            else:
                phase = "idle"
                st["attempts_failed"] += 1
                if refused:
                    st["refused-by-client(already connected)"] += 1
                    if attempts and attempts[-1].get("open_conns_at_enter") == 0:
                        # no connection object of this client is open: the due attempt was thrown away (no TCP connect at the due instant)
                        out.append(("C18/attempt-refused-without-session", f"the attempt due at t={t:.6f} was refused with {e[6]!r} although no connection of the client was open"))
                if isinstance(e[6], APIConnectionCancelledError):
                    st["restarts(manager-cancelled)"] += 1
                    pending_fail = None
                else:
                    pending_fail = {"exc": e[6], "t": t}
        elif kind == "enter:finish_connection":
            if phase != "opened":
                out.append(("C18/finish-without-open-attempt", f"finish_connection entered while {phase}"))
            phase = "handshaking"
        elif kind == "ret:finish_connection":
            if e[5] == "ok":
                phase = "connected"
                st["sessions"] += 1
                sessions_via_manager += 1
                c1 = c2 = 0
                auth = False
            else:
                phase = "idle"
                st["attempts_failed"] += 1
                if isinstance(e[6], APIConnectionCancelledError):
                    # only task.cancel() produces this class; neither stop() nor a restart may cancel an attempt that is already handshaking
                    out.append(("C18/handshake-cancelled", f"finish_connection was cancelled at t={t:.6f}: the manager cancelled an attempt that was already handshaking"))
                    pending_fail = None
                else:
                    pending_fail = {"exc": e[6], "t": t}
        elif kind == "cb:on_connect_error:enter":
            if not isinstance(e, APIConnectionCancelledError):
                # "after the n-th consecutive failed attempt it retries after ...": once a newer failure has been reported, the back-off instant of an
                # earlier failure justifies nothing any more (a retry timer left armed from it is stale; the wait that counts is this failure's)
                stale = [j for j in J if j[1].startswith("backoff ")]
                if stale:
                    st["backoff_instants_superseded_by_newer_failure"] += len(stale)
                    J[:] = [j for j in J if not j[1].startswith("backoff ")]
            if pending_fail is not None:
                if e is not pending_fail["exc"]:
                    out.append(("C18/on_connect_error-wrong-exception", f"reported {e!r}, the attempt raised {pending_fail['exc']!r}"))
                pending_fail = None
            elif not isinstance(e, APIConnectionCancelledError):
                out.append(("C18/on_connect_error-without-failed-attempt", f"on_connect_error({e!r}) at t={t:.6f} with no failed attempt to report"))
        elif kind == "cb:on_connect_error:ret":
            actions.append((seq, t, "failure"))
            c1 += 1
            c2 += 1
            if is_auth(e):
                auth = True
            if is_auth(e):
                cands = {60}            # the statement is explicit for the failure that IS an auth/encryption error
            else:
                cands = {backoff(c1), backoff(c2)}
                if auth:
                    cands.add(60)       # later failures after an auth error: see ASSUMPTIONS
            for b in cands:
                J.append((t + b, f"backoff n={c1}/{c2}{' auth' if auth else ''} -> {b}s"))
            if len(cands) == 1 and not stopped and not stop_pending and not isinstance(e, APIConnectionCancelledError):
                dues.append({"t": t + next(iter(cands)), "seq": seq, "why": f"failure #{c1} at t={t:.6f} + {next(iter(cands))} s"})
        elif kind == "cb:on_connect:enter":
            n_connect += 1
            if last_cb == "on_connect":
                out.append(("C18/on_connect-twice", f"on_connect at t={t:.6f} without an on_disconnect since the previous one"))
            if phase != "connected":
                out.append(("C18/on_connect-without-session", f"on_connect at t={t:.6f} while {phase}"))
            last_cb = "on_connect"
        elif kind == "cb:on_disconnect:enter":
            n_disconnect += 1
            if last_cb != "on_connect":
                out.append(("C18/on_disconnect-without-on_connect", f"on_disconnect({e}) at t={t:.6f}, previous callback {last_cb}"))
            last_cb = "on_disconnect"
        elif kind == "cb:on_disconnect:ret":
            if zombie:
                zombie = False
            else:
                phase = "idle"
            actions.append((seq, t, "disconnect"))
            st["sessions_ended"] += 1
            wait = 5.0 if e else 0.0
            J.append((t + wait, "disconnect"))
            if not stopped and not stop_pending:
                dues.append({"t": t + wait, "seq": seq, "why": f"{'expected' if e else 'unexpected'} disconnect at t={t:.6f} + {wait:g} s"})
    # ---- (c) bounded progress (exact instants are only defined when callbacks do not suspend)
    for d in ([] if slow else dues):
        if d["t"] > o["t_final_stop"] - 1e-3:
            st["due_skipped"] += 1
            continue
        nxt = [a for a in attempts if a["seq"] > d["seq"]]
        lim = nxt[0]["seq"] if nxt else float("inf")
        inter = [a for a in actions if d["seq"] < a[0] < lim and a[1] <= d["t"] + TOL]
        if inter:
            st["due_skipped"] += 1   # superseded: another trigger or harness action came first
            continue
        st["due_checked"] += 1
        if not nxt:
            out.append(("C18/retry-missing", f"{d['why']}: due at t={d['t']:.6f}, no attempt ever started (observed until t={o['t_final_stop']:.6f})"))
        elif abs(nxt[0]["t"] - d["t"]) > TOL:
            key = "C18/retry-late" if nxt[0]["t"] > d["t"] else "C18/retry-early"
            out.append((key, f"{d['why']}: due at t={d['t']:.6f}, next attempt started at t={nxt[0]['t']:.6f} ({nxt[0]['t'] - d['t']:+.6f} s)"))
    # ---- (d) counts at the end (the run ends with stop() and a 130 s quiet period)
    if pending_fail is not None:
        out.append(("C18/failed-attempt-not-reported", f"attempt failed with {pending_fail['exc']!r} at t={pending_fail['t']:.6f}: never reported to on_connect_error"))
    if n_connect != sessions_via_manager:
        out.append(("C18/on_connect-count", f"{sessions_via_manager} sessions established by the manager, on_connect called {n_connect}x"))
    ended = sum(len(stops) for _, _, _, stops in o["conns"])
    if n_disconnect != ended:
        out.append(("C18/on_disconnect-count", f"{ended} sessions ended (stop hook), on_disconnect called {n_disconnect}x"))
    # ---- (e) after each stop() return, until the next start() entry
    stop_rets = armed_stop_rets
    start_enters = [s for s, _, k, _ in evs if k == "call:start:enter"]
    for s_ret, t_ret in stop_rets:
        nxt_start = min([s for s in start_enters if s > s_ret], default=None)
        for z in o["instances"]:
            reg = 0
            for ls, lt, what in z["listener_log"]:
                if ls < s_ret:
                    reg += 1 if what == "add" else -1
                elif nxt_start is None or ls < nxt_start:
                    if what == "add":
                        out.append(("C18/listening-after-stop", f"listener added on zeroconf #{z['idx']} at t={lt:.6f} after stop() returned at t={t_ret:.6f}"))
            if reg > 0:
                out.append(("C18/listening-after-stop", f"still registered as listener on zeroconf #{z['idx']} when stop() returned at t={t_ret:.6f}"))
            if z["origin"] == "library" and z["created"] < s_ret and (z["closed_seq"] is None or z["closed_seq"] > s_ret):
                out.append(("C18/library-zeroconf-open-after-stop", f"library-created zeroconf #{z['idx']} not closed when stop() returned at t={t_ret:.6f}"))
    for z in o["instances"]:
        if z["origin"] == "supplied" and z["closes"]:
            out.append(("C18/supplied-zeroconf-closed", f"the application's zeroconf #{z['idx']} was closed {z['closes']}x"))
        if z["origin"] == "library" and z["closes"] > 1:
            st["note/library-zeroconf-closed-twice(judged by C20)"] = st.get("note/library-zeroconf-closed-twice(judged by C20)", 0) + 1
        if z["used_after_close"]:
            st["note/zeroconf-used-after-close(judged by C20)"] = st.get("note/zeroconf-used-after-close(judged by C20)", 0) + 1
    if o["pending_calls"]:
        out.append(("C18/call-never-ended", f"{o['pending_calls']} still pending at the end"))
    timers = [x for x in o["live_timers"] if "_call_connect_once" in x]
    if timers:
        out.append(("C18/retry-timer-armed-after-stop", f"{timers} still armed 130 s after the final stop() returned"))
    return out, st


# ---------------------------------------------------------------- generators
VARIANTS = [{"addr": a, "noise": n, "zc": z, "slow_cb": sc} for a in ("ip", "local", "literal") for n in (False, True) for z in ("library", "supplied") for sc in (0.0, 0.0, 0.3)]
VARIANTS += [{"addr": a, "noise": n, "zc": z, "slow_cb": 0.0, "name_via": "attr"} for a in ("ip", "literal") for n in (False, True) for z in ("library", "supplied")]
VARIANTS += [{"addr": a, "noise": False, "zc": z, "slow_cb": 0.0, "name_via": "rename"} for a in ("ip", "literal") for z in ("library", "supplied")]
# (no name given, spelled as the empty string instead of None: the name still comes from the .local host name)
VARIANTS += [{"addr": "local", "noise": n, "zc": z, "slow_cb": 0.0, "name_via": "empty"} for n in (False, True) for z in ("library", "supplied")]
# node names with an underscore (ESPHome allowed them for years; python-zeroconf resolves them): the name still comes from the host name
VARIANTS += [{"addr": "local", "noise": n, "zc": z, "slow_cb": 0.0, "host": "living_room"} for n in (False, True) for z in ("library", "supplied")]
# firmware newer than the client (API 1.12) and much older (1.2): what the hello announces changes nothing for the manager
VARIANTS += [{"addr": a, "noise": False, "zc": z, "slow_cb": 0.0, "api_minor": mi} for a in ("ip", "local") for z in ("library", "supplied") for mi in (12, 2)]
VARIANTS += [{"addr": a, "noise": False, "zc": z, "slow_cb": 0.0, "cb_raises": cb} for a in ("ip", "local") for z in ("library", "supplied")
             for cb in ("on_connect",)]   # (a raising on_disconnect / on_connect_error hook ends the manager's retry loop on the pinned tree: the statement
#                                          quantifies over outcomes, endings, mDNS events and start/stop calls, not over hooks that raise - observed, DESIGN §9, not judged)

ALPHABET: list[Any] = [
    ["start"], ["stop"], ["world", "refuse"], ["world", "ok"], ["run", 2.0], ["run", "timer"], ["mdns", "match-ptr"], ["mdns", "nomatch-a"],
    ["dev", "eof"], ["dev", "discreq"], ["mdns", "match-a-refresh"], ["mdns", "match-a-behind-srv-txt"],
]
RUNS: list[Any] = [0, 0.001, 0.5, 1.0, 2.0, 3.0, 5.0, 6.0, 10.0, 60.0, "timer-", "timer", "timer+"]


def gen_history(rng: Any) -> list[Any]:
    h: list[Any] = []
    if rng.random() < 0.8:
        h.append(["world", rng.choice(WORLDS)])
    h.append(["start"] if rng.random() < 0.9 else ["start", "none"])
    for _ in range(rng.randint(2, 23)):
        r = rng.random()
        if r < 0.22:
            h.append(["run", rng.choice(RUNS)])
        elif r < 0.40:
            h.append(["world", rng.choice(WORLDS) if rng.random() < 0.6 else "ok"])
        elif r < 0.55:
            kind = rng.choice(["match-ptr", "match-a", "match-both", "match-ptr-refresh", "match-a-refresh", "nomatch-ptr", "nomatch-a", "nomatch-both",
                               "match-a-behind-srv-txt", "match-ptr-behind-aaaa-nsec", "nomatch-other-types"])
            h.append(["mdns", kind, "at-timer"] if rng.random() < 0.2 else ["mdns", kind])
        elif r < 0.70:
            h.append(["dev", rng.choice(["eof", "rst", "discreq", "garbage"])])
        elif r < 0.78:
            h.append(rng.choice([["stop"], ["stop", "none"], ["stop_cb"]]))
        elif r < 0.88:
            h.append(rng.choice([["start"], ["start", "none"]]))
        elif r < 0.94:
            h.append(["disconnect"])
        else:
            h.append(["force"])
    return h


def backoff_ladders() -> list[dict[str, Any]]:
    """Structured: n consecutive failures of each kind, then success; checks every rung of the ladder exactly."""
    out = []
    for w in WORLDS[1:]:
        for v in VARIANTS:
            if w == "badkey" and not v["noise"]:
                continue
            if w == "needs-encryption" and v["noise"]:
                continue
            out.append({"variant": v, "hist": [["world", w], ["start"], ["run", 60.0], ["run", 60.0], ["run", 60.0], ["run", 60.0], ["run", 60.0],
                                               ["world", "ok"], ["run", 60.0], ["dev", "eof"], ["run", 1.0], ["dev", "discreq"], ["run", 6.0]]})
    return out


def one(ctx: Ctx, case: dict[str, Any], label: str) -> None:
    res = ctx.res
    o = run_history(case)
    res.evaluations += 1
    if o["harness_errors"]:
        res.inconclusive.append(f"{label}: {o['harness_errors'][0][-300:]}")
        return
    found, st = judge(case, o)
    res.count(f"workload/{label}")
    for k, v in st.items():
        res.count(f"observed/{k}", v)
    res.count("observed/tcp_attempts", len(o["tcp"]))
    res.count("steps_skipped(nothing to act on)", o["skipped"])
    # how often the hard window was actually reached: a retry timer of the manager ran while an on_connect_error hook was suspended
    hook_spans, open_at = [], None
    for c in o["cbs"]:
        if c[2] == "on_connect_error":
            if c[3] == "enter":
                open_at = c[0]
            elif open_at is not None:
                hook_spans.append((open_at, c[0]))
                open_at = None
    if open_at is not None:
        hook_spans.append((open_at, float("inf")))
    res.count("retry-timer-fired-while-error-hook-suspended",
              sum(1 for ts, _t, name in o.get("timer_fired", ()) if "_call_connect_once" in str(name) and any(a < ts < b for a, b in hook_spans)))
    for c in o["cbs"]:
        if c[3] == "enter":
            res.count(f"callback/{c[2]}" + (f"/{type(c[4]).__name__}" if c[2] == "on_connect_error" else f"/{c[4]}" if c[2] == "on_disconnect" else ""))
    if st["attempts"]:
        v = case["variant"]
        res.sig((v["addr"], v["noise"], v["zc"], v.get("slow_cb")), tuple(map(tuple, case["hist"])),
                tuple((e[2], e[3], e[5] if e[2] == "ret" else None) for e in o["log"] if e[3] != "disconnect"))
    for key, what in found:
        res.violation(key, what, {"case": case}, trace=o["trace"][-120:])
    if res.evaluations % 300 == 1:
        res.sample({"case": case, "attempt_instants": [round(e[1], 6) for e in o["log"] if e[2] == "enter" and e[3] == "start_connection"][:20],
                    "callbacks": [(round(c[1], 6), c[2], c[4] if not isinstance(c[4], BaseException) else type(c[4]).__name__) for c in o["cbs"] if c[3] == "enter"][:20],
                    "observed": st})


def shard(ctx: Ctx) -> None:
    from vf.sim import device as _device

    _device.AUTO_ROTATE = True   # chunking of the device's stream rotates: as written / replies coalesced / cut into 1..8-byte pieces
    rng = ctx.rng.__class__(f"C18/{ctx.seed}")
    idx = 0
    for case in backoff_ladders():
        idx += 1
        if ctx.mine(idx):
            one(ctx, case, "backoff-ladder")
    # long outage: far more than a thousand consecutive ordinary failures (a device unplugged for a day), every rung still at 60 s, and the
    # session is established at the first attempt after the device is back
    for v, w, dur in (({"addr": "literal", "noise": False, "zc": "library", "slow_cb": 0.0}, "refuse", 80000.0),
                      ({"addr": "ip", "noise": True, "zc": "supplied", "slow_cb": 0.0}, "dns-fail", 75000.0),
                      ({"addr": "local", "noise": False, "zc": "library", "slow_cb": 0.0}, "netunreach", 73000.0)):
        idx += 1
        if ctx.mine(idx):
            one(ctx, {"variant": v, "hist": [["world", w], ["start"], ["run", dur], ["world", "ok"], ["run", 70.0], ["dev", "eof"], ["run", 1.0]]}, "long-outage")
    # a retry timer left armed by an earlier failure fires while the next failure's on_connect_error hook is still running (slow hook): the
    # running attempt is past 'connecting', the stale timer must neither cancel it nor start another one
    for addr in ("ip", "local"):
        for zc in ("library", "supplied"):
            # the first failure's hook runs for `slow` s as well, so the manager listens from t=slow and the first retry timer is due at slow+2:
            # a record at t_mdns in (max(slow, 2), slow+2) starts attempt #2 whose hook is still running when that timer fires; the other
            # pairs put the record before the manager listens or let the hook end before the timer
            for slow, t_mdns in ((0.3, 2.1), (1.5, 2.5), (1.5, 3.4), (3.0, 3.5), (3.0, 4.9), (0.3, 1.85), (1.5, 1.0), (1.5, 0.2), (3.0, 1.0)):
                for w in ("refuse", "dns-fail", "garbage"):
                    idx += 1
                    if ctx.mine(idx):
                        v = {"addr": addr, "noise": False, "zc": zc, "slow_cb": slow}
                        one(ctx, {"variant": v, "hist": [["world", w], ["start"], ["run", t_mdns], ["mdns", "match-ptr"], ["run", 12.0], ["world", "ok"], ["run", 70.0]]},
                            "stale-timer-during-slow-error-hook")
    maxlen = 4 if ctx.thorough else 3
    for ln in range(1, maxlen + 1):
        for combo in itertools.product(range(len(ALPHABET)), repeat=ln):
            idx += 1
            if ctx.mine(idx):
                # the manager is started first so that every history exercises it; the variant rotates
                hist = [["start"]] + [list(ALPHABET[i]) for i in combo]
                one(ctx, {"variant": VARIANTS[idx % len(VARIANTS)], "hist": hist}, f"all-histories-len{ln}")
    for _ in range(300000 if ctx.thorough else 10000):
        h = gen_history(rng)
        v = rng.choice(VARIANTS)
        idx += 1
        if ctx.mine(idx):
            one(ctx, {"variant": v, "hist": h}, "random-history")


def exhaustive(tier: str) -> Any:
    return [f"all histories 'start' + up to {4 if tier == 'thorough' else 3} symbols of the 11-symbol alphabet {ALPHABET} (variant rotating)",
            "backoff ladder of 5+ consecutive failures for each failure kind x variant"]


def replay(spec: dict[str, Any]) -> int:
    case = spec["case"]["case"]
    o = run_history(case)
    print("\n".join(o["trace"]))
    found, st = judge(case, o)
    print(found)
    print(st)
    return 1 if found else 0

"""C14 part S - conversions as the application gets them: what a public API call returns (or a subscription delivers) for a wire message equals
the conversion of THAT wire message, when real connections carry it - several sessions in one process answering at the same instant, several
awaited answers of one type in one TCP segment, a frame begun in a session that was lost.  (Part T/W converts messages in isolation.)"""

from __future__ import annotations

import copy
from typing import Any

from vf import msggen
from vf.common import Ctx
from vf.sim.device import DeviceConfig
from vf.sim.scenario import Sim


def _connect(sim: Sim, cli: Any) -> Any:
    c = sim.call("connect", lambda: cli.connect(login=False))
    sim.run(until=lambda: c.done, max_time=sim.clock + 50)
    return c


def device_info_on_concurrent_sessions(ctx: Ctx) -> None:
    """N devices, N clients in one process; all ask for the device info at the same instant and all answers become readable in the same event-loop
    iteration (start-up, or recovery after a network outage).  Every client gets the conversion of ITS device's answer."""
    from aioesphomeapi import api_pb2 as pb
    from aioesphomeapi import model as M
    from vf.props import c14

    res = ctx.res
    rng = ctx.rng
    conv = c14.Conv()
    for rep in range(24 if ctx.thorough else 6):
        if not ctx.mine(rep):
            continue
        n = 2 + rep % 3
        framing_noise = rep % 2 == 1
        with Sim() as sim:
            current: list[Any] = [None] * n
            clis = []
            for k in range(n):
                cfg = DeviceConfig(name=f"dev{k}", noise_psk=bytes(range(k, k + 32)) if framing_noise else None)
                cfg.handlers["DeviceInfoRequest"] = lambda c, m, k=k: c.send_msg(current[k])
                sim.device(cfg, addresses=(f"10.0.1.{k + 1}",))
                import base64  # noqa: PLC0415

                kw = {"noise_psk": base64.b64encode(bytes(range(k, k + 32))).decode()} if framing_noise else {}
                clis.append(sim.client(f"10.0.1.{k + 1}", keepalive=1e5, **kw))
            if any(_connect(sim, c).outcome != "ok" for c in clis):
                res.inconclusive.append("C14 part S: connect failed")
                continue
            for rnd in range(4):
                for k in range(n):
                    m_ = msggen.random_message(pb.DeviceInfoResponse, rng)
                    c14.normalize(m_)
                    current[k] = m_
                sent = [copy.deepcopy(m_) for m_ in current]
                recs = [sim.call(f"device_info{k}", lambda c=c: c.device_info()) for k, c in enumerate(clis)]
                sim.run(until=lambda: all(r.done for r in recs), max_time=sim.clock + 20)
                for k, r in enumerate(recs):
                    res.evaluations += 1
                    res.count("S/device_info-results-compared")
                    res.sig("S-dinfo", n, framing_noise, rnd, k)
                    case = {"part": "S", "kind": "device_info-on-concurrent-sessions", "sessions": n, "noise": framing_noise}
                    if r.outcome != "ok":
                        res.violation("C14/S/call-failed/device_info", f"device_info() on session {k} of {n}: {r.exc!r}", case, trace=sim.trace(30))
                        continue
                    for key, what in c14.compare_fields(ctx, conv, pb.DeviceInfoResponse, M.DeviceInfo, sent[k], r.result, f"session {k} of {n}")[:3]:
                        res.violation(key.replace("C14/", "C14/S/", 1), f"device_info() returned on session {k} while {n - 1} other sessions got their answers in the same "
                                      f"loop iteration: {what}", case)
            if sim.harness_errors:
                res.inconclusive.append("C14 part S: " + sim.harness_errors[0][-300:])


def same_type_answers_in_one_segment(ctx: Ctx) -> None:
    """Several awaited calls of one kind outstanding on ONE session (pair / unpair / clear-cache for different peripherals); the device's answers arrive
    in one TCP segment, in request order or not.  Each call returns the conversion of the answer addressed to it."""
    from aioesphomeapi import api_pb2 as pb
    from aioesphomeapi import model as M
    from vf.props import c14

    res = ctx.res
    conv = c14.Conv()
    kinds = {"pair": (pb.BluetoothDevicePairingResponse, M.BluetoothDevicePairing, lambda m, a, j: (setattr(m, "paired", bool(j % 2)), setattr(m, "error", 10 + j))),
             "unpair": (pb.BluetoothDeviceUnpairingResponse, M.BluetoothDeviceUnpairing, lambda m, a, j: (setattr(m, "success", bool(j % 2)), setattr(m, "error", 20 + j))),
             "clear_cache": (pb.BluetoothDeviceClearCacheResponse, M.BluetoothDeviceClearCache, lambda m, a, j: (setattr(m, "success", not j % 2), setattr(m, "error", 30 + j)))}
    idx = 0
    for kind, (wire, model, fill) in kinds.items():
        for n in (2, 3, 5):
            for order in ("request-order", "reversed"):
                idx += 1
                if not ctx.mine(100 + idx):
                    continue
                with Sim() as sim:
                    cfg = DeviceConfig()
                    cfg.handlers["BluetoothDeviceRequest"] = lambda c, m: None
                    dev = sim.device(cfg)
                    cli = sim.client(keepalive=1e5)
                    if _connect(sim, cli).outcome != "ok":
                        res.inconclusive.append("C14 part S: connect failed")
                        continue
                    addrs = [0xA0000000 + 7 * j for j in range(n)]
                    meth = {"pair": cli.bluetooth_device_pair, "unpair": cli.bluetooth_device_unpair, "clear_cache": cli.bluetooth_device_clear_cache}[kind]
                    recs = [sim.call(f"{kind}{j}", lambda a=a: meth(a, timeout=5.0)) for j, a in enumerate(addrs)]
                    sim.run_for(0.01)
                    answers = []
                    for j, a in enumerate(addrs):
                        m_ = wire(address=a)
                        fill(m_, a, j)
                        answers.append(m_)
                    dconn = dev.conn
                    dconn.outbox = []
                    for m_ in (answers if order == "request-order" else answers[::-1]):
                        dconn.send_msg(m_)
                    out, dconn.outbox = dconn.outbox, None
                    dconn.deliver_items(out, 0.0)
                    sim.run(until=lambda: all(r.done for r in recs), max_time=sim.clock + 8)
                    for j, r in enumerate(recs):
                        res.evaluations += 1
                        res.count("S/same-type-answers-compared")
                        res.sig("S-same-type", kind, n, order, j)
                        case = {"part": "S", "kind": "same-type-answers-in-one-segment", "call": kind, "outstanding": n, "order": order}
                        if r.outcome != "ok":
                            res.violation(f"C14/S/call-failed/{kind}", f"bluetooth_device_{kind}() #{j} of {n} (answers in one segment, {order}): {r.exc!r}", case, trace=sim.trace(30))
                            continue
                        for key, what in c14.compare_fields(ctx, conv, wire, model, answers[j], r.result, f"call {j} of {n}")[:3]:
                            res.violation(key.replace("C14/", "C14/S/", 1), f"bluetooth_device_{kind}({addrs[j]:#x}) with {n} such calls answered in one segment ({order}): {what}",
                                          case)
                    if sim.harness_errors:
                        res.inconclusive.append("C14 part S: " + sim.harness_errors[0][-300:])


def entity_lists_end_to_end(ctx: Ctx) -> None:
    """list_entities_services() on several sessions at once: every returned entity info / service is the conversion of the message that session's
    device sent, in the order it sent them."""
    from aioesphomeapi import api_pb2 as pb
    from aioesphomeapi import model as M
    from aioesphomeapi import model_conversions as MC
    from vf.props import c14

    res = ctx.res
    rng = ctx.rng
    conv = c14.Conv()
    table = [(w, m) for w, m in MC.LIST_ENTITIES_SERVICES_RESPONSE_TYPES.items() if m is not None and m is not M.UserService]
    for rep in range(12 if ctx.thorough else 3):
        if not ctx.mine(200 + rep):
            continue
        n = 2
        with Sim() as sim:
            lists: list[list[Any]] = [[] for _ in range(n)]
            clis = []
            for k in range(n):
                cfg = DeviceConfig(name=f"dev{k}")

                def on_list(c: Any, m: Any, k: int = k) -> None:
                    for x in lists[k]:
                        c.send_msg(x)
                    c.send_msg(pb.ListEntitiesDoneResponse())

                cfg.handlers["ListEntitiesRequest"] = on_list
                cfg.coalesce_replies = bool(rep % 2)
                sim.device(cfg, addresses=(f"10.0.2.{k + 1}",))
                clis.append(sim.client(f"10.0.2.{k + 1}", keepalive=1e5))
            if any(_connect(sim, c).outcome != "ok" for c in clis):
                res.inconclusive.append("C14 part S: connect failed")
                continue
            for k in range(n):
                for _ in range(rng.randint(3, 12)):
                    w, _m = table[rng.randrange(len(table))]
                    x = msggen.random_message(w, rng)
                    c14.normalize(x)
                    lists[k].append(x)
                for _ in range(rng.randint(0, 3)):
                    x = msggen.random_message(pb.ListEntitiesServicesResponse, rng)
                    c14.normalize(x)
                    lists[k].append(x)
            recs = [sim.call(f"list{k}", lambda c=c: c.list_entities_services()) for k, c in enumerate(clis)]
            sim.run(until=lambda: all(r.done for r in recs), max_time=sim.clock + 80)
            for k, r in enumerate(recs):
                res.evaluations += 1
                res.sig("S-list", rep, k, len(lists[k]))
                case = {"part": "S", "kind": "entity-lists-end-to-end", "sessions": n}
                if r.outcome != "ok":
                    res.violation("C14/S/call-failed/list_entities_services", f"session {k}: {r.exc!r}", case, trace=sim.trace(30))
                    continue
                infos, services = r.result
                exp_infos = [x for x in lists[k] if type(x) is not pb.ListEntitiesServicesResponse]
                exp_svcs = [x for x in lists[k] if type(x) is pb.ListEntitiesServicesResponse]
                if [type(i).__name__ for i in infos] != [MC.LIST_ENTITIES_SERVICES_RESPONSE_TYPES[type(x)].__name__ for x in exp_infos] or len(services) != len(exp_svcs):
                    res.violation("C14/S/entity-list/sequence", f"session {k}: got {[type(i).__name__ for i in infos]} + {len(services)} services; device sent "
                                  f"{[type(x).__name__ for x in lists[k]]}", case)
                    continue
                for x, got in list(zip(exp_infos, infos)) + list(zip(exp_svcs, services)):
                    res.count("S/entity-list-items-compared")
                    mcls = MC.LIST_ENTITIES_SERVICES_RESPONSE_TYPES[type(x)] if type(x) is not pb.ListEntitiesServicesResponse else M.UserService
                    for key, what in c14.compare_fields(ctx, conv, type(x), mcls, x, got, f"session {k}")[:2]:
                        res.violation(key.replace("C14/", "C14/S/", 1), f"list_entities_services() on session {k} of {n} concurrent ones: {what}", case)
            if sim.harness_errors:
                res.inconclusive.append("C14 part S: " + sim.harness_errors[0][-300:])


def camera_frame_after_session_loss(ctx: Ctx) -> None:
    """A camera frame is converted from the chunks of THAT frame: a frame left unfinished when the session was lost unexpectedly (no disconnect() call -
    what ReconnectLogic does) contributes nothing to the first frame of the next session on the same client object; two state subscriptions on one
    session each get the frame once, unaltered."""
    from aioesphomeapi import api_pb2 as pb

    res = ctx.res
    idx = 0
    for loss in ("eof", "rst", "none-two-subscriptions"):
        for stale_chunks in (1, 2):
            for key_same in (True, False):
                idx += 1
                if not ctx.mine(300 + idx):
                    continue
                with Sim() as sim:
                    dev = sim.device(DeviceConfig())
                    cli = sim.client(keepalive=1e5)
                    if _connect(sim, cli).outcome != "ok":
                        res.inconclusive.append("C14 part S: connect failed")
                        continue
                    got: list[Any] = []
                    got2: list[Any] = []
                    cli.subscribe_states(got.append)
                    if loss == "none-two-subscriptions":
                        cli.subscribe_states(got2.append)
                    sim.run_for(0.01)
                    for j in range(stale_chunks):
                        dev.conn.send_msg(pb.CameraImageResponse(key=5, data=b"STALE%d" % j, done=False))
                    sim.run_for(0.01)
                    if loss != "none-two-subscriptions":
                        (dev.conn.eof if loss == "eof" else dev.conn.rst)(0.0)
                        sim.run_for(0.5)
                        c = sim.call("connect", lambda: cli.connect(login=False))
                        sim.run(until=lambda: c.done, max_time=sim.clock + 50)
                        if c.outcome != "ok":
                            res.inconclusive.append(f"C14 part S: reconnect failed {c.exc!r}")
                            continue
                        cli.subscribe_states(got.append)
                        sim.run_for(0.01)
                        exp = b"fresh-AB"
                        k = 5 if key_same else 6
                    else:
                        exp = b"".join(b"STALE%d" % j for j in range(stale_chunks)) + b"fresh-AB"
                        k = 5
                    dconn = dev.conns[-1]
                    dconn.send_msg(pb.CameraImageResponse(key=k, data=b"fresh-A", done=False))
                    dconn.send_msg(pb.CameraImageResponse(key=k, data=b"B", done=True))
                    sim.run_for(0.05)
                    res.evaluations += 1
                    res.count("S/camera-frames-compared")
                    res.sig("S-camera", loss, stale_chunks, key_same)
                    case = {"part": "S", "kind": "camera-frame-after-session-loss", "loss": loss, "unfinished_chunks_before": stale_chunks, "same_key": key_same}
                    for name, lst in (("first", got), ("second", got2)) if loss == "none-two-subscriptions" else (("first", got),):
                        frames = [(s.key, bytes(s.data)) for s in lst if type(s).__name__ == "CameraState"]
                        if frames != [(k, exp)]:
                            res.violation("C14/S/value/CameraState.data", f"{name} subscription, after {loss}: delivered camera states {frames!r:.200}, the frame's chunks "
                                          f"carry {(k, exp)!r}", case, trace=sim.trace(30))


def shard(ctx: Ctx) -> None:
    device_info_on_concurrent_sessions(ctx)
    same_type_answers_in_one_segment(ctx)
    entity_lists_end_to_end(ctx)
    camera_frame_after_session_loss(ctx)

"""C08 — see DESIGN.md §4 C08. Engine S: fault x injection-point sweep over connection-lifecycle scenarios."""

from __future__ import annotations

from typing import Any

from vf.common import Ctx
from vf.sim import sweep

PROP = "C08"
BUDGET_S = {"quick": 300, "thorough": 3000}
MIN_EVALS = {"quick": 1500, "thorough": 15000}
ASSUMPTIONS = [
    "real asyncio selector loop + real library; sockets, selector, clock, DNS and the peer are simulated (calibrated against real sockets in setup)",
    "interleavings are those reachable under stock asyncio scheduling on a selector loop; other loops are represented by the write-raises fault",
    "one or two faults per scenario; liveness is bounded progress in virtual time (horizon 400 s > every documented timeout)",
]


def replay(spec: dict[str, Any]) -> int:
    return sweep.replay(PROP, spec)

LEVEL = "fault_enumeration"
RULE = ("same fault x injection-point enumeration as C05 (steady-state baselines with pending requests, mid-stream entity listing, active "
        "subscriptions with traffic, keepalive timers in play, graceful disconnect in progress) plus 'closing frame + trailing frames in one chunk' "
        "cases, plus resolver / TCP-connect / setsockopt / silent-peer failures (alone and with force, disconnect, cancel at every injection point). The auditor runs at the first end-of-instant after each connection's CLOSED write and at scenario end: live TimerHandles in the loop, "
        "pending tasks / harness calls, FakeSockets not closed, transports never asked to close, transport.write after CLOSED, subscriber "
        "invocations after CLOSED. Non-trivial = the connection closed and was audited; distinct = trace signature")


def shard(ctx: Ctx) -> None:
    sweep.standard_sweep(ctx, PROP)
    sweep.same_turn_pairs_sweep(ctx, PROP)
    sweep.stalled_connect_sweep(ctx, PROP)
    sweep.high_water_sweep(ctx, PROP)
    sweep.deadline_sweep(ctx, PROP)
    sweep.keepalive_values_sweep(ctx, PROP)
    sweep.abandoned_disconnect_sweep(ctx, PROP)
    sweep.trailing_frames_sweep(ctx, PROP)
    sweep.raising_on_stop_sweep(ctx, PROP)
    sweep.reconnect_in_on_stop_sweep(ctx, PROP)
    sweep.outside_loop_client_sweep(ctx, PROP)
    sweep.dropped_client_sweep(ctx, PROP)   # several sessions on one client object, the next opened inside the previous stop callback
    sweep.connect_fault_sweep(ctx, PROP)   # failures BEFORE a transport exists (resolver, TCP, setsockopt, silent peer) x user actions: the socket must still be released
    sweep.pair_sweep(ctx, PROP, 4000 if ctx.thorough else 150)

"""C08 — see DESIGN.md §4 C08. Engine S: fault x injection-point sweep over connection-lifecycle scenarios."""

from __future__ import annotations

from typing import Any

from vf.common import Ctx
from vf.sim import sweep

PROP = "C08"
BUDGET_S = {"quick": 300, "thorough": 3000}
MIN_EVALS = {"quick": 1500, "thorough": 15000}
ASSUMPTIONS = [
    "real asyncio selector loop + real library; sockets, selector, clock, DNS and the peer are simulated (calibrated against real sockets in setup)",
    "interleavings are those reachable under stock asyncio scheduling on a selector loop; other loops are represented by the write-raises fault",
    "one or two faults per scenario; liveness is bounded progress in virtual time (horizon 400 s > every documented timeout)",
]


def replay(spec: dict[str, Any]) -> int:
    return sweep.replay(PROP, spec)

LEVEL = "fault_enumeration"
RULE = ("same fault x injection-point enumeration as C05 (steady-state baselines with pending requests, mid-stream entity listing, active "
        "subscriptions with traffic, keepalive timers in play, graceful disconnect in progress) plus 'closing frame + trailing frames in one chunk' "
        "cases, plus resolver / TCP-connect / setsockopt / silent-peer failures (alone and with force, disconnect, cancel at every injection point). The auditor runs at the first end-of-instant after each connection's CLOSED write and at scenario end: live TimerHandles in the loop, "
        "pending tasks / harness calls, FakeSockets not closed, transports never asked to close, transport.write after CLOSED, subscriber "
        "invocations after CLOSED. Non-trivial = the connection closed and was audited; distinct = trace signature")


def closed_by_a_subscriber_mid_chunk(ctx: Ctx) -> None:
    """A subscriber closes the connection from inside its callback - directly, or through an eagerly started task running client.disconnect(force=True)
    (what an application on Python 3.12's eager task factory does) - while the chunk being parsed still holds further frames: messages, a ping,
    garbage.  Nothing behind the closing message is delivered to anybody or answered."""
    from aioesphomeapi import api_pb2 as pb
    from vf.props import c12

    res = ctx.res
    idx = 0
    for framing in ("plain", "noise"):
        for how in ("force_disconnect", "eager-task-disconnect(force)", "eager-task-disconnect()"):
            for closing_type in ("SensorStateResponse", "SubscribeLogsResponse", "BluetoothLEAdvertisementResponse"):
                for trailing in (["state", "state"], ["ping", "state"], ["state", "garbage"]):
                    idx += 1
                    if not ctx.mine(idx):
                        continue
                    from vf.sim.scenario import Sim  # noqa: PLC0415

                    with Sim() as sim:
                        live = c12.Live(sim, framing, record_all=False)
                        live.ensure()
                        conn, cli = live.conn, live.cli
                        view = live.view
                        got: list[tuple[int, str, bool]] = []      # (seq, type, connection already CLOSED?)

                        def on_any(m: Any) -> None:
                            got.append((sim.next_seq(), type(m).__name__, conn.connection_state.name == "CLOSED"))

                        def closer(m: Any) -> None:
                            got.append((sim.next_seq(), type(m).__name__ + "(closer)", conn.connection_state.name == "CLOSED"))
                            if how == "force_disconnect":
                                conn.force_disconnect()
                            else:
                                sim.call("disconnect", lambda: cli.disconnect(force="force" in how), eager=True)

                        conn.add_message_callback(closer, (getattr(pb, closing_type),))
                        conn.add_message_callback(on_any, (pb.TextSensorStateResponse,))     # (not the closing type: the message being dispatched when the close
                        #                                                                        happens still reaches its other subscribers - C12)
                        n_rx = len(live.dconn.received)
                        dconn = live.dconn
                        dconn.outbox = []
                        dconn.send_msg(pb.TextSensorStateResponse(key=1, state="before"))
                        # (the closing message with a payload, or - every third case - as an empty frame)
                        fields = {"SensorStateResponse": {"key": 5, "state": 1.5}, "SubscribeLogsResponse": {"message": b"closing"},
                                  "BluetoothLEAdvertisementResponse": {"address": 77, "rssi": -50}}[closing_type]
                        dconn.send_msg(getattr(pb, closing_type)(**({} if idx % 3 == 0 else fields)))
                        for tkind in trailing:
                            if tkind == "state":
                                dconn.send_msg(pb.TextSensorStateResponse(key=2, state="behind"))
                            elif tkind == "ping":
                                dconn.send_msg(pb.PingRequest())
                            else:
                                dconn.send_raw(b"\x42\x42\x42")
                        out, dconn.outbox = dconn.outbox, None
                        dconn.deliver_items(out, 0.0)
                        sim.run_for(0.5 if how.endswith("()") else 0.05)
                        res.evaluations += 1
                        res.count("workload/closed-by-a-subscriber-mid-chunk")
                        res.sig("closed-mid-chunk", framing, how, closing_type, tuple(trailing))
                        case = {"spec": None, "closed_by_subscriber": {"framing": framing, "how": how, "closing_type": closing_type, "trailing": trailing}}
                        if how != "eager-task-disconnect()" and conn.connection_state.name != "CLOSED":
                            res.violation("C08/close-request-ignored/CONNECTED", f"{how} from inside a subscriber left the connection {conn.connection_state.name}", case,
                                          trace=sim.trace(30))
                        late = [g for g in got if g[2]]
                        if late:
                            res.violation("C08/delivery-after-close", f"{framing}: the connection was closed from inside the delivery of {closing_type} ({how}); delivered "
                                          f"after the CLOSED state: {[(g[1]) for g in late]}", case, trace=sim.trace(30))
                        if view.closed_seq is not None:
                            wrote = [r["name"] for r in dconn.received[n_rx:] if r["seq"] > view.closed_seq]
                            if wrote:
                                res.violation("C08/write-after-close", f"after the close from inside the subscriber the device still received {wrote}", case)


def subscriber_raises(ctx: Ctx) -> None:
    """A subscriber's callback raises while a chunk is being handed over - an ordinary application bug (RuntimeError, KeyError, OSError) or one of the
    library's OWN exception classes (a callback that forwards the state to a second client which is not connected gets APIConnectionError out of
    it).  asyncio treats an exception out of data_received as fatal for the transport: the socket is closed.  Whatever the class of the
    exception, that IS the connection closing: state CLOSED, stop callback run, no timer of the connection armed, the outstanding request ended,
    nothing delivered or written afterwards.  A socket that is gone under a connection object that still counts as connected is the failure."""
    import asyncio

    from aioesphomeapi import api_pb2 as pb
    from aioesphomeapi.core import APIConnectionError, SocketClosedAPIError, TimeoutAPIError
    from vf.sim.device import DeviceConfig
    from vf.sim.scenario import Sim  # noqa: PLC0415

    res = ctx.res
    idx = 0
    classes = {"RuntimeError": RuntimeError, "KeyError": KeyError, "OSError": OSError, "APIConnectionError": APIConnectionError,
               "SocketClosedAPIError": SocketClosedAPIError, "TimeoutAPIError": TimeoutAPIError, "asyncio.TimeoutError": asyncio.TimeoutError,
               "ValueError": ValueError}
    for framing in ("plain", "noise"):
        for exc_name in classes:
            for trailing in ([], ["state", "ping"], ["state", "garbage"]):
                for pending_request in (False, True):
                    idx += 1
                    if not ctx.mine(idx):
                        continue
                    with Sim() as sim:
                        import base64  # noqa: PLC0415

                        psk = bytes(range(32))
                        cfg = DeviceConfig(noise_psk=psk if framing == "noise" else None)
                        cfg.handlers["DeviceInfoRequest"] = lambda c, m: None      # never answered: the request stays outstanding
                        dev = sim.device(cfg)
                        cli = sim.client(**({"noise_psk": base64.b64encode(psk).decode()} if framing == "noise" else {}))
                        c0 = sim.call("connect", lambda: cli.connect(on_stop=sim.on_stop_cb(), login=False))
                        sim.run(until=lambda: c0.done, max_time=sim.clock + 50)
                        if c0.outcome != "ok":
                            res.inconclusive.append(f"subscriber_raises: connect failed: {c0.exc!r}")
                            continue
                        conn = cli._connection  # noqa: SLF001
                        view = sim.view(conn)
                        helper = getattr(conn, "_frame_helper", None)
                        dconn = dev.conn
                        got: list[tuple[int, str, bool]] = []

                        def bad(m: Any, sim: Sim = sim, got: list[Any] = got, exc_name: str = exc_name) -> None:
                            got.append((sim.next_seq(), "raiser", False))
                            raise classes[exc_name]("Not connected to other-device @ 10.9.9.9" if "API" in exc_name else "application bug")

                        def on_text(m: Any, sim: Sim = sim, got: list[Any] = got, dconn: Any = dconn) -> None:
                            got.append((sim.next_seq(), "text", dconn.sock.closed))

                        conn.add_message_callback(bad, (pb.SensorStateResponse,))
                        conn.add_message_callback(on_text, (pb.TextSensorStateResponse,))
                        req = sim.call("device_info", lambda: cli.device_info()) if pending_request else None
                        sim.run_for(0.01)
                        n_rx = len(dconn.received)
                        dconn.outbox = []
                        dconn.send_msg(pb.TextSensorStateResponse(key=1, state="before"))
                        dconn.send_msg(pb.SensorStateResponse(key=5, state=1.5))
                        for tkind in trailing:
                            if tkind == "state":
                                dconn.send_msg(pb.TextSensorStateResponse(key=2, state="behind"))
                            elif tkind == "ping":
                                dconn.send_msg(pb.PingRequest())
                            else:
                                dconn.send_raw(b"\x42\x42\x42")
                        out, dconn.outbox = dconn.outbox, None
                        dconn.deliver_items(out, 0.0)
                        sim.run_for(1.0)
                        res.evaluations += 1
                        res.count("workload/subscriber-raises")
                        res.count(f"subscriber-raises/{exc_name}/client-socket-closed={not sim.open_sockets()}")
                        res.sig("subscriber-raises", framing, exc_name, tuple(trailing), pending_request)
                        case = {"spec": None, "subscriber_raises": {"framing": framing, "exception": exc_name, "trailing": trailing, "request_outstanding": pending_request}}
                        socket_gone = not sim.open_sockets()
                        state = conn.connection_state.name
                        if socket_gone:
                            if state != "CLOSED":
                                res.violation("C08/socket-closed-under-live-connection", f"{framing}: a subscriber raised {exc_name}; the client's socket is closed but the "
                                              f"connection is {state} (is_connected={conn.is_connected})", case, trace=sim.trace(30))
                            timers = sim.live_timers_owned_by((conn, helper))
                            if timers:
                                res.violation("C08/timer-after-close", f"{framing}: a subscriber raised {exc_name}; socket closed, timers of the connection still armed: {timers}",
                                              case, trace=sim.trace(30))
                            if req is not None and not req.done:
                                res.violation("C08/task-blocked-after-close", f"{framing}: a subscriber raised {exc_name}; socket closed, device_info() still pending 1 s later", case,
                                              trace=sim.trace(30))
                            if not view.on_stop:
                                res.violation("C08/closed-without-stop-callback", f"{framing}: a subscriber raised {exc_name}; socket closed, the stop hook never ran", case,
                                              trace=sim.trace(30))
                            late = [g for g in got if g[1] == "text" and g[2]]
                            if late:
                                res.violation("C08/delivery-after-close", f"{framing}: delivered after the socket was closed: {late}", case, trace=sim.trace(30))
                        elif state == "CLOSED":
                            res.violation("C08/socket-open-after-close", f"{framing}: a subscriber raised {exc_name}; connection CLOSED but its socket is still open", case,
                                          trace=sim.trace(30))
                        if req is not None and not req.done:
                            sim.cancel(req)
                        d = sim.call("bye", lambda: cli.disconnect(force=True))
                        sim.run(until=lambda: d.done, max_time=sim.clock + 5)


def shard(ctx: Ctx) -> None:
    from vf.sim import device as _device_fw  # noqa: PLC0415

    _device_fw.ROTATE_FIRMWARE = True    # the firmware flavour of default devices rotates (hello without a name, API 1.2 / 1.8 / 1.12, deep sleep)
    closed_by_a_subscriber_mid_chunk(ctx)
    subscriber_raises(ctx)
    sweep.standard_sweep(ctx, PROP)
    sweep.same_turn_pairs_sweep(ctx, PROP)
    sweep.stalled_connect_sweep(ctx, PROP)
    sweep.high_water_sweep(ctx, PROP)
    sweep.deadline_sweep(ctx, PROP)
    sweep.keepalive_values_sweep(ctx, PROP)
    sweep.hello_content_sweep(ctx, PROP)
    sweep.abandoned_disconnect_sweep(ctx, PROP)
    sweep.crossing_requests_sweep(ctx, PROP)
    sweep.trailing_frames_sweep(ctx, PROP)
    sweep.raising_on_stop_sweep(ctx, PROP)
    sweep.reconnect_in_on_stop_sweep(ctx, PROP)
    sweep.outside_loop_client_sweep(ctx, PROP)
    sweep.dropped_client_sweep(ctx, PROP)   # several sessions on one client object, the next opened inside the previous stop callback
    sweep.connect_fault_sweep(ctx, PROP)   # failures BEFORE a transport exists (resolver, TCP, setsockopt, silent peer) x user actions: the socket must still be released
    sweep.pair_sweep(ctx, PROP, 4000 if ctx.thorough else 150)
